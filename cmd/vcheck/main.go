// vcheck is the driver of the runtime-monitoring framework for v-byte-cpu/sx.
//
//	vcheck <Cxx> quick|thorough            run the check of one property
//	vcheck <Cxx> --replay <file>           re-run the batch that produced a witness
//	vcheck list                            list properties and units
//
// For every run it makes a scratch copy of /repo's working tree, drops the lab
// monitors (//go:build verif) into the package directories of the copy, builds
// race-instrumented test binaries and (for level 2) the real sx binary plus the
// wirelab, runs them one child process per batch, merges the batch reports, applies
// the race gate and the evidence floors, writes evidence/<id>.json and exits
// 0 (held on what was observed) / 1 (violation) / 2 (check could not run).
package main

import (
	"bytes"
	"encoding/json"
	"fmt"
	"os"
	"os/exec"
	"path/filepath"
	"regexp"
	"sort"
	"strconv"
	"strings"
	"sync"
	"time"

	"verif.local/v/vlab"
)

var (
	verifDir = envOr("VERIF_DIR", "/verif")
	repoDir  = envOr("VERIF_REPO", "/repo")
)

func envOr(k, d string) string {
	if v := os.Getenv(k); v != "" {
		return v
	}
	return d
}

type runCtx struct {
	prop    *Property
	tier    string
	seed    int64
	scratch string // root of scratch
	repo    string // scratch copy of the repository
	bin     string
	out     string
	start   time.Time
	only    string // unit filter (VERIF_UNIT)
	replay  *replayFile
}

type replayFile struct {
	Property string `json:"property"`
	Unit     string `json:"unit"`
	Batch    int    `json:"batch"`
	NBatch   int    `json:"nbatch"`
	Tier     string `json:"tier"`
	Seed     int64  `json:"seed"`
	Key      string `json:"key"`
	Desc     string `json:"desc"`
	Case     string `json:"case"`
	Witness  interface{} `json:"witness,omitempty"`
	Extra    string `json:"extra,omitempty"`
}

func fatal2(format string, a ...interface{}) {
	fmt.Fprintf(os.Stderr, "vcheck: "+format+"\n", a...)
	os.Exit(2)
}

func main() {
	if len(os.Args) < 2 {
		fatal2("usage: vcheck <Cxx> quick|thorough | vcheck <Cxx> --replay file | vcheck list")
	}
	if os.Args[1] == "list" {
		for _, p := range properties {
			fmt.Printf("%s  %s\n", p.ID, p.Title)
			for _, u := range p.Units {
				fmt.Printf("    %-14s %-5s %-22s %s\n", u.Name, u.Kind, u.Pkg, u.Test)
			}
		}
		return
	}
	if os.Args[1] == "warm" {
		// build everything once so that later runs hit the Go build cache
		var all []*Unit
		for i := range properties {
			for j := range properties[i].Units {
				all = append(all, &properties[i].Units[j])
			}
		}
		rc := &runCtx{prop: &Property{ID: "warm"}, start: time.Now()}
		if err := rc.prepare(); err != nil {
			fatal2("prepare: %v", err)
		}
		defer rc.cleanup()
		if _, err := rc.build(all); err != nil {
			fmt.Fprintln(os.Stderr, err)
			rc.cleanup()
			os.Exit(1)
		}
		rc.logf("warm build done")
		return
	}
	if os.Args[1] == "manifest" {
		writeManifest()
		return
	}
	id := os.Args[1]
	var prop *Property
	for i := range properties {
		if properties[i].ID == id {
			prop = &properties[i]
		}
	}
	if prop == nil {
		fatal2("unknown property %q", id)
	}
	rc := &runCtx{prop: prop, tier: "quick", seed: 1, start: time.Now(), only: os.Getenv("VERIF_UNIT")}
	if v := os.Getenv("VERIF_TIER"); v == "thorough" || v == "quick" {
		rc.tier = v
	}
	if len(os.Args) >= 3 {
		switch os.Args[2] {
		case "quick", "thorough":
			rc.tier = os.Args[2]
		case "--replay":
			if len(os.Args) < 4 {
				fatal2("--replay needs a file")
			}
			b, err := os.ReadFile(os.Args[3])
			if err != nil {
				fatal2("replay: %v", err)
			}
			rf := &replayFile{}
			if err := json.Unmarshal(b, rf); err != nil {
				fatal2("replay: %v", err)
			}
			rc.replay = rf
			rc.tier = rf.Tier
			rc.only = rf.Unit
		default:
			fatal2("unknown mode %q", os.Args[2])
		}
	}
	if v := os.Getenv("VERIF_SEED"); v != "" {
		if n, err := strconv.ParseInt(v, 10, 64); err == nil {
			rc.seed = n
		}
	}
	if rc.replay != nil {
		rc.seed = rc.replay.Seed
	}
	os.Exit(rc.run())
}

func (rc *runCtx) logf(format string, a ...interface{}) {
	fmt.Fprintf(os.Stderr, "[%s %6.1fs] "+format+"\n", append([]interface{}{rc.prop.ID, time.Since(rc.start).Seconds()}, a...)...)
}

func goEnv(extra ...string) []string {
	env := os.Environ()
	env = append(env, "GOFLAGS=-mod=mod", "GOPROXY=off", "GOSUMDB=off", "GOTOOLCHAIN=local", "CGO_ENABLED=1")
	return append(env, extra...)
}

func (rc *runCtx) sh(dir string, env []string, name string, args ...string) (string, error) {
	cmd := exec.Command(name, args...)
	cmd.Dir = dir
	cmd.Env = env
	var buf bytes.Buffer
	cmd.Stdout = &buf
	cmd.Stderr = &buf
	err := cmd.Run()
	return buf.String(), err
}

// prepare makes the scratch copy and injects the lab files.
func (rc *runCtx) prepare() error {
	base := os.Getenv("VERIF_SCRATCH_BASE")
	if base == "" {
		base = os.TempDir()
	}
	d, err := os.MkdirTemp(base, "sxverif-"+rc.prop.ID+"-")
	if err != nil {
		return err
	}
	rc.scratch = d
	rc.repo = filepath.Join(d, "repo")
	rc.bin = filepath.Join(d, "bin")
	rc.out = filepath.Join(d, "out")
	for _, p := range []string{rc.bin, rc.out, filepath.Join(d, "tmp")} {
		if err := os.MkdirAll(p, 0o755); err != nil {
			return err
		}
	}
	if out, err := rc.sh("/", os.Environ(), "rsync", "-a", "--exclude", ".git", repoDir+"/", rc.repo+"/"); err != nil {
		return fmt.Errorf("rsync: %v: %s", err, out)
	}
	// lab files: /verif/lab/<pkg path>/*.go -> <copy>/<pkg path>/zz_verif_<name>
	labRoot := filepath.Join(verifDir, "lab")
	err = filepath.Walk(labRoot, func(p string, info os.FileInfo, err error) error {
		if err != nil || info.IsDir() || !strings.HasSuffix(p, ".go") {
			return err
		}
		rel, _ := filepath.Rel(labRoot, p)
		dst := filepath.Join(rc.repo, filepath.Dir(rel), "zz_verif_"+filepath.Base(rel))
		b, err := os.ReadFile(p)
		if err != nil {
			return err
		}
		if err := os.MkdirAll(filepath.Dir(dst), 0o755); err != nil {
			return err
		}
		return os.WriteFile(dst, b, 0o644)
	})
	if err != nil {
		return err
	}
	// go.mod of the copy: add the verif helper module (directory replacement, no network) and porcupine
	gm := filepath.Join(rc.repo, "go.mod")
	b, err := os.ReadFile(gm)
	if err != nil {
		return err
	}
	add := "\nrequire verif.local/v v0.0.0\nreplace verif.local/v => " + verifDir + "\nrequire github.com/anishathalye/porcupine v1.3.0\n"
	return os.WriteFile(gm, append(b, []byte(add)...), 0o644)
}

func (rc *runCtx) cleanup() {
	if rc.scratch != "" && os.Getenv("VERIF_KEEP") == "" {
		os.RemoveAll(rc.scratch)
	}
}

type buildKey struct {
	kind string
	pkg  string
	race bool
}

// build builds the binaries the selected units need; returns map key->path
func (rc *runCtx) build(units []*Unit) (map[buildKey]string, error) {
	need := map[buildKey]bool{}
	for _, u := range units {
		switch u.Kind {
		case "lab":
			need[buildKey{"lab", u.Pkg, !u.NoRace}] = true
		case "wire":
			need[buildKey{"sx", "", false}] = true
			need[buildKey{"wirelab", "", false}] = true
		}
	}
	res := map[buildKey]string{}
	var mu sync.Mutex
	var wg sync.WaitGroup
	var firstErr error
	for k := range need {
		k := k
		wg.Add(1)
		go func() {
			defer wg.Done()
			var out, path string
			var err error
			switch k.kind {
			case "lab":
				name := strings.ReplaceAll(k.pkg, "/", "_")
				args := []string{"test", "-c", "-tags", "verif", "-vet=off", "-trimpath"}
				if k.race {
					args = append(args, "-race")
					name += "_race"
				}
				path = filepath.Join(rc.bin, name+".test")
				args = append(args, "-o", path, "./"+k.pkg)
				out, err = rc.sh(rc.repo, goEnv(), "go", args...)
			case "sx":
				path = filepath.Join(rc.bin, "sx")
				out, err = rc.sh(rc.repo, goEnv(), "go", "build", "-trimpath", "-o", path, ".")
			case "wirelab":
				path = filepath.Join(rc.bin, "wirelab")
				out, err = rc.sh(verifDir, goEnv(), "go", "build", "-trimpath", "-o", path, "./wirelab")
			}
			mu.Lock()
			defer mu.Unlock()
			if err != nil && firstErr == nil {
				firstErr = fmt.Errorf("build %v failed: %v\n%s", k, err, out)
			}
			res[k] = path
		}()
	}
	wg.Wait()
	return res, firstErr
}

type batchJob struct {
	u     *Unit
	batch int
	n     int
	bin   string
	sxBin string
}

type batchResult struct {
	job      batchJob
	rep      *vlab.Report
	exitErr  error
	stderr   string
	stdout   string
	timedOut bool
	races    []raceBlock
}

func (rc *runCtx) runBatch(j batchJob) batchResult {
	u := j.u
	base := fmt.Sprintf("%s-%s-%03d", rc.prop.ID, u.Name, j.batch)
	stdoutP := filepath.Join(rc.out, base+".stdout")
	stderrP := filepath.Join(rc.out, base+".stderr")
	to := u.TimeoutS
	if rc.tier == "thorough" && u.TimeoutThoroughS > 0 {
		to = u.TimeoutThoroughS
	}
	if to == 0 {
		to = 600
	}
	var args []string
	if u.Netns {
		args = append(args, "unshare", "-n", "--")
	}
	args = append(args, "timeout", "-s", "QUIT", "-k", "20", strconv.Itoa(to))
	switch u.Kind {
	case "lab":
		args = append(args, j.bin, "-test.run", "^"+u.Test+"$", "-test.count=1", "-test.timeout=0", "-test.v")
	case "wire":
		args = append(args, j.bin, "-sx", j.sxBin, "-scenario", u.Test)
	}
	cmd := exec.Command(args[0], args[1:]...)
	cmd.Dir = rc.out
	gmp := 0
	if len(u.GoMaxProcs) > 0 {
		gmp = u.GoMaxProcs[j.batch%len(u.GoMaxProcs)]
	}
	env := append(os.Environ(),
		"VERIF_TIER="+rc.tier,
		"VERIF_SEED="+strconv.FormatInt(rc.seed, 10),
		"VERIF_BATCH="+strconv.Itoa(j.batch),
		"VERIF_NBATCH="+strconv.Itoa(j.n),
		"VERIF_OUT="+rc.out,
		"VERIF_PROP="+rc.prop.ID,
		"VERIF_UNITNAME="+u.Name,
		"GORACE=halt_on_error=0 log_path="+filepath.Join(rc.out, base+".race"),
		"GOTRACEBACK=all",
		"TMPDIR="+filepath.Join(rc.scratch, "tmp"), // test TempDirs of crashed children are removed with the scratch
	)
	if gmp > 0 {
		env = append(env, "GOMAXPROCS="+strconv.Itoa(gmp))
	}
	if rc.replay != nil {
		rp := filepath.Join(rc.out, "replay.json")
		b, _ := json.Marshal(rc.replay)
		os.WriteFile(rp, b, 0o644)
		env = append(env, "VERIF_REPLAY="+rp)
	}
	cmd.Env = env
	so, _ := os.Create(stdoutP)
	se, _ := os.Create(stderrP)
	cmd.Stdout, cmd.Stderr = so, se
	err := cmd.Run()
	so.Close()
	se.Close()
	res := batchResult{job: j, exitErr: err}
	if ee, ok := err.(*exec.ExitError); ok && (ee.ExitCode() == 124 || ee.ExitCode() == 137) {
		res.timedOut = true
	}
	if b, e := os.ReadFile(stderrP); e == nil {
		res.stderr = string(b)
	}
	if b, e := os.ReadFile(stdoutP); e == nil {
		res.stdout = string(b)
	}
	if b, e := os.ReadFile(filepath.Join(rc.out, base+".report.json")); e == nil {
		rep := &vlab.Report{}
		dec := json.NewDecoder(bytes.NewReader(b))
		dec.UseNumber()
		if dec.Decode(rep) == nil {
			res.rep = rep
		}
	}
	// race logs: <base>.race.<pid>
	matches, _ := filepath.Glob(filepath.Join(rc.out, base+".race.*"))
	for _, m := range matches {
		if b, e := os.ReadFile(m); e == nil {
			res.races = append(res.races, parseRaceLog(string(b))...)
		}
	}
	return res
}

type raceBlock struct {
	Sig  string
	Text string
}

var reHex = regexp.MustCompile(`0x[0-9a-f]+`)
var reLine = regexp.MustCompile(`:\d+( \+0x[0-9a-f]+)?`)
var reGor = regexp.MustCompile(`[Gg]oroutine \d+`)

// parseRaceLog splits a race-detector log into blocks and computes a de-duplication
// signature: the sorted pair of top sx functions of the two conflicting accesses, then
// the whole stack pair with line numbers stripped.
func parseRaceLog(s string) []raceBlock {
	var out []raceBlock
	parts := strings.Split(s, "==================")
	for _, p := range parts {
		if !strings.Contains(p, "WARNING: DATA RACE") {
			continue
		}
		// the two access stacks are the first two paragraphs
		paras := strings.Split(strings.TrimSpace(p), "\n\n")
		var tops []string
		for _, para := range paras {
			if len(tops) == 2 {
				break
			}
			lines := strings.Split(para, "\n")
			if len(lines) == 0 {
				continue
			}
			h := lines[0]
			if !(strings.Contains(h, "ead at") || strings.Contains(h, "rite at") || strings.Contains(h, "WARNING: DATA RACE")) {
				continue
			}
			top := ""
			for _, l := range lines {
				l = strings.TrimSpace(l)
				if strings.Contains(l, "github.com/v-byte-cpu/sx/") && strings.HasSuffix(l, ")") || strings.Contains(l, "github.com/v-byte-cpu/sx/") && strings.Contains(l, "()") {
					top = l
					break
				}
			}
			if top == "" {
				for _, l := range lines[1:] {
					l = strings.TrimSpace(l)
					if l != "" && !strings.HasPrefix(l, "/") {
						top = l
						break
					}
				}
			}
			tops = append(tops, reHex.ReplaceAllString(top, ""))
		}
		sort.Strings(tops)
		norm := reGor.ReplaceAllString(reLine.ReplaceAllString(reHex.ReplaceAllString(p, ""), ""), "goroutine")
		out = append(out, raceBlock{Sig: strings.Join(tops, " <-> "), Text: strings.TrimSpace(p), })
		_ = norm
	}
	return out
}

// crash signatures that identify a process-fatal failure of the code under test
var crashRe = regexp.MustCompile(`(?m)^(panic: |fatal error: |unexpected fault address|SIGSEGV)`)

type knownFinding struct {
	prop, key, text string
}

func loadKnown() []knownFinding {
	b, err := os.ReadFile(filepath.Join(verifDir, "KNOWN_FINDINGS.txt"))
	if err != nil {
		return nil
	}
	var out []knownFinding
	for _, l := range strings.Split(string(b), "\n") {
		l = strings.TrimSpace(l)
		if !strings.HasPrefix(l, "known:") {
			continue // "fixed:" lines and comments suppress nothing
		}
		kf := knownFinding{text: l}
		for _, f := range strings.Fields(l) {
			if strings.HasPrefix(f, "property=") {
				kf.prop = strings.TrimPrefix(f, "property=")
			}
			if strings.HasPrefix(f, "key=") {
				kf.key = strings.TrimPrefix(f, "key=")
			}
		}
		if kf.prop != "" && kf.key != "" {
			out = append(out, kf)
		}
	}
	return out
}

func (rc *runCtx) run() int {
	defer rc.cleanup()
	prop := rc.prop
	var units []*Unit
	for i := range prop.Units {
		u := &prop.Units[i]
		if rc.only != "" && u.Name != rc.only {
			continue
		}
		if rc.tier == "quick" && u.ThoroughOnly {
			continue
		}
		units = append(units, u)
	}
	if len(units) == 0 {
		fatal2("no units selected for %s", prop.ID)
	}
	if err := rc.prepare(); err != nil {
		rc.cleanup()
		fatal2("prepare: %v", err)
	}
	rc.logf("scratch copy of %s at %s; building", repoDir, rc.scratch)
	bins, err := rc.build(units)
	if err != nil {
		rc.cleanup()
		fmt.Fprintf(os.Stderr, "%v\n", err)
		fmt.Fprintf(os.Stderr, "vcheck: the harness does not build against this tree: check could not run (exit 2)\n")
		return 2
	}
	rc.logf("built %d binaries", len(bins))

	// job list
	var jobs []batchJob
	for _, u := range units {
		n := u.BatchesQuick
		if rc.tier == "thorough" {
			n = u.BatchesThorough
		}
		if n < 1 {
			n = 1
		}
		var bin, sx string
		switch u.Kind {
		case "lab":
			bin = bins[buildKey{"lab", u.Pkg, !u.NoRace}]
		case "wire":
			bin = bins[buildKey{"wirelab", "", false}]
			sx = bins[buildKey{"sx", "", false}]
		}
		if rc.replay != nil {
			jobs = append(jobs, batchJob{u: u, batch: rc.replay.Batch, n: rc.replay.NBatch, bin: bin, sxBin: sx})
			continue
		}
		for b := 0; b < n; b++ {
			jobs = append(jobs, batchJob{u: u, batch: b, n: n, bin: bin, sxBin: sx})
		}
	}
	par := 16
	if v := os.Getenv("VERIF_PAR"); v != "" {
		if n, err := strconv.Atoi(v); err == nil && n > 0 {
			par = n
		}
	}
	results := make([]batchResult, len(jobs))
	sem := make(chan struct{}, par)
	var acquire sync.Mutex // one job at a time collects its slots: weighted jobs cannot dead-lock each other with partial holdings
	var wg sync.WaitGroup
	for i := range jobs {
		i := i
		wg.Add(1)
		weight := jobs[i].u.Weight
		if weight < 1 {
			weight = 1
		}
		if weight > par {
			weight = par
		}
		go func() {
			defer wg.Done()
			acquire.Lock()
			for k := 0; k < weight; k++ {
				sem <- struct{}{}
			}
			acquire.Unlock()
			results[i] = rc.runBatch(jobs[i])
			for k := 0; k < weight; k++ {
				<-sem
			}
		}()
	}
	wg.Wait()
	rc.logf("ran %d batches", len(jobs))
	return rc.verdict(results)
}

type unitSummary struct {
	Unit         string           `json:"unit"`
	Kind         string           `json:"kind"`
	Batches      int              `json:"batches"`
	Evaluations  int64            `json:"evaluations"`
	Distinct     int64            `json:"distinct_nontrivial"`
	Counters     map[string]int64 `json:"counters,omitempty"`
	RaceBlocks   int              `json:"race_blocks"`
	Inconclusive int64            `json:"inconclusive"`
	WallS        float64          `json:"wall_s"`
}

func (rc *runCtx) verdict(results []batchResult) int {
	prop := rc.prop
	known := loadKnown()
	isKnown := func(key string) *knownFinding {
		for i := range known {
			if known[i].prop == prop.ID && known[i].key == key {
				return &known[i]
			}
		}
		return nil
	}
	type viol struct {
		rf replayFile
	}
	var viols []viol
	knownSeen := map[string]string{}
	var couldNotRun []string
	summaries := map[string]*unitSummary{}
	var order []string
	var samples []interface{}
	inconclusive := []string{}
	var notes []string
	raceSigs := map[string]raceBlock{}
	totalRaceBlocks := 0
	maxCounter := map[string]bool{}
	for _, m := range prop.MaxCounters {
		maxCounter[m] = true
	}

	for _, r := range results {
		u := r.job.u
		s := summaries[u.Name]
		if s == nil {
			s = &unitSummary{Unit: u.Name, Kind: u.Kind, Counters: map[string]int64{}}
			summaries[u.Name] = s
			order = append(order, u.Name)
		}
		s.Batches++
		mk := func(key, desc, cas string, w interface{}, extra string) replayFile {
			return replayFile{Property: prop.ID, Unit: u.Name, Batch: r.job.batch, NBatch: r.job.n, Tier: rc.tier, Seed: rc.seed,
				Key: key, Desc: desc, Case: cas, Witness: w, Extra: extra}
		}
		lastCase := ""
		if b, e := os.ReadFile(filepath.Join(rc.out, fmt.Sprintf("%s-%s-%03d.case", prop.ID, u.Name, r.job.batch))); e == nil {
			lastCase = strings.TrimSpace(string(b))
		}
		if r.rep == nil || !r.rep.Complete {
			// crashed, timed out, or harness failure
			tail := r.stderr
			if len(tail) > 6000 {
				tail = tail[:3000] + "\n...\n" + tail[len(tail)-3000:]
			}
			switch {
			case r.timedOut:
				inconclusive = append(inconclusive, fmt.Sprintf("%s batch %d: watchdog timeout (goroutine dump kept in replay dir if violation); last case: %.200s", u.Name, r.job.batch, lastCase))
				couldNotRun = append(couldNotRun, fmt.Sprintf("%s batch %d timed out", u.Name, r.job.batch))
			case crashRe.MatchString(r.stderr) || crashRe.MatchString(r.stdout):
				txt := r.stderr
				if !crashRe.MatchString(txt) {
					txt = r.stdout
				}
				loc := crashRe.FindStringIndex(txt)
				crash := txt[loc[0]:]
				if len(crash) > 8000 {
					crash = crash[:8000]
				}
				first := crash
				if i := strings.Index(first, "\n"); i > 0 {
					first = first[:i]
				}
				key := "crash"
				if prop.CrashKey != nil {
					key = prop.CrashKey(crash, lastCase)
				}
				viols = append(viols, viol{mk(key, "process-fatal crash: "+first, lastCase, nil, crash)})
			default:
				couldNotRun = append(couldNotRun, fmt.Sprintf("%s batch %d: no report (exit: %v)\n%s", u.Name, r.job.batch, r.exitErr, tail))
			}
			continue
		}
		rep := r.rep
		s.Evaluations += rep.Evaluations
		s.Distinct += rep.Distinct
		s.WallS += rep.WallS
		s.Inconclusive += int64(len(rep.Inconclusive))
		for k, v := range rep.Counters {
			if maxCounter[k] || strings.HasPrefix(k, "max_") {
				if v > s.Counters[k] {
					s.Counters[k] = v
				}
			} else {
				s.Counters[k] += v
			}
		}
		for _, smp := range rep.Samples {
			if len(samples) < 12 {
				samples = append(samples, map[string]interface{}{"unit": u.Name, "case": smp})
			}
		}
		inconclusive = append(inconclusive, rep.Inconclusive...)
		for _, n := range rep.Notes {
			if len(notes) < 30 {
				notes = append(notes, u.Name+": "+n)
			}
		}
		for _, v := range rep.Violations {
			viols = append(viols, viol{mk(v.Key, v.Desc, v.Case, v.Witness, "")})
		}
		// race gate
		s.RaceBlocks += len(r.races)
		totalRaceBlocks += len(r.races)
		for _, rb := range r.races {
			if _, ok := raceSigs[rb.Sig]; !ok {
				raceSigs[rb.Sig] = rb
				if prop.RaceDeciding {
					viols = append(viols, viol{mk("race:"+rb.Sig, "data race reported by the Go race detector: "+rb.Sig, lastCase, nil, rb.Text)})
				}
			}
		}
		// a test that failed without recording a violation is a harness problem
		// (where the race gate is auxiliary, the testing package still fails a test during which the
		// detector reported something; those reports are listed in the evidence, not judged)
		onlyRace := !prop.RaceDeciding && len(r.races) > 0 && strings.Contains(r.stdout, "race detected during execution of test") && strings.Count(r.stdout, "--- FAIL") == 1
		if r.exitErr != nil && len(rep.Violations) == 0 && !onlyRace {
			tail := r.stdout
			if len(tail) > 3000 {
				tail = tail[len(tail)-3000:]
			}
			couldNotRun = append(couldNotRun, fmt.Sprintf("%s batch %d: test exited with %v but recorded no violation\n%s", u.Name, r.job.batch, r.exitErr, tail))
		}
	}

	// totals
	var evals, distinct, inconc int64
	var sums []*unitSummary
	totals := map[string]int64{}
	for _, n := range order {
		s := summaries[n]
		evals += s.Evaluations
		distinct += s.Distinct
		inconc += s.Inconclusive
		sums = append(sums, s)
		for k, v := range s.Counters {
			if maxCounter[k] || strings.HasPrefix(k, "max_") {
				if v > totals[k] {
					totals[k] = v
				}
			} else {
				totals[k] += v
			}
		}
	}

	// floors ("observed nothing" => exit 2)
	var floorFails []string
	if rc.replay == nil && rc.only == "" {
		for k, min := range prop.Floors {
			need := min
			if rc.tier == "thorough" {
				if t, ok := prop.FloorsThorough[k]; ok {
					need = t
				}
			}
			if totals[k] < need {
				floorFails = append(floorFails, fmt.Sprintf("counter %s = %d < floor %d", k, totals[k], need))
			}
		}
	}

	// classify violations
	exit := 0
	replDir := envOr("VERIF_REPLAY_DIR", filepath.Join(verifDir, "replays"))
	nViol := 0
	seenKey := map[string]int{}
	for _, v := range viols {
		if kf := isKnown(v.rf.Key); kf != nil {
			if _, ok := knownSeen[v.rf.Key]; !ok {
				knownSeen[v.rf.Key] = v.rf.Desc
				fmt.Printf("KNOWN-FINDING: property=%s key=%s %s\n", prop.ID, v.rf.Key, oneLine(v.rf.Desc))
			}
			continue
		}
		nViol++
		seenKey[v.rf.Key]++
		if seenKey[v.rf.Key] > 2 {
			continue
		}
		os.MkdirAll(replDir, 0o755)
		b, _ := json.MarshalIndent(v.rf, "", " ")
		name := fmt.Sprintf("%s-%s.json", prop.ID, vlab.HashStr(string(b))[:12])
		p := filepath.Join(replDir, name)
		os.WriteFile(p, b, 0o644)
		fmt.Printf("VIOLATION property=%s replay=%s\n", prop.ID, p)
		fmt.Printf("  key=%s unit=%s case=%.300s\n  %s\n", v.rf.Key, v.rf.Unit, v.rf.Case, oneLine(v.rf.Desc))
		exit = 1
	}

	// evidence
	ev := map[string]interface{}{
		"property_id": prop.ID,
		"tier":        rc.tier,
		"seed":        rc.seed,
		"level":       prop.Level,
		"wall_s":      round1(time.Since(rc.start).Seconds()),
		"violations":  nViol,
		"assumptions": prop.Assumptions,
	}
	if len(samples) == 0 {
		samples = []interface{}{}
	}
	raceList := []string{}
	for s := range raceSigs {
		raceList = append(raceList, s)
	}
	sort.Strings(raceList)
	cov := map[string]interface{}{
		"evaluations":          evals,
		"distinct_nontrivial":  distinct,
		"rule":                 prop.Rule,
		"samples":              samples,
		"units":                sums,
		"counters":             totals,
		"race_detector_blocks": totalRaceBlocks,
		"race_signatures":      raceList,
		"race_gate":            map[bool]string{true: "deciding: any report is a violation", false: "auxiliary: reports are listed, not judged"}[prop.RaceDeciding],
		"inconclusive":         inconclusive,
		"inconclusive_count":   inconc,
		"known_findings_seen":  knownSeen,
		"explanation":          prop.Explanation,
	}
	if prop.Exhaustive != "" {
		cov["exhaustive_part"] = prop.Exhaustive
	}
	if len(notes) > 0 {
		cov["notes"] = notes
	}
	ev["coverage"] = cov
	if rc.replay == nil && rc.only == "" && os.Getenv("VERIF_NO_EVIDENCE") == "" {
		os.MkdirAll(filepath.Join(verifDir, "evidence"), 0o755)
		b, _ := json.MarshalIndent(ev, "", " ")
		if err := os.WriteFile(filepath.Join(verifDir, "evidence", prop.ID+".json"), append(b, '\n'), 0o644); err != nil {
			fatal2("cannot write evidence: %v", err)
		}
	}

	fmt.Printf("%s %s seed=%d: evaluations=%d distinct_nontrivial=%d violations=%d known=%d inconclusive=%d race_blocks=%d wall=%.1fs\n",
		prop.ID, rc.tier, rc.seed, evals, distinct, nViol, len(knownSeen), len(inconclusive), totalRaceBlocks, time.Since(rc.start).Seconds())
	for _, s := range sums {
		fmt.Printf("  unit %-14s batches=%d evals=%d distinct=%d races=%d\n", s.Unit, s.Batches, s.Evaluations, s.Distinct, s.RaceBlocks)
	}
	if exit == 1 {
		return 1
	}
	if len(couldNotRun) > 0 {
		for _, c := range couldNotRun {
			fmt.Fprintf(os.Stderr, "COULD-NOT-RUN: %s\n", c)
		}
		return 2
	}
	if len(floorFails) > 0 {
		for _, c := range floorFails {
			fmt.Fprintf(os.Stderr, "OBSERVED-TOO-LITTLE: %s\n", c)
		}
		return 2
	}
	return 0
}

func oneLine(s string) string {
	s = strings.ReplaceAll(s, "\n", " | ")
	if len(s) > 500 {
		s = s[:500] + "…"
	}
	return s
}

func round1(f float64) float64 { return float64(int(f*10)) / 10 }
