package main

import (
	"encoding/json"
	"fmt"
	"os"
	"path/filepath"
	"strings"
)

// writeManifest regenerates MANIFEST.json from the registry so that the two never drift.
func writeManifest() {
	type check struct {
		PropertyID  string                 `json:"property_id"`
		QuickCmd    string                 `json:"quick_cmd"`
		ThoroughCmd string                 `json:"thorough_cmd"`
		Evidence    string                 `json:"evidence_file"`
		Replay      string                 `json:"replay_cmd_template"`
		Engine      string                 `json:"engine"`
		Level       map[string]interface{} `json:"level_claimed"`
		LevelNote   string                 `json:"level_note"`
		Technique   string                 `json:"technique"`
	}
	var checks []check
	claimed := map[string]bool{}
	for _, p := range properties {
		claimed[p.ID] = true
		kinds := map[string]bool{}
		for _, u := range p.Units {
			kinds[u.Kind] = true
		}
		eng := "lab"
		if kinds["wire"] && kinds["lab"] {
			eng = "lab+wirelab"
		} else if kinds["wire"] {
			eng = "wirelab"
		}
		checks = append(checks, check{
			PropertyID: p.ID, QuickCmd: "./check " + p.ID + " quick", ThoroughCmd: "./check " + p.ID + " thorough",
			Evidence: "evidence/" + p.ID + ".json", Replay: "./check " + p.ID + " --replay {path}", Engine: eng,
			Level:     map[string]interface{}{"category": p.Level, "text": p.LevelText, "design_ref": "DESIGN.md section 3, " + p.ID},
			LevelNote: p.LevelNote, Technique: p.Technique,
		})
	}
	type na struct {
		PropertyID string `json:"property_id"`
		Reason     string `json:"reason"`
	}
	nas := []na{}
	// every property of properties.jsonl that is not claimed must be listed
	b, err := os.ReadFile(filepath.Join(verifDir, "properties.jsonl"))
	if err != nil {
		fatal2("properties.jsonl: %v", err)
	}
	for _, l := range strings.Split(string(b), "\n") {
		if strings.TrimSpace(l) == "" {
			continue
		}
		var p struct {
			ID string `json:"id"`
		}
		json.Unmarshal([]byte(l), &p)
		if !claimed[p.ID] {
			r := notClaimed[p.ID]
			if r == "" {
				r = "check not built yet in this round; runtime monitoring applies (see DESIGN.md section 3)"
			}
			nas = append(nas, na{p.ID, r})
		}
	}
	m := map[string]interface{}{
		"version":   1,
		"setup_cmd": "./setup.sh",
		"hooks": map[string]interface{}{
			"guard":            "verif",
			"enable":           "no hooks live in /repo: the monitors are //go:build verif in-package test files under /verif/lab that the driver copies into a scratch copy of /repo and builds with `go test -c -race -tags verif`; level 2 runs the unmodified sx binary",
			"baseline_off_cmd": "cd /repo && GOFLAGS=-mod=mod GOPROXY=off GOSUMDB=off go test -vet=off -count=1 ./...",
			"source_commits":   []string{},
			"add_only":         true,
		},
		"engines": []map[string]interface{}{
			{"name": "lab", "path": "lab/ + vlab/ + oracle/ + cmd/vcheck", "kind_free_text": "level 1: in-package monitors run under the Go race detector/checkptr in child processes, oracles over recorded events", "serves_properties": servedBy("lab")},
			{"name": "wirelab", "path": "wirelab/", "kind_free_text": "level 2: the real sx binary in a private network namespace on tap/tun/lo wires with a reactive peer and a kernel-timestamp sniffer; offline checkers over the event log", "serves_properties": servedBy("wire")},
		},
		"checks":         checks,
		"not_applicable": nas,
		"notes":          "Technique family: runtime monitoring and sanitizers. Every verdict reads 'held on the executions observed'. exit 0 held / 1 violation / 2 check could not run. KNOWN_FINDINGS.txt lists genuine defects (known:/fixed:).",
	}
	out, _ := json.MarshalIndent(m, "", " ")
	if err := os.WriteFile(filepath.Join(verifDir, "MANIFEST.json"), append(out, '\n'), 0o644); err != nil {
		fatal2("%v", err)
	}
	fmt.Printf("MANIFEST.json: %d checks, %d not_applicable\n", len(checks), len(nas))
}

func servedBy(kind string) []string {
	out := []string{}
	for _, p := range properties {
		for _, u := range p.Units {
			if u.Kind == kind {
				out = append(out, p.ID)
				break
			}
		}
	}
	return out
}

// notClaimed gives the reason for properties that are deliberately not claimed.
var notClaimed = map[string]string{}
