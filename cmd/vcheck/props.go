package main

var commonAssumptions = []string{
	"the Go race detector and checkptr see only the executions the workload produced",
	"the independent oracle code in /verif/oracle is correct (it shares no code with sx or gopacket)",
	"case lists are determined by VERIF_SEED; no oracle reads the wall clock to decide a verdict except where stated",
}

var properties = []Property{
	{
		ID: "C04", Title: "Randomised iteration is a permutation for every range size up to 2^32",
		Level: "exploration",
		LevelText: "Runtime monitoring: a bitmap oracle watches real newRangeIterator iterations (every n<=4096 and the boundary sizes of every table row, several seeded draws each; thorough tier up to n=2^32) and a structural-invariant monitor checks the live cyclicGroups table (primality, no coverage gap, generator order, gcd(N,P-1)=1). Observation cannot enumerate 2^32 sizes x 2^126 draws; the invariant plus the two lemmas quoted in range.go carry the universal step, and the evidence says so.",
		LevelNote: "trusted: 64-bit trial division / math/big in the monitor; math/rand seeded through rand.Seed determines both draws; draws 0 and 2^63-1 are not reachable by seeding",
		Technique: "runtime monitoring: bitmap permutation oracle over executed iterations + live data-structure invariant check",
		Rule: "live-table invariant over all 32 rows of cyclicGroups (primality, coverage without gaps, order of G, gcd(N,P-1)=1) + bitmap oracle over real newRangeIterator iterations (Int/Next exactly as the generators use them): every n in 1..4096 x seeds, and per row n in {P-1, P-2, 2^k, 2^k+-1, prevP, prevP+1} x seeds; non-trivial = n>=3; distinct by (n, rand seed)",
		Explanation: "universal claim over the two random draws rests on the table invariant + the two lemmas quoted in range.go; executions observe it for the seeded draws",
		Exhaustive: "all 32 table rows; all n in 1..4096 (per seed)",
		Assumptions: commonAssumptions,
		Units: []Unit{
			{Name: "iter", Kind: "lab", Pkg: "pkg/scan", Test: "TestVerifC04", BatchesQuick: 16, BatchesThorough: 32, NoRace: true, TimeoutS: 900, TimeoutThoroughS: 7200},
		},
		Floors: map[string]int64{"iterations_checked": 1000, "table_rows_checked": 32, "values_seen": 1000000},
	},
	{
		ID: "C20", Title: "Receiver survives every sequence of read faults as specified",
		Level: "fault_enumeration",
		LevelText: "Runtime monitoring with fault enumeration: the real receiver loop is driven by a scripted reader through every outcome sequence up to length 4 (quick) / 5 (thorough) over {frame, frame+processor error, EAGAIN, timeout, ECONNRESET bare/wrapped, unknown, EOF, EBADF, closed file}, with cancellation injected at every read index of the shorter ones, plus long random sequences with error bursts larger than the 100-slot error buffer and a slow error consumer; a recording processor and the error stream are compared with a reference state machine.",
		LevelNote: "trusted: the reference state machine in lab/pkg/packet/c20_test.go; the 5 ms back-off is not timed; one extra read after cancellation is tolerated; wrapped EBADF and os.ErrClosed are outside the stated alphabet",
		Technique: "runtime monitoring: scripted fault injection at the Reader boundary + reference state machine over the recorded event log (race detector on)",
		Rule: "enumeration of outcome sequences (terminal outcome only in last position), x cancellation at each read index, + seeded long random sequences; non-trivial = >=2 outcomes with at least one fault; distinct by (sequence, cancel index, consumer speed)",
		Explanation: "exhaustive up to the length bound; longer sequences sampled",
		Exhaustive: "all fault sequences up to length 4 (quick) / 5 (thorough); every cancellation index of sequences up to length 3 / 4",
		Assumptions: commonAssumptions,
		RaceDeciding: true,
		Units: []Unit{
			{Name: "faultseq", Kind: "lab", Pkg: "pkg/packet", Test: "TestVerifC20", BatchesQuick: 16, BatchesThorough: 16, TimeoutS: 900, TimeoutThoroughS: 3600, GoMaxProcs: []int{1, 2, 4, 16}},
		},
		Floors: map[string]int64{"reads": 20000, "frames_processed": 5000, "errors_reported": 5000, "cancellations": 1000},
	},
	{
		ID: "C07", Title: "Packet pipeline: nothing lost, duplicated or altered before the wire",
		Level: "exploration",
		LevelText: "Runtime monitoring under stress: the real request stages, N packet-building workers (1..64), merger, sender, receiver and error merger run under the race detector with harness-owned recorders at both ends (unique-id request stream with error positions and bursts >100; a wire that copies bytes at call time and re-reads the caller's buffer on return, can fail and stall); offline oracle: written multiset == built multiset byte for byte, one error per failed request/build/write by identity, completion after the last write on one logical clock. Schedules are sampled (GOMAXPROCS 1/2/4/16, injected yields/sleeps at boundaries); evidence reports distinct wire orders seen.",
		LevelNote: "trusted: recorder objects in lab/command/rig_test.go (mutex/atomic protected, themselves under -race); a race report anywhere in the workload is a violation",
		Technique: "runtime monitoring: Go race detector + exactly-once/conservation oracle over recorded build/write/error events with unique ids",
		Rule: "seeded pipelines over (stream length 0..20000, workers {1,2,3,8,16,64}, 7 fillers incl. VPN mode and variable-length synthetic, error ratios and bursts >100, failing/slow writer, slow error consumer, optional ARP-cache and exclusion stages); non-trivial = >=2 requests and (>1 worker or any injected failure); distinct by full case tuple",
		Explanation: "schedules are sampled, not enumerated; held on the interleavings observed",
		Assumptions: commonAssumptions,
		RaceDeciding: true,
		Units: []Unit{
			{Name: "pipeline", Kind: "lab", Pkg: "command", Test: "TestVerifC07", BatchesQuick: 16, BatchesThorough: 64, TimeoutS: 1200, TimeoutThoroughS: 7200, GoMaxProcs: []int{16, 4, 2, 1, 16, 8, 3, 16}},
		},
		Floors: map[string]int64{"frames_written": 100000, "errors_received": 1000, "distinct_arrival_orders": 50, "wire_order_inversions": 100},
	},
	{
		ID: "C08", Title: "Application scans: each target probed once, each outcome reported once",
		Level: "exploration",
		LevelText: "Runtime monitoring under stress: the engine built by the real newScanEngine (worker pool 1..1000, rate-limit wrapper, 1000-slot result channel, file target generator) is run by the real startScanEngine with the real JSON logger under the race detector; the harness owns only the Scanner (outcome/latency a function of the target id), the output writer (one record per Write call) and the error sink. Offline oracle: per-target probe count == 1, one line per positive, one error record per failed probe / bad target line, completion observed only with zero probes in flight (one logical clock), and nothing detected is missing from the output at return when the exit delay is >= 300 ms and the output is not slow.",
		LevelNote: "trusted: recorders in lab/command/rig_test.go; the 'printed before exit' clause is skipped for deliberately slow outputs and declared inconclusive when the monitor's own 1 ms ticker stalled > 50 ms",
		Technique: "runtime monitoring: Go race detector + exactly-once oracle over probe/result/error events recorded at the Scanner, Writer and Logger boundaries",
		Rule: "seeded engine runs over workers {1,2,7,100,1000} x targets {0,1,99,100,101,1000,2001,5000} x outcome mixes (up to 100% positives > both 1000-slot buffers, up to 100% errors > 100-slot buffer, bad target lines) x latencies x limiter on/off x slow output; non-trivial = >=2 targets with positives or errors; distinct by case tuple",
		Explanation: "schedules are sampled, not enumerated",
		Assumptions: commonAssumptions,
		RaceDeciding: true,
		Units: []Unit{
			{Name: "engine", Kind: "lab", Pkg: "command", Test: "TestVerifC08", BatchesQuick: 16, BatchesThorough: 64, TimeoutS: 1200, TimeoutThoroughS: 7200, GoMaxProcs: []int{16, 4, 2, 1, 16, 8, 3, 16}},
		},
		Floors: map[string]int64{"probes": 50000, "lines_printed": 10000, "error_records": 10000},
	},
	{
		ID: "C12", Title: "Cancellation at any moment ends the scan cleanly and promptly",
		Level: "fault_enumeration",
		LevelText: "Runtime monitoring with enumerated cancellation points: the real startScanEngine runs the generic engine (C08 rig) and the packet engine (real SetupPacketEngine + tcp.ScanMethod on a recording wire that answers probes) under the race detector while the parent context is cancelled from inside a boundary object at the k-th frame write / probe start / probe end / output line / error record, before the start, and at offsets inside the exit delay; for runs of up to 16 (quick) / 64 (thorough) targets every k of every kind is enumerated with empty buffers, a slow output and a slow error sink; large runs (full 1000-slot result and 100-slot error buffers) sample k. Oracle: the call returns (else two goroutine dumps 1 s apart decide 'parked' = violation / 'still running' = inconclusive), the result stream ends, every output write is one complete record, the process does not crash (a panic in any goroutine kills the child and is attributed to the logged case).",
		LevelNote: "trusted: recorders in lab/command/rig_test.go; promptness is judged logically (parked criterion), return latencies are only reported; leaked goroutines are reported, not judged",
		Technique: "runtime monitoring: cancellation injected at enumerated event indices at the boundaries + crash/park/stream-closure/complete-record oracles, Go race detector on",
		Rule: "enumeration of (engine, event kind, k, buffer state, workers) for small runs + seeded large runs; distinct by case tuple; every delivered cancellation is non-trivial",
		Explanation: "exhaustive over k for small runs; schedules sampled",
		Exhaustive: "every cancellation index k of every event kind for runs of N in {1,5,16} (quick) / {1,2,5,16,64} (thorough) targets",
		Assumptions: commonAssumptions,
		RaceDeciding: true,
		Units: []Unit{
			{Name: "cancel", Kind: "lab", Pkg: "command", Test: "TestVerifC12", BatchesQuick: 16, BatchesThorough: 64, TimeoutS: 1500, TimeoutThoroughS: 7200, GoMaxProcs: []int{16, 4, 2, 1, 16, 8, 3, 16}},
		},
		Floors: map[string]int64{"cancellations_delivered": 1000, "cancel:generic:probe-start": 20, "cancel:generic:probe-end": 20, "cancel:generic:line": 10, "cancel:generic:error": 10, "cancel:generic:exit-delay": 10, "cancel:packet:write": 20, "cancel:packet:line": 10, "cancel:packet:exit-delay": 5},
	},
}
