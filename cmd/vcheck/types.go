package main

// Unit is one monitor: a lab test (level 1, in-package, race build) or a wire
// scenario set (level 2, real binary in a network namespace).
type Unit struct {
	Name             string // short name, also VERIF_UNIT filter
	Kind             string // "lab" | "wire"
	Pkg              string // lab: package directory relative to the repository root
	Test             string // lab: test function; wire: scenario-set name
	BatchesQuick     int    // child processes in the quick tier
	BatchesThorough  int
	Netns            bool  // run inside unshare -n
	NoRace           bool  // build without -race (pure throughput units)
	TimeoutS         int   // watchdog per batch (seconds); firing = inconclusive/could-not-run, never a violation
	TimeoutThoroughS int
	GoMaxProcs       []int // cycled over batches for schedule diversity
	Weight           int   // how many of the 16 job slots one batch occupies
	ThoroughOnly     bool
}

type Property struct {
	ID             string
	Title          string
	Level          string // evidence level: exploration | fault_enumeration | ...
	LevelText      string // MANIFEST level_claimed.text
	LevelNote      string // MANIFEST level_note (trusted base)
	Technique      string // MANIFEST technique
	Rule           string // how cases are generated and what makes one non-trivial
	Explanation    string
	Exhaustive     string // which finite sub-space is enumerated completely, if any
	Assumptions    []string
	RaceDeciding   bool // a race-detector report in the workload is a violation
	Units          []Unit
	Floors         map[string]int64 // minimum counters ("observed nothing" => exit 2)
	FloorsThorough map[string]int64
	MaxCounters    []string // counters merged by max instead of sum
	CrashKey       func(crash, lastCase string) string
}
