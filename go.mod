module verif.local/v

go 1.19
