//go:build verif

package command

// buildScan / runScan: construct a scan exactly the way each command does (its own option
// struct, parseRawOptions, its own scan-method constructor) and run one pass on a recording
// wire / recording scanner. Shared by C01, C02, C13.

import (
	"bytes"
	"context"
	"fmt"
	"net"
	"os"
	"strings"
	"time"

	"github.com/google/gopacket/layers"
	"github.com/v-byte-cpu/sx/command/log"
	"github.com/v-byte-cpu/sx/pkg/ip"
	"github.com/v-byte-cpu/sx/pkg/scan"
	"github.com/v-byte-cpu/sx/pkg/scan/arp"
	"github.com/v-byte-cpu/sx/pkg/scan/tcp"
	"verif.local/v/oracle"
	"verif.local/v/vlab"
)

type scanSpec struct {
	Scan        string            `json:"scan"`  // arp icmp udp tcpsyn tcpfin tcpnull tcpxmas tcpflags generic
	Layer       string            `json:"layer"` // gen | engine
	Subnet      string            `json:"subnet,omitempty"`
	Ports       string            `json:"ports,omitempty"`
	PortsFile   string            `json:"ports_file,omitempty"`
	HasFile     bool              `json:"has_target_file,omitempty"`
	FileContent string            `json:"-"`
	Stdin       bool              `json:"file_on_stdin,omitempty"`
	Exclude     string            `json:"exclude_file,omitempty"`
	VPN         bool              `json:"vpn,omitempty"`
	Workers     int               `json:"workers,omitempty"`
	Cache       map[string]string `json:"arp_cache,omitempty"` // ip -> mac
	NoGateway   bool              `json:"no_gateway_mac,omitempty"`
	SlowErrUs   int               `json:"error_sink_delay_us,omitempty"` // the error consumer (logger) is slow
	RandSeed    int64             `json:"rand_seed"`
}

var (
	rigSrcIP  = net.IPv4(192, 168, 7, 7).To4()
	rigSrcMAC = net.HardwareAddr{2, 0, 0, 0, 0, 7}
	rigGwMAC  = net.HardwareAddr{2, 0, 0, 0, 0, 1}
)

type builtScan struct {
	spec    *scanSpec
	reqgen  scan.RequestGenerator
	method  scan.PacketMethod
	generic *scan.GenericEngine
	rng     *scan.Range
	sc      *recScanner
	link    oracle.Link
	clock   *rigClock
	restore func()
}

type specError struct {
	what string
	err  error
}

func (e *specError) Error() string { return e.what + ": " + e.err.Error() }

func buildScan(ctx context.Context, dir string, c *scanSpec) (*builtScan, error) {
	b := &builtScan{spec: c, clock: &rigClock{}, link: oracle.LinkEthernet, restore: func() {}}
	if c.VPN {
		b.link = oracle.LinkRawIP
	}
	var dst *net.IPNet
	var err error
	if c.Subnet != "" {
		if dst, err = ip.ParseIPNet(c.Subnet); err != nil {
			return nil, &specError{"target " + c.Subnet, err}
		}
	}
	exFile, ipFile, portsFile := "", "", ""
	if c.Exclude != "" {
		exFile = writeTemp(dir, "exclude.txt", c.Exclude)
	}
	if c.PortsFile != "" {
		portsFile = writeTemp(dir, "ports.txt", c.PortsFile)
	}
	if c.HasFile {
		ipFile = writeTemp(dir, "targets.jsonl", c.FileContent)
		if c.Stdin {
			ipFile = "-"
			pr, pw, _ := os.Pipe()
			old := os.Stdin
			os.Stdin = pr
			b.restore = func() { os.Stdin = old; pr.Close() }
			content := c.FileContent
			go func() { pw.Write([]byte(content)); pw.Close() }()
		}
	}
	srcMAC := rigSrcMAC
	if c.VPN {
		srcMAC = nil
	}
	gw := rigGwMAC
	if c.NoGateway {
		gw = nil
	}
	newCache := func() *arp.Cache {
		cache := arp.NewCache()
		for k, v := range c.Cache {
			mac, _ := net.ParseMAC(v)
			cache.Put(net.ParseIP(k), mac)
		}
		return cache
	}
	baseRange := func(ports []*scan.PortRange) *scan.Range {
		return &scan.Range{DstSubnet: dst, SrcIP: rigSrcIP, SrcMAC: srcMAC, Ports: ports}
	}
	b.sc = newRecScanner(uint64(c.RandSeed), 0, 0, 0, b.clock)
	switch c.Scan {
	case "arp":
		o := &arpCmdOpts{}
		o.rawExcludeFile = exFile
		if err := o.parseRawOptions(); err != nil {
			return nil, &specError{"arp options", err}
		}
		b.rng = baseRange(nil)
		b.method = o.newARPScanMethod(ctx)
	case "icmp":
		o := &icmpCmdOpts{}
		o.rawExcludeFile, o.ipFile, o.rawIPFlags = exFile, ipFile, "DF"
		o.ipTTL, o.ipProtocol, o.icmpType = 64, 1, 8
		if err := o.parseRawOptions(); err != nil {
			return nil, &specError{"icmp options", err}
		}
		o.vpnMode = c.VPN
		if !c.VPN {
			o.cache, o.gatewayMAC = newCache(), gw
		}
		b.rng = baseRange(nil)
		o.scanRange = b.rng
		b.method = o.newICMPScanMethod(ctx)
	case "udp":
		o := &udpCmdOpts{}
		o.rawExcludeFile, o.ipFile, o.rawPortRanges, o.portFile, o.rawIPFlags = exFile, ipFile, c.Ports, portsFile, "DF"
		o.ipTTL, o.ipProtocol = 64, 17
		if err := o.parseRawOptions(); err != nil {
			return nil, &specError{"udp options", err}
		}
		o.vpnMode = c.VPN
		if !c.VPN {
			o.cache, o.gatewayMAC = newCache(), gw
		}
		b.rng = baseRange(o.portRanges)
		o.scanRange = b.rng
		if c.Layer == "gen" {
			b.reqgen = o.newIPPortGenerator()
			if o.cache != nil {
				b.reqgen = arp.NewCacheRequestGenerator(b.reqgen, o.gatewayMAC, o.cache)
			}
		} else {
			b.method = o.newUDPScanMethod(ctx)
		}
	case "tcpsyn", "tcpfin", "tcpnull", "tcpxmas", "tcpflags":
		o := &tcpCmdOpts{}
		o.rawExcludeFile, o.ipFile, o.rawPortRanges, o.portFile = exFile, ipFile, c.Ports, portsFile
		if err := o.parseRawOptions(); err != nil {
			return nil, &specError{"tcp options", err}
		}
		o.vpnMode = c.VPN
		if !c.VPN {
			o.cache, o.gatewayMAC = newCache(), gw
		}
		b.rng = baseRange(o.portRanges)
		o.scanRange = b.rng
		if c.Layer == "gen" {
			b.reqgen = o.newIPPortGenerator()
			if o.cache != nil {
				b.reqgen = arp.NewCacheRequestGenerator(b.reqgen, o.gatewayMAC, o.cache)
			}
			break
		}
		var fopts []tcp.PacketFillerOption
		filter, flags := tcp.PacketFilterFunc(tcp.TrueFilter), tcp.PacketFlagsFunc(tcp.AllFlags)
		switch c.Scan {
		case "tcpsyn":
			fopts = []tcp.PacketFillerOption{tcp.WithSYN()}
			filter = func(pkt *layers.TCP) bool { return pkt.SYN && pkt.ACK }
			flags = tcp.EmptyFlags
		case "tcpfin":
			fopts = []tcp.PacketFillerOption{tcp.WithFIN()}
		case "tcpxmas":
			fopts = []tcp.PacketFillerOption{tcp.WithFIN(), tcp.WithPSH(), tcp.WithURG()}
		case "tcpflags":
			fopts = []tcp.PacketFillerOption{tcpPacketFlagOptions["ack"], tcpPacketFlagOptions["rst"]}
		}
		b.method = o.newTCPScanMethod(ctx, withTCPScanName(c.Scan), withTCPPacketFillerOptions(fopts...), withTCPPacketFilterFunc(filter), withTCPPacketFlags(flags))
	case "generic":
		o := &genericScanCmdOpts{rawExcludeFile: exFile, ipFile: ipFile, rawPortRanges: c.Ports, portFile: portsFile, workers: c.Workers}
		if o.workers == 0 {
			o.workers = 7
		}
		if err := o.parseRawOptions(); err != nil {
			return nil, &specError{"generic options", err}
		}
		var args []string
		if c.Subnet != "" {
			args = []string{c.Subnet}
		}
		r, err := o.parseScanRange(args)
		if err != nil {
			return nil, &specError{"parseScanRange", err}
		}
		b.rng = r
		if c.Layer == "gen" {
			b.reqgen = o.newIPPortGenerator()
		} else {
			b.generic = o.newScanEngine(ctx, b.sc)
		}
	default:
		panic("unknown scan " + c.Scan)
	}
	return b, nil
}

type probe struct {
	Addr   uint32
	Port   uint16
	DstMAC string
}

type scanObs struct {
	stall   time.Duration // worst scheduling stall the monitor itself suffered during the run
	probes  []probe
	got     map[uint64]int32
	errs    []error
	wrong   string
	parked  bool
	timeout bool
}

// runScan runs one pass and returns what was observed on the wire / at the scanner.
func runScan(run *vlab.Run, ctx context.Context, b *builtScan, limit time.Duration) *scanObs {
	return runScanDelay(run, ctx, b, limit, 0)
}

// runScanDelay: exitDelay > 0 is needed when error records are part of the verdict (errors still
// in flight when the exit delay ends are dropped by design).
func runScanDelay(run *vlab.Run, ctx context.Context, b *builtScan, limit, exitDelay time.Duration) *scanObs {
	defer b.restore()
	obs := &scanObs{got: map[uint64]int32{}}
	c := b.spec
	logger := &recLogger{clock: b.clock}
	{
		real, _ := log.NewLogger(&bytes.Buffer{}, "rig")
		logger.inner = real
	}
	if c.SlowErrUs > 0 {
		d := time.Duration(c.SlowErrUs) * time.Microsecond
		logger.onError = func(int) { time.Sleep(d) }
	}
	conf := newEngineConfig(withLogger(logger), withScanRange(b.rng), withExitDelay(exitDelay))
	var rw *recRW
	health := startHealth()
	defer func() { obs.stall = health.end() }()
	add := func(a uint32, port uint16, mac string) {
		obs.probes = append(obs.probes, probe{a, port, mac})
		obs.got[oracle.Key(a, port)]++
	}
	_, finished, parked := run.Watch(limit, "v-byte-cpu/sx/", func() {
		switch {
		case b.reqgen != nil:
			reqs, err := b.reqgen.GenerateRequests(ctx, b.rng)
			if err != nil {
				obs.errs = append(obs.errs, err)
				return
			}
			for r := range reqs {
				if r.Err != nil {
					obs.errs = append(obs.errs, r.Err)
					continue
				}
				ip4 := r.DstIP.To4()
				if ip4 == nil {
					obs.wrong = fmt.Sprintf("request with non-IPv4 destination %v", r.DstIP)
					continue
				}
				var a [4]byte
				copy(a[:], ip4)
				add(oracle.IPToU32(a), r.DstPort, oracle.MACString(r.DstMAC))
			}
		case b.method != nil:
			rw = newRecRW(b.link, uint64(c.RandSeed), 0, 0, b.clock)
			_ = startScanEngine(ctx, scan.SetupPacketEngine(rw, b.method), conf)
		case b.generic != nil:
			_ = startScanEngine(ctx, b.generic, conf)
		}
	})
	if !finished {
		obs.parked, obs.timeout = parked, !parked
		return obs
	}
	if rw != nil {
		for _, ev := range rw.snapshot() {
			d := oracle.Decode(ev.data, b.link)
			mac := ""
			if d.Eth != nil {
				mac = oracle.MACString(d.Eth.Dst[:])
			}
			switch {
			case c.Scan == "arp" && d.ARP != nil && len(d.ARP.TPA) == 4:
				var a [4]byte
				copy(a[:], d.ARP.TPA)
				add(oracle.IPToU32(a), 0, mac)
			case c.Scan == "icmp" && d.ICMP != nil:
				add(oracle.IPToU32(d.IP.Dst), 0, mac)
			case c.Scan == "udp" && d.UDP != nil:
				add(oracle.IPToU32(d.IP.Dst), d.UDP.DstPort, mac)
			case strings.HasPrefix(c.Scan, "tcp") && d.TCP != nil:
				add(oracle.IPToU32(d.IP.Dst), d.TCP.DstPort, mac)
			default:
				obs.wrong = fmt.Sprintf("frame on the wire is not a %s probe: %x (%v)", c.Scan, truncate(ev.data, 80), d.Problems)
			}
		}
		obs.errs = logger.snapshot()
	}
	if b.generic != nil {
		b.sc.mu.Lock()
		for k, n := range b.sc.calls64 {
			for i := 0; i < n; i++ {
				add(uint32(k>>16), uint16(k), "")
			}
		}
		b.sc.mu.Unlock()
		obs.errs = logger.snapshot()
	}
	return obs
}
