//go:build verif

package command

// C01 — every specified target is probed exactly once per pass (level 1).
//
// Layer "gen": the request generator that the command wires (newIPPortGenerator /
// newARPScanMethod's chain …) is drained directly.
// Layer "engine": the scan method built by the command's own constructor is run through
// scan.SetupPacketEngine(recording wire) + startScanEngine (packet scans), or through
// newScanEngine(recording scanner) + startScanEngine (socks/docker/elastic share this wiring);
// probe frames are decoded by the independent decoder.
// Expected multiset: reference semantics in /verif/oracle computed from the CLI strings.

import (
	"context"
	"fmt"
	"math/rand"
	"os"
	"path/filepath"
	"strings"
	"testing"
	"time"

	"verif.local/v/oracle"
	"verif.local/v/vlab"
)

type c01case struct {
	Scan      string   `json:"scan"`  // arp icmp udp tcpsyn tcpfin tcpnull tcpxmas tcpflags generic
	Layer     string   `json:"layer"` // gen | engine
	Mode      string   `json:"mode"`  // subnet | ipportfile | addrfile | addrfile-stdin
	Subnet    string   `json:"subnet,omitempty"`
	Ports     string   `json:"ports,omitempty"`
	PortsFile string   `json:"ports_file,omitempty"`
	Addrs     []uint32 `json:"-"`
	AddrPorts []uint64 `json:"-"` // ipportfile entries
	NFile     int      `json:"file_lines,omitempty"`
	Exclude   string   `json:"exclude_file,omitempty"`
	VPN       bool     `json:"vpn,omitempty"`
	RandSeed  int64    `json:"rand_seed"`
	Workers   int      `json:"workers,omitempty"`
}

func writeTemp(dir, name, content string) string {
	p := filepath.Join(dir, name)
	if err := os.WriteFile(p, []byte(content), 0o644); err != nil {
		panic(err)
	}
	return p
}

func c01fileContent(c *c01case) string {
	var b strings.Builder
	switch c.Mode {
	case "ipportfile":
		for _, k := range c.AddrPorts {
			fmt.Fprintf(&b, "{\"ip\":\"%s\",\"port\":%d}\n", oracle.IPString(oracle.U32ToIP(uint32(k>>16))), k&0xffff)
		}
	default:
		for i, a := range c.Addrs {
			if i%3 == 0 {
				fmt.Fprintf(&b, "{\"ip\":\"%s\",\"mac\":\"00:11:22:33:44:55\",\"vendor\":\"x\"}\n", oracle.IPString(oracle.U32ToIP(a)))
			} else {
				fmt.Fprintf(&b, "{\"ip\":\"%s\"}\n", oracle.IPString(oracle.U32ToIP(a)))
			}
		}
	}
	return b.String()
}

// c01expected computes the reference multiset from the strings of the case.
func c01expected(c *c01case) (map[uint64]int32, bool) {
	exp := map[uint64]int32{}
	var ex []oracle.CIDR
	if c.Exclude != "" {
		var cls oracle.TargetClass
		ex, cls = oracle.RefExcludeFile(c.Exclude)
		if cls != oracle.TargetValid {
			return nil, false
		}
	}
	portless := c.Scan == "arp" || c.Scan == "icmp"
	var ports []oracle.PortRange
	if !portless {
		if c.Ports != "" {
			p, ok := oracle.RefPortList(c.Ports)
			if !ok {
				return nil, false
			}
			ports = append(ports, p...)
		}
		if c.PortsFile != "" {
			p, ok := oracle.RefPortsFile(c.PortsFile)
			if !ok {
				return nil, false
			}
			ports = append(ports, p...)
		}
	}
	switch c.Mode {
	case "subnet":
		cidr, cls := oracle.RefTarget(c.Subnet)
		if cls != oracle.TargetValid {
			return nil, false
		}
		oracle.ExpectSubnetPorts(exp, cidr, ports, ex)
	case "ipportfile":
		for _, k := range c.AddrPorts {
			if !oracle.Excluded(uint32(k>>16), ex) {
				exp[k]++
			}
		}
	default:
		oracle.ExpectAddrsPorts(exp, c.Addrs, ports, ex)
	}
	return exp, true
}

func c01run(run *vlab.Run, dir string, c *c01case) {
	exp, ok := c01expected(c)
	if !ok {
		run.Inconclusive(fmt.Sprintf("reference semantics undefined for case %+v", c))
		return
	}
	ctx, cancel := context.WithCancel(context.Background())
	defer cancel()
	rand.Seed(c.RandSeed)
	spec := &scanSpec{Scan: c.Scan, Layer: c.Layer, Subnet: c.Subnet, Ports: c.Ports, PortsFile: c.PortsFile, Exclude: c.Exclude, VPN: c.VPN, Workers: c.Workers, RandSeed: c.RandSeed}
	if c.Mode != "subnet" {
		spec.HasFile, spec.FileContent, spec.Stdin = true, c01fileContent(c), c.Mode == "addrfile-stdin"
	}
	b, err := buildScan(ctx, dir, spec)
	if err != nil {
		run.Violation("valid-spec-rejected", fmt.Sprintf("a well-formed specification was rejected: %v: %+v", err, c), c)
		return
	}
	obs := runScan(run, ctx, b, 300*time.Second)
	run.Eval(1)
	if obs.parked {
		run.Violation("scan-parked", fmt.Sprintf("scan did not complete (goroutines parked): %+v", c), c)
		return
	}
	if obs.timeout {
		run.Inconclusive(fmt.Sprintf("scan still running after 300 s: %+v", c))
		return
	}
	// ---- oracle
	if obs.wrong != "" {
		run.Violation("not-a-probe", obs.wrong+fmt.Sprintf(": %+v", c), c)
	}
	missing, extra, repeated := oracle.DiffMultiset(exp, obs.got, 4)
	total := 0
	for _, n := range exp {
		total += int(n)
	}
	desc := func(ks []uint64) string {
		var s []string
		for _, k := range ks {
			s = append(s, fmt.Sprintf("%s (expected x%d, probed x%d)", oracle.KeyString(k), exp[k], obs.got[k]))
		}
		return strings.Join(s, ", ")
	}
	key := c.Scan + ":" + c.Mode
	if len(missing) > 0 {
		k := "target-missing:" + key
		run.Violation(k, fmt.Sprintf("%d probes expected, %d seen; never probed: %s: %+v", total, len(obs.probes), desc(missing), c), c)
	}
	if len(extra) > 0 {
		run.Violation("target-extra:"+key, fmt.Sprintf("probed although not in the specification (or excluded): %s: %+v", desc(extra), c), c)
	}
	if len(repeated) > 0 {
		run.Violation("target-repeated:"+key, fmt.Sprintf("probed more often than specified: %s: %+v", desc(repeated), c), c)
	}
	if len(obs.errs) > 0 {
		run.Violation("error-on-valid-spec:"+key, fmt.Sprintf("a well-formed specification produced %d errors, first: %v: %+v", len(obs.errs), obs.errs[0], c), c)
	}
	run.Count("probes_observed", int64(len(obs.probes)))
	run.Count("spec:"+c.Scan, 1)
	run.Count("mode:"+c.Mode, 1)
	run.Max("max_targets_in_a_spec", int64(total))
}

// ---------------------------------------------------------------------------
// case generation

func c01randSubnet(rng *rand.Rand, minBits int) string {
	bits := minBits + rng.Intn(33-minBits)
	var a uint32
	switch rng.Intn(6) {
	case 0:
		a = 0 // 0.0.0.0/k
	case 1:
		a = 0xffffff00 | uint32(rng.Intn(256)) // 255.255.255.x/k
	default:
		a = rng.Uint32()
	}
	if rng.Intn(2) == 0 && bits < 32 {
		a &= ^uint32(0) << uint(32-bits) // aligned
	}
	if bits == 32 && rng.Intn(2) == 0 {
		return oracle.IPString(oracle.U32ToIP(a)) // bare host
	}
	return fmt.Sprintf("%s/%d", oracle.IPString(oracle.U32ToIP(a)), bits)
}

// c01randPorts returns a -p string with n ranges whose total width is about budget.
func c01randPorts(rng *rand.Rand, n, budget int) string {
	var items []string
	per := budget / n
	if per < 1 {
		per = 1
	}
	last := 0
	for i := 0; i < n; i++ {
		var s, e int
		switch rng.Intn(6) {
		case 0: // single
			s = 1 + rng.Intn(65535)
			e = s
		case 1: // adjacent to previous
			s = last + 1
			if s > 65535 || s < 1 {
				s = 1 + rng.Intn(65535)
			}
			e = s + rng.Intn(per)
		case 2: // overlapping previous
			s = last - rng.Intn(3)
			if s < 1 {
				s = 1
			}
			e = s + rng.Intn(per)
		case 3: // duplicate of a fixed range
			s, e = 80, 80+per/2
		default:
			s = 1 + rng.Intn(65535)
			e = s + rng.Intn(per)
		}
		if e > 65535 {
			e = 65535
		}
		last = e
		if s == e && rng.Intn(2) == 0 {
			items = append(items, fmt.Sprint(s))
		} else {
			items = append(items, fmt.Sprintf("%d-%d", s, e))
		}
	}
	return strings.Join(items, ",")
}

func c01randExclude(rng *rand.Rand, subnet string, addrs []uint32) string {
	var b strings.Builder
	b.WriteString("# exclusion list\n\n")
	var pool []uint32
	if c, cls := oracle.RefTarget(subnet); cls == oracle.TargetValid {
		for i := 0; i < 6; i++ {
			pool = append(pool, c.Base+uint32(rng.Int63n(int64(c.Size()))))
		}
	}
	for i := 0; i < 4 && len(addrs) > 0; i++ {
		pool = append(pool, addrs[rng.Intn(len(addrs))])
	}
	for _, a := range pool {
		switch rng.Intn(4) {
		case 0:
			fmt.Fprintf(&b, "%s\n", oracle.IPString(oracle.U32ToIP(a)))
		case 1:
			bits := 24 + rng.Intn(9)
			fmt.Fprintf(&b, "  %s/%d   # comment\n", oracle.IPString(oracle.U32ToIP(a)), bits)
		case 2:
			bits := 16 + rng.Intn(16)
			fmt.Fprintf(&b, "%s/%d\n\n", oracle.IPString(oracle.U32ToIP(a&(^uint32(0)<<uint(32-bits)))), bits)
		case 3:
			fmt.Fprintf(&b, "%s/31\n%s/30 #nested\n", oracle.IPString(oracle.U32ToIP(a)), oracle.IPString(oracle.U32ToIP(a)))
		}
	}
	b.WriteString("203.0.113.0/24\n") // unrelated
	return b.String()
}

func c01cases(run *vlab.Run) []*c01case {
	rng := run.Rand("cases")
	scans := []string{"arp", "icmp", "udp", "tcpsyn", "tcpfin", "tcpnull", "tcpxmas", "tcpflags", "generic"}
	var cases []*c01case
	n := run.Pick(2400, 40000)
	for i := 0; i < n; i++ {
		c := &c01case{Scan: scans[rng.Intn(len(scans))], RandSeed: rng.Int63(), Workers: []int{1, 7, 100}[rng.Intn(3)], Layer: "engine"}
		portless := c.Scan == "arp" || c.Scan == "icmp"
		if !portless && rng.Intn(3) == 0 {
			c.Layer = "gen"
		}
		if c.Scan != "arp" && c.Scan != "generic" {
			c.VPN = rng.Intn(4) == 0
		}
		budget := 1 << uint(6+rng.Intn(run.Pick(8, 10))) // total targets 64 .. 2^13 (quick) / 2^15
		if c.Layer == "gen" {
			budget <<= 2
		}
		// mode
		m := rng.Intn(10)
		switch {
		case c.Scan == "arp" || m < 5:
			c.Mode = "subnet"
		case m < 7 && !portless:
			c.Mode = "ipportfile"
		case m < 9 || portless:
			c.Mode = "addrfile"
		default:
			c.Mode = "addrfile-stdin"
		}
		if c.Mode == "addrfile-stdin" && portless {
			c.Mode = "addrfile" // icmp does not read the address file from stdin
		}
		nranges := 1
		if !portless && c.Mode != "ipportfile" {
			switch rng.Intn(5) {
			case 0:
				nranges = 1
			case 1:
				nranges = 2 + rng.Intn(5)
			case 2:
				nranges = 10 + rng.Intn(50)
			case 3:
				nranges = 190 + rng.Intn(30) // around the 200-range chunk size
			case 4:
				nranges = 300 + rng.Intn(300)
			}
		}
		switch c.Mode {
		case "subnet":
			hostBudget := budget
			if !portless {
				hostBudget = 1 << uint(rng.Intn(8))
			}
			minBits := 32
			for (1<<uint(32-minBits)) < hostBudget && minBits > 14 {
				minBits--
			}
			c.Subnet = c01randSubnet(rng, minBits)
			if !portless {
				cidr, _ := oracle.RefTarget(c.Subnet)
				pb := budget / int(cidr.Size())
				if pb < nranges {
					pb = nranges
				}
				if rng.Intn(40) == 0 && cidr.Size() <= 2 {
					c.Ports = "1-65535"
				} else {
					c.Ports = c01randPorts(rng, nranges, pb)
				}
			}
		case "ipportfile":
			c.NFile = rng.Intn(budget + 1)
			if rng.Intn(10) == 0 {
				c.NFile = run.Pick(5000, 20000)
			}
			base := rng.Uint32()
			for j := 0; j < c.NFile; j++ {
				a := base + uint32(rng.Intn(64))
				if rng.Intn(4) == 0 {
					a = rng.Uint32()
				}
				c.AddrPorts = append(c.AddrPorts, oracle.Key(a, uint16(1+rng.Intn(65535))))
				if rng.Intn(10) == 0 { // duplicate line
					c.AddrPorts = append(c.AddrPorts, c.AddrPorts[len(c.AddrPorts)-1])
				}
			}
			c.NFile = len(c.AddrPorts)
		default:
			na := 1 + rng.Intn(64)
			if portless {
				na = rng.Intn(budget + 1)
			}
			base := rng.Uint32()
			for j := 0; j < na; j++ {
				a := base + uint32(rng.Intn(256))
				if rng.Intn(4) == 0 {
					a = rng.Uint32()
				}
				c.Addrs = append(c.Addrs, a)
				if rng.Intn(10) == 0 {
					c.Addrs = append(c.Addrs, a)
				}
			}
			c.NFile = len(c.Addrs)
			if !portless {
				pb := budget / len(c.Addrs)
				if pb < nranges {
					pb = nranges
				}
				c.Ports = c01randPorts(rng, nranges, pb)
			}
		}
		// part of the ranges through --ports-file
		if c.Ports != "" && rng.Intn(4) == 0 {
			items := strings.Split(c.Ports, ",")
			k := rng.Intn(len(items) + 1)
			c.Ports = strings.Join(items[:k], ",")
			c.PortsFile = "# ports\n" + strings.Join(items[k:], "\n  ") + "\n\n"
			if k == len(items) {
				c.PortsFile = ""
			}
		}
		if rng.Intn(3) == 0 {
			var addrs []uint32
			addrs = append(addrs, c.Addrs...)
			for _, k := range c.AddrPorts {
				addrs = append(addrs, uint32(k>>16))
			}
			c.Exclude = c01randExclude(rng, c.Subnet, addrs)
		}
		cases = append(cases, c)
	}
	return cases
}

func TestVerifC01(t *testing.T) {
	run := vlab.Begin(t, "C01", "targets")
	defer run.End()
	dir := t.TempDir()
	for i, c := range c01cases(run) {
		if !run.Mine(i) {
			continue
		}
		run.Case(fmt.Sprintf("case%05d", i), c)
		c01run(run, dir, c)
		exp, _ := c01expected(c)
		cidr, _ := oracle.RefTarget(c.Subnet)
		unaligned := c.Mode == "subnet" && strings.Contains(c.Subnet, "/") && !strings.HasPrefix(c.Subnet, oracle.IPString(oracle.U32ToIP(cidr.Base))+"/")
		if len(exp) >= 2 && (strings.Contains(c.Ports+c.PortsFile, ",") || strings.Count(c.PortsFile, "\n") > 2 || unaligned || c.Mode != "subnet" || c.Exclude != "") {
			run.Distinct(fmt.Sprintf("%+v/%v/%v", *c, c.Addrs, c.AddrPorts))
		}
		if run.WantSample() && len(exp) > 50 && c.Exclude != "" {
			smp := *c
			if len(smp.Ports) > 200 {
				smp.Ports = smp.Ports[:200] + "…"
			}
			if len(smp.Exclude) > 300 {
				smp.Exclude = smp.Exclude[:300] + "…"
			}
			run.Sample(map[string]interface{}{"case": smp, "expected_distinct_targets": len(exp)})
		}
	}
}
