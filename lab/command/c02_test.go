//go:build verif

package command

// C02 — confinement: nothing outside the target set or inside exclusions is probed;
// non-IPv4 targets are refused before anything is sent.
//
//  unit "strings": target strings -> ip.ParseIPNet / parseDstSubnet (both variants) / parseExcludeFile
//      against the strict reference grammar; whatever is accepted is then really iterated.
//  unit "exclude": (target set x exclusion file) pairs through the real filter + generators and
//      through each command's engine on the recording wire: emitted = spec \ exclusions exactly.

import (
	"context"
	"fmt"
	"io"
	"math/rand"
	"net"
	"strings"
	"testing"
	"time"

	"github.com/v-byte-cpu/sx/pkg/ip"
	"github.com/v-byte-cpu/sx/pkg/scan"
	"verif.local/v/oracle"
	"verif.local/v/vlab"
)

var c02corpus = []string{
	// IPv6 forms: all must be refused
	"::", "::1", "::/0", "::/128", "::1/120", "::1/128", "::1/127", "2001:db8::/126", "2001:db8::1", "2001:db8::/32", "fe80::1%eth0", "fe80::1%lo/64",
	"::ffff:10.0.0.1", "::ffff:10.0.0.1/128", "::ffff:10.0.0.0/120", "::ffff:a00:1", "0:0:0:0:0:ffff:a00:1", "::10.0.0.1", "64:ff9b::10.0.0.1", "[::1]", "[::1]/128",
	"1::", "1::/16", "ff02::1", "2001:db8:0:0:0:0:0:1/127", "::ffff:0:0/96", "::ffff:255.255.255.255", "0::0", "::0.0.0.0", "::/96", "::ffff:10.0.0.1/24",
	// IPv4 edge spellings
	"", " ", "/", "/24", "10", "10.0", "10.0.0", "10.0.0.0.0", "10.0.0.", ".10.0.0.1", "10..0.1", "256.0.0.1", "10.0.0.256", "10.0.0.-1", "-1.0.0.0",
	"010.0.0.1", "10.0.0.01", "0x0a.0.0.1", "0xa000001", "167772161", "10.0.0.1/33", "10.0.0.1/-1", "10.0.0.1/", "10.0.0.1/ 24", "10.0.0.1 /24", " 10.0.0.1", "10.0.0.1 ",
	"10.0.0.1\n", "10.0.0.1\x00", "10.0.0.1/24/24", "10.0.0.1/2 4", "10.0.0.1/024", "10.0.0.1/0x18", "10.0.0.1/255.255.255.0", "10.0.0.0-10.0.0.255", "10.0.0.*", "localhost", "example.com",
	"10.0.0.1,10.0.0.2", "10.0.0.1;", "１０.0.0.1", "10。0。0。1", "10.0.0.1/٢٤", "1e1.0.0.1", "+10.0.0.1", "10.0.0.1/+24", "10.0.0.1/24 ", "0.0.0.0", "0.0.0.0/0", "255.255.255.255", "255.255.255.255/32",
	"0.0.0.0/32", "1.2.3.4/31", "1.2.3.4/1", "192.168.0.1/24", "10.0.0.1", "172.16.5.4/12", "9.9.9.9/32", "127.0.0.1/8",
}

type c02str struct {
	S   string `json:"s"`
	Hex string `json:"hex"`
}

func c02mutate(rng *rand.Rand, s string) string {
	b := []byte(s)
	switch rng.Intn(9) {
	case 0:
		if len(b) > 0 {
			i := rng.Intn(len(b))
			b = append(b[:i], b[i+1:]...)
		}
	case 1:
		i := rng.Intn(len(b) + 1)
		ins := []string{":", "::", ".", "/", "0", "9", "25", "f", " ", "\t", "-", "%", "x", "\x00", "٣", "/12", "ffff:"}[rng.Intn(17)]
		b = append(b[:i], append([]byte(ins), b[i:]...)...)
	case 2:
		if len(b) > 0 {
			b[rng.Intn(len(b))] = "0123456789abcdef:./ %"[rng.Intn(21)]
		}
	case 3:
		return fmt.Sprintf("%d.%d.%d.%d/%d", rng.Intn(300), rng.Intn(300), rng.Intn(256), rng.Intn(256), rng.Intn(40))
	case 4:
		return fmt.Sprintf("%d.%d.%d.%d", rng.Intn(256), rng.Intn(256), rng.Intn(256), rng.Intn(256))
	case 5:
		return fmt.Sprintf("%x:%x::%x/%d", rng.Intn(65536), rng.Intn(65536), rng.Intn(65536), rng.Intn(130))
	case 6:
		return fmt.Sprintf("::ffff:%d.%d.%d.%d/%d", rng.Intn(256), rng.Intn(256), rng.Intn(256), rng.Intn(256), 96+rng.Intn(33))
	case 7:
		return fmt.Sprintf("%d.%d.%d.%d/%02d", rng.Intn(256), rng.Intn(256), rng.Intn(256), rng.Intn(256), rng.Intn(33))
	case 8:
		return fmt.Sprintf("%03d.%d.%d.%d", rng.Intn(256), rng.Intn(256), rng.Intn(256), rng.Intn(256))
	}
	return string(b)
}

// c02iterate really iterates an accepted network: never a crash, only IPv4 addresses of the reference set.
func c02iterate(run *vlab.Run, what, s string, n *net.IPNet, ref oracle.CIDR, cls oracle.TargetClass) {
	// After cancellation the generator goroutine keeps stepping through the rest of the range
	// (it only skips the channel sends), so abandoning a /0 iteration would burn minutes of CPU:
	// networks with more than 2^16 addresses are value-checked only, smaller ones are drained completely.
	if ones, bits := n.Mask.Size(); bits-ones > 16 {
		return
	}
	ctx, cancel := context.WithCancel(context.Background())
	defer cancel()
	ips, err := scan.NewIPGenerator().IPs(ctx, &scan.Range{DstSubnet: n})
	if err != nil {
		return
	}
	seen := 0
	for g := range ips {
		a, err := g.GetIP()
		if err != nil {
			break
		}
		a4 := a.To4()
		if a4 == nil || len(a) != 4 {
			run.Violation("accepted-target-yields-non-ipv4", fmt.Sprintf("%s(%q) accepted; iterating it yields %v", what, s, a), c02str{s, fmt.Sprintf("%x", s)})
			break
		}
		if cls == oracle.TargetValid {
			var b [4]byte
			copy(b[:], a4)
			if !ref.Contains(oracle.IPToU32(b)) {
				run.Violation("probe-outside-target", fmt.Sprintf("%s(%q) accepted; iterating it yields %v which is outside %s", what, s, a, ref), c02str{s, fmt.Sprintf("%x", s)})
				break
			}
		}
		seen++
	}
	run.Count("addresses_iterated", int64(seen))
}

func c02checkString(run *vlab.Run, s string) {
	ref, cls := oracle.RefTarget(s)
	w := c02str{s, fmt.Sprintf("%x", s)}
	run.Case("str", w)
	type parser struct {
		name string
		f    func(string) (*net.IPNet, error)
	}
	parsers := []parser{
		{"ip.ParseIPNet", ip.ParseIPNet},
		{"ipScanCmdOpts.parseDstSubnet", func(s string) (*net.IPNet, error) { return (&ipScanCmdOpts{}).parseDstSubnet([]string{s}) }},
		{"genericScanCmdOpts.parseDstSubnet", func(s string) (*net.IPNet, error) { return (&genericScanCmdOpts{}).parseDstSubnet([]string{s}) }},
		{"parseExcludeFile", func(s string) (*net.IPNet, error) {
			// an exclusion file with this single entry (strings with line structure are not single entries)
			if strings.ContainsAny(s, "\n#") || strings.Trim(s, " ") != s || s == "" {
				return ip.ParseIPNet(s)
			}
			c, err := parseExcludeFile(func() (io.ReadCloser, error) { return io.NopCloser(strings.NewReader(s + "\n")), nil })
			if err != nil {
				return nil, err
			}
			// recover the network by membership probing of the reference value
			if cls == oracle.TargetValid {
				in, _ := c.Contains(net.IP(append([]byte(nil), byte(ref.Base>>24), byte(ref.Base>>16), byte(ref.Base>>8), byte(ref.Base))))
				if !in {
					return nil, fmt.Errorf("accepted but base address not contained")
				}
			}
			return nil, nil
		}},
	}
	for _, p := range parsers {
		n, err := p.f(s)
		run.Eval(1)
		accepted := err == nil
		switch {
		case accepted && cls == oracle.TargetInvalid:
			key := "non-ipv4-target-accepted"
			if strings.Contains(s, ":") {
				key = "ipv6-target-accepted"
			}
			run.Violation(key, fmt.Sprintf("%s accepted %q (value %v); it is not an IPv4 address or IPv4 CIDR block", p.name, s, n), w)
		case !accepted && cls == oracle.TargetValid:
			if p.name == "parseExcludeFile" && err.Error() == "accepted but base address not contained" {
				run.Violation("exclusion-value-wrong", fmt.Sprintf("exclusion entry %q accepted but does not cover %s", s, ref), w)
			} else {
				run.Violation("valid-target-rejected", fmt.Sprintf("%s rejected the valid IPv4 target %q: %v", p.name, s, err), w)
			}
		}
		if accepted && n != nil {
			if cls == oracle.TargetValid {
				ones, bits := n.Mask.Size()
				ip4 := n.IP
				if len(ip4) != 4 || bits != 32 || ones != ref.Bits || oracle.IPToU32([4]byte{ip4[0], ip4[1], ip4[2], ip4[3]})&ref.Mask() != ref.Base {
					run.Violation("target-reinterpreted", fmt.Sprintf("%s(%q) = %v (ip %d bytes, mask /%d of %d); reference value %s", p.name, s, n, len(n.IP), ones, bits, ref), w)
				}
			}
			if p.name == "ip.ParseIPNet" {
				c02iterate(run, p.name, s, n, ref, cls)
			}
		}
	}
	switch cls {
	case oracle.TargetValid:
		run.Count("strings_valid", 1)
	case oracle.TargetInvalid:
		run.Count("strings_invalid", 1)
		if strings.Contains(s, ":") {
			run.Count("strings_ipv6_form", 1)
		}
	default:
		run.Count("strings_dontcare", 1)
	}
	if len(s) > 2 {
		run.Distinct(s)
	}
}

func TestVerifC02Strings(t *testing.T) {
	run := vlab.Begin(t, "C02", "strings")
	defer run.End()
	rng := run.Rand("strings")
	var list []string
	list = append(list, c02corpus...)
	n := run.Pick(20000, 200000)
	for len(list) < n {
		s := c02corpus[rng.Intn(len(c02corpus))]
		for k := rng.Intn(3); k >= 0; k-- {
			s = c02mutate(rng, s)
		}
		list = append(list, s)
	}
	for i, s := range list {
		if !run.Mine(i) {
			continue
		}
		c02checkString(run, s)
		if run.WantSample() && strings.Contains(s, ":") && i > len(c02corpus) {
			_, cls := oracle.RefTarget(s)
			run.Sample(map[string]interface{}{"target_string": s, "reference_class": []string{"invalid", "valid", "dontcare"}[cls]})
		}
	}
}

// ---------------------------------------------------------------------------

type c02excase struct {
	Scan     string `json:"scan"`
	Layer    string `json:"layer"`
	Subnet   string `json:"subnet"`
	Ports    string `json:"ports,omitempty"`
	Exclude  string `json:"exclude_file"`
	RandSeed int64  `json:"rand_seed"`
}

func c02randExcludeFile(rng *rand.Rand, c oracle.CIDR) string {
	var b strings.Builder
	n := 1 + rng.Intn(12)
	for i := 0; i < n; i++ {
		a := c.Base + uint32(rng.Int63n(int64(c.Size())))
		if rng.Intn(8) == 0 {
			a = rng.Uint32()
		}
		switch rng.Intn(9) {
		case 0:
			fmt.Fprintf(&b, "%s\n", oracle.IPString(oracle.U32ToIP(a)))
		case 1:
			fmt.Fprintf(&b, "%s/32\n", oracle.IPString(oracle.U32ToIP(a)))
		case 2: // unmasked base with host bits
			fmt.Fprintf(&b, "%s/%d # host bits set\n", oracle.IPString(oracle.U32ToIP(a)), 20+rng.Intn(12))
		case 3: // narrow then wide, same base (nested)
			bits := 26 + rng.Intn(6)
			base := a & (^uint32(0) << uint(32-bits+8))
			fmt.Fprintf(&b, "%s/%d\n%s/%d\n", oracle.IPString(oracle.U32ToIP(base)), bits, oracle.IPString(oracle.U32ToIP(base)), bits-8+rng.Intn(8))
		case 4: // wide then narrow
			bits := 18 + rng.Intn(8)
			fmt.Fprintf(&b, "%s/%d\n%s/%d\n", oracle.IPString(oracle.U32ToIP(a)), bits, oracle.IPString(oracle.U32ToIP(a)), bits+4)
		case 5:
			fmt.Fprintf(&b, "   %s/%d   \n\n", oracle.IPString(oracle.U32ToIP(a)), 24+rng.Intn(9))
		case 6:
			fmt.Fprintf(&b, "# %s/8 commented out\n", oracle.IPString(oracle.U32ToIP(a)))
		case 7: // adjacent pair
			fmt.Fprintf(&b, "%s/31\n%s/31\n", oracle.IPString(oracle.U32ToIP(a&^1)), oracle.IPString(oracle.U32ToIP((a&^1)+2)))
		case 8:
			if rng.Intn(6) == 0 {
				fmt.Fprintf(&b, "0.0.0.0/0\n")
			} else {
				fmt.Fprintf(&b, "%s/%d\n", oracle.IPString(oracle.U32ToIP(a)), 1+rng.Intn(31))
			}
		}
	}
	return b.String()
}

// c02judge compares what was probed with specification minus exclusions.
func c02judge(run *vlab.Run, exp map[uint64]int32, obs *scanObs, ex []oracle.CIDR, c interface{}) {
	missing, extra, repeated := oracle.DiffMultiset(exp, obs.got, 3)
	for _, k := range extra {
		a := uint32(k >> 16)
		if oracle.Excluded(a, ex) {
			run.Violation("excluded-address-probed", fmt.Sprintf("%s is covered by the exclusion list but was probed: %+v", oracle.KeyString(k), c), c)
		} else {
			run.Violation("probe-outside-target", fmt.Sprintf("%s is not in the target set but was probed: %+v", oracle.KeyString(k), c), c)
		}
	}
	for _, k := range missing {
		run.Violation("exclusion-over-reach", fmt.Sprintf("%s is in the target set and not covered by any exclusion entry, but was never probed: %+v", oracle.KeyString(k), c), c)
	}
	for _, k := range repeated {
		run.Violation("target-repeated", fmt.Sprintf("%s probed x%d: %+v", oracle.KeyString(k), obs.got[k], c), c)
	}
}

// c02fileModes: the same confinement oracle with the targets given as files (ip/port pairs,
// addresses x ports from a regular file and from stdin) instead of a subnet.
func c02fileModes(run *vlab.Run, dir string, first int) {
	rng := run.Rand("exclude-files")
	scans := []string{"icmp", "udp", "tcpsyn", "tcpflags", "generic", "generic"}
	n := run.Pick(1200, 12000)
	for i := 0; i < n; i++ {
		c := &c01case{Scan: scans[rng.Intn(len(scans))], Layer: "engine", RandSeed: rng.Int63(), Workers: 3}
		portless := c.Scan == "icmp"
		if !portless && rng.Intn(3) == 0 {
			c.Layer = "gen"
		}
		switch {
		case portless:
			c.Mode = "addrfile"
		default:
			c.Mode = []string{"ipportfile", "addrfile", "addrfile-stdin"}[rng.Intn(3)]
		}
		pool, _ := oracle.RefTarget(c01randSubnet(rng, 22+rng.Intn(7)))
		na := 1 + rng.Intn(60)
		for j := 0; j < na; j++ {
			a := pool.Base + uint32(rng.Int63n(int64(pool.Size())))
			if rng.Intn(10) == 0 {
				a = rng.Uint32()
			}
			if c.Mode == "ipportfile" {
				c.AddrPorts = append(c.AddrPorts, oracle.Key(a, uint16(1+rng.Intn(65535))))
			} else {
				c.Addrs = append(c.Addrs, a)
			}
		}
		if c.Mode != "ipportfile" && !portless {
			c.Ports = []string{"80", "22,443", "1000-1003", "53,53"}[rng.Intn(4)]
		}
		c.NFile = na
		c.Exclude = c02randExcludeFile(rng, pool)
		if !run.Mine(first + i) {
			continue
		}
		run.Case(fmt.Sprintf("exf%05d", i), map[string]interface{}{"case": c, "file": truncStr(c01fileContent(c), 1500)})
		ex, cls := oracle.RefExcludeFile(c.Exclude)
		exp, ok := c01expected(c)
		if cls != oracle.TargetValid || !ok {
			continue
		}
		ctx, cancel := context.WithCancel(context.Background())
		rand.Seed(c.RandSeed)
		b, err := buildScan(ctx, dir, &scanSpec{Scan: c.Scan, Layer: c.Layer, Ports: c.Ports, Exclude: c.Exclude, RandSeed: c.RandSeed, Workers: 3,
			HasFile: true, FileContent: c01fileContent(c), Stdin: c.Mode == "addrfile-stdin"})
		if err != nil {
			cancel()
			run.Violation("valid-exclusion-file-rejected", fmt.Sprintf("%v: %+v", err, c), c)
			continue
		}
		obs := runScan(run, ctx, b, 120*time.Second)
		cancel()
		run.Eval(1)
		if obs.parked || obs.timeout {
			run.Inconclusive("scan did not finish")
			continue
		}
		c02judge(run, exp, obs, ex, c)
		nex := 0
		for _, a := range c.Addrs {
			if oracle.Excluded(a, ex) {
				nex++
			}
		}
		for _, k := range c.AddrPorts {
			if oracle.Excluded(uint32(k>>16), ex) {
				nex++
			}
		}
		run.Count("probes_observed", int64(len(obs.probes)))
		run.Count("file_targets_excluded", int64(nex))
		run.Count("file_pairs_checked", 1)
		run.Count("file_mode:"+c.Scan+":"+c.Mode, 1)
		run.Distinct(fmt.Sprintf("%+v/%v/%v", *c, c.Addrs, c.AddrPorts))
	}
}

func TestVerifC02Exclude(t *testing.T) {
	run := vlab.Begin(t, "C02", "exclude")
	defer run.End()
	dir := t.TempDir()
	rng := run.Rand("exclude")
	scans := []string{"arp", "icmp", "udp", "tcpsyn", "tcpflags", "generic"}
	n := run.Pick(2000, 20000)
	defer c02fileModes(run, dir, n)
	for i := 0; i < n; i++ {
		c := &c02excase{Scan: scans[rng.Intn(len(scans))], Layer: "engine", RandSeed: rng.Int63()}
		portless := c.Scan == "arp" || c.Scan == "icmp"
		if !portless && rng.Intn(2) == 0 {
			c.Layer = "gen"
		}
		c.Subnet = c01randSubnet(rng, 21+rng.Intn(8))
		if !portless {
			c.Ports = []string{"80", "22,443", "1000-1003", "53,53"}[rng.Intn(4)]
		}
		cidr, _ := oracle.RefTarget(c.Subnet)
		c.Exclude = c02randExcludeFile(rng, cidr)
		if !run.Mine(i) {
			continue
		}
		run.Case(fmt.Sprintf("ex%05d", i), c)
		ex, cls := oracle.RefExcludeFile(c.Exclude)
		if cls != oracle.TargetValid {
			continue
		}
		exp := map[uint64]int32{}
		var ports []oracle.PortRange
		if !portless {
			ports, _ = oracle.RefPortList(c.Ports)
		}
		oracle.ExpectSubnetPorts(exp, cidr, ports, ex)
		ctx, cancel := context.WithCancel(context.Background())
		rand.Seed(c.RandSeed)
		b, err := buildScan(ctx, dir, &scanSpec{Scan: c.Scan, Layer: c.Layer, Subnet: c.Subnet, Ports: c.Ports, Exclude: c.Exclude, RandSeed: c.RandSeed, Workers: 3})
		if err != nil {
			cancel()
			run.Violation("valid-exclusion-file-rejected", fmt.Sprintf("%v: %+v", err, c), c)
			continue
		}
		obs := runScan(run, ctx, b, 120*time.Second)
		cancel()
		run.Eval(1)
		if obs.parked || obs.timeout {
			run.Inconclusive("scan did not finish")
			continue
		}
		c02judge(run, exp, obs, ex, c)
		run.Count("probes_observed", int64(len(obs.probes)))
		total := int64(cidr.Size())
		if !portless {
			for _, r := range ports {
				total += int64(cidr.Size()) * int64(r.End-r.Start)
			}
		}
		run.Count("targets_excluded", total-int64(len(exp)))
		run.Count("pairs_checked", 1)
		run.Distinct(fmt.Sprintf("%+v", *c))
		if run.WantSample() && len(exp) > 20 && int64(len(exp)) < total {
			run.Sample(map[string]interface{}{"case": c, "targets_after_exclusion": len(exp)})
		}
	}
}
