//go:build verif

package command

// C05 — probe frames carry exactly the requested fields and are well formed.
//
// The four real fillers are driven directly (all 512 TCP flag sets, TTL/IP-flag/type/code
// grids, payloads of every length parity, both link modes) and through the CLI layer
// (cobra flag parsing -> parseRawOptions -> get*Options / tcpPacketFlagOptions -> filler);
// several goroutines share one filler as NewPacketMultiGenerator does. Every frame is decoded
// by the independent decoder in /verif/oracle.

import (
	"bytes"
	"fmt"
	"math/rand"
	"net"
	"strings"
	"sync"
	"testing"

	"github.com/v-byte-cpu/sx/pkg/packet"
	"github.com/v-byte-cpu/sx/pkg/scan"
	"github.com/v-byte-cpu/sx/pkg/scan/arp"
	"github.com/v-byte-cpu/sx/pkg/scan/icmp"
	"github.com/v-byte-cpu/sx/pkg/scan/tcp"
	"github.com/v-byte-cpu/sx/pkg/scan/udp"
	"verif.local/v/oracle"
	"verif.local/v/vlab"
)

type c05want struct {
	Kind     string `json:"kind"` // tcp udp icmp arp
	VPN      bool   `json:"vpn"`
	Flags    uint16 `json:"tcp_flags"`
	TTL      uint8  `json:"ttl"`
	IPFlags  uint8  `json:"ip_flags"`
	Proto    uint8  `json:"ip_proto"`
	IPLen    uint16 `json:"ip_total_len_override"`
	Type     uint8  `json:"icmp_type"`
	Code     uint8  `json:"icmp_code"`
	Payload  []byte `json:"-"`
	PayLen   int    `json:"payload_len"`
	AnyPayload bool `json:"payload_random_default"` // icmp default: 48 random bytes
	Via      string `json:"via"`
}

type c05req struct {
	SrcIP, DstIP   [4]byte
	SrcMAC, DstMAC [6]byte
	Port           uint16
	Dst16          bool // destination given in 16-byte form
}

var c05tcpOpts = []struct {
	bit uint16
	opt func() tcp.PacketFillerOption
	cli string
}{
	{oracle.FlagSYN, tcp.WithSYN, "syn"}, {oracle.FlagACK, tcp.WithACK, "ack"}, {oracle.FlagFIN, tcp.WithFIN, "fin"},
	{oracle.FlagRST, tcp.WithRST, "rst"}, {oracle.FlagPSH, tcp.WithPSH, "psh"}, {oracle.FlagURG, tcp.WithURG, "urg"},
	{oracle.FlagECE, tcp.WithECE, "ece"}, {oracle.FlagCWR, tcp.WithCWR, "cwr"}, {oracle.FlagNS, tcp.WithNS, "ns"},
}

func c05request(r c05req) *scan.Request {
	dst := net.IP(append([]byte(nil), r.DstIP[:]...))
	if r.Dst16 {
		dst = net.IPv4(r.DstIP[0], r.DstIP[1], r.DstIP[2], r.DstIP[3])
	}
	return &scan.Request{SrcIP: net.IP(append([]byte(nil), r.SrcIP[:]...)), DstIP: dst,
		SrcMAC: append([]byte(nil), r.SrcMAC[:]...), DstMAC: append([]byte(nil), r.DstMAC[:]...), DstPort: r.Port}
}

func c05randReq(rng *rand.Rand) c05req {
	var r c05req
	edge := [][4]byte{{0, 0, 0, 0}, {255, 255, 255, 255}, {127, 0, 0, 1}, {10, 0, 0, 1}, {224, 0, 0, 1}, {1, 2, 3, 4}}
	pick := func() [4]byte {
		if rng.Intn(4) == 0 {
			return edge[rng.Intn(len(edge))]
		}
		return oracle.U32ToIP(rng.Uint32())
	}
	r.SrcIP, r.DstIP = pick(), pick()
	rng.Read(r.SrcMAC[:])
	rng.Read(r.DstMAC[:])
	if rng.Intn(8) == 0 {
		r.DstMAC = [6]byte{0xff, 0xff, 0xff, 0xff, 0xff, 0xff}
	}
	if rng.Intn(8) == 0 {
		r.SrcMAC = [6]byte{}
	}
	ports := []uint16{0, 1, 79, 80, 32767, 32768, 65535}
	if rng.Intn(2) == 0 {
		r.Port = ports[rng.Intn(len(ports))]
	} else {
		r.Port = uint16(rng.Intn(65536))
	}
	r.Dst16 = rng.Intn(3) == 0
	return r
}

// c05check decodes one frame and compares it with what was requested.
func c05check(run *vlab.Run, frame []byte, w *c05want, r c05req, st *c05stats) {
	link := oracle.LinkEthernet
	if w.VPN {
		link = oracle.LinkRawIP
	}
	witness := map[string]interface{}{"want": w, "request": fmt.Sprintf("%+v", r), "frame": fmt.Sprintf("%x", truncate(frame, 200)), "payload": fmt.Sprintf("%x", truncate(w.Payload, 64))}
	bad := func(key, format string, a ...interface{}) {
		run.Violation(w.Kind+":"+key, fmt.Sprintf("[%s/%s vpn=%v] ", w.Kind, w.Via, w.VPN)+fmt.Sprintf(format, a...), witness)
	}
	d := oracle.Decode(frame, link)
	if w.Kind == "arp" {
		if d.Eth == nil || d.ARP == nil || d.ARP.SHA == nil {
			bad("not-arp", "frame does not decode as Ethernet/ARP: %v", d.Problems)
			return
		}
		if d.Eth.Dst != [6]byte{0xff, 0xff, 0xff, 0xff, 0xff, 0xff} || d.Eth.Src != r.SrcMAC {
			bad("eth", "Ethernet header dst=%s src=%s, want broadcast / %s", oracle.MACString(d.Eth.Dst[:]), oracle.MACString(d.Eth.Src[:]), oracle.MACString(r.SrcMAC[:]))
		}
		a := d.ARP
		if a.HType != 1 || a.PType != oracle.EtherTypeIPv4 || a.HLen != 6 || a.PLen != 4 || a.Op != 1 {
			bad("arp-fixed", "ARP fixed header %d/%#x/%d/%d op %d", a.HType, a.PType, a.HLen, a.PLen, a.Op)
		}
		if !bytes.Equal(a.SHA, r.SrcMAC[:]) || !bytes.Equal(a.SPA, r.SrcIP[:]) || !bytes.Equal(a.TPA, r.DstIP[:]) || !bytes.Equal(a.THA, make([]byte, 6)) {
			bad("arp-addr", "ARP addresses sha=%x spa=%x tha=%x tpa=%x; want sha=%x spa=%x tha=0 tpa=%x", a.SHA, a.SPA, a.THA, a.TPA, r.SrcMAC, r.SrcIP, r.DstIP)
		}
		// Ethernet frames shorter than the 60-byte minimum may be zero-padded
		if !(len(frame) == 14+28 || (len(frame) == 60 && bytes.Equal(frame[42:], make([]byte, 18)))) {
			bad("length", "ARP frame is %d bytes, want 42 (or zero-padded to 60)", len(frame))
		}
		return
	}
	if !w.VPN {
		if d.Eth == nil {
			bad("no-eth", "no Ethernet header: %v", d.Problems)
			return
		}
		if d.Eth.Dst != r.DstMAC || d.Eth.Src != r.SrcMAC || d.Eth.Type != oracle.EtherTypeIPv4 {
			bad("eth", "Ethernet header dst=%s src=%s type=%#x; want %s / %s / 0x0800", oracle.MACString(d.Eth.Dst[:]), oracle.MACString(d.Eth.Src[:]), d.Eth.Type, oracle.MACString(r.DstMAC[:]), oracle.MACString(r.SrcMAC[:]))
		}
	}
	ip := d.IP
	if ip == nil {
		bad("no-ip", "no IPv4 header (in VPN mode the frame must start with it): %v", d.Problems)
		return
	}
	ipBytes := frame
	if !w.VPN {
		ipBytes = frame[14:]
	}
	if ip.Version != 4 || ip.IHL != 5 {
		bad("ip-vhl", "version %d IHL %d", ip.Version, ip.IHL)
		return
	}
	if ip.Src != r.SrcIP || ip.Dst != r.DstIP {
		bad("ip-addr", "IP src=%s dst=%s; want %s -> %s", oracle.IPString(ip.Src), oracle.IPString(ip.Dst), oracle.IPString(r.SrcIP), oracle.IPString(r.DstIP))
	}
	if ip.TTL != w.TTL {
		bad("ttl", "TTL %d, want %d", ip.TTL, w.TTL)
	}
	if ip.Flags != w.IPFlags || ip.FragOff != 0 {
		bad("ip-flags", "IP flags %03b offset %d, want %03b / 0", ip.Flags, ip.FragOff, w.IPFlags)
	}
	if ip.Proto != w.Proto {
		bad("ip-proto", "IP protocol %d, want %d", ip.Proto, w.Proto)
	}
	if ip.ID == 0 {
		bad("ip-id-zero", "IP id is 0 (advertised range is non-zero)")
	}
	st.id(ip.ID)
	if !ip.ChecksumOK {
		bad("ip-checksum", "IPv4 header checksum %#04x is wrong", ip.Checksum)
	}
	if w.IPLen != 0 {
		if ip.TotalLen != w.IPLen {
			bad("ip-len-override", "total length %d, requested override %d must appear verbatim", ip.TotalLen, w.IPLen)
		}
	} else if int(ip.TotalLen) != len(ipBytes) {
		// Ethernet minimum-size padding: frame exactly 60 bytes, zero bytes after the datagram
		tl := int(ip.TotalLen)
		if !w.VPN && len(frame) == 60 && tl >= 20 && tl < len(ipBytes) && bytes.Equal(ipBytes[tl:], make([]byte, len(ipBytes)-tl)) {
			ipBytes = ipBytes[:tl]
		} else {
			bad("ip-len", "total length field %d but the datagram has %d bytes", ip.TotalLen, len(ipBytes))
		}
	}
	overridden := w.IPLen != 0
	tp := ipBytes[20:]
	switch w.Kind {
	case "tcp":
		if len(tp) < 20 {
			bad("tcp-short", "TCP header truncated")
			return
		}
		// decode directly (protocol field may not be 6 only if a mutation changed it; reported above)
		t := oracle.Decode(oracle.BuildIPv4(oracle.NewIPSpec(ip.Src, ip.Dst, oracle.ProtoTCP), tp), oracle.LinkRawIP).TCP
		if t == nil {
			bad("tcp-undecodable", "TCP header does not decode")
			return
		}
		if t.DstPort != r.Port {
			bad("tcp-dport", "destination port %d, want %d", t.DstPort, r.Port)
		}
		if t.SrcPort < 32768 || t.SrcPort > 60999 {
			bad("sport-range", "source port %d outside 32768..60999", t.SrcPort)
		}
		st.sport(t.SrcPort)
		if t.Flags != w.Flags {
			bad("tcp-flags", "flags %s (%09b), want %s (%09b)", oracle.FlagString(t.Flags), t.Flags, oracle.FlagString(w.Flags), w.Flags)
		}
		if int(t.DataOff)*4 != 20+len(t.Options) || int(t.DataOff)*4 > len(tp) {
			bad("tcp-dataoff", "data offset %d inconsistent with %d option bytes / %d segment bytes", t.DataOff, len(t.Options), len(tp))
		}
		if msg := c05tcpOptions(t.Options); msg != "" {
			bad("tcp-options", "%s (options %x)", msg, t.Options)
		}
		if len(t.Payload) != 0 {
			bad("tcp-payload", "%d bytes of payload that nobody requested", len(t.Payload))
		}
		if !t.ChecksumOK {
			bad("tcp-checksum", "TCP checksum %#04x wrong (pseudo-header %s -> %s, %d bytes)", t.Checksum, oracle.IPString(ip.Src), oracle.IPString(ip.Dst), len(tp))
		}
	case "udp":
		if len(tp) < 8 {
			bad("udp-short", "UDP header truncated")
			return
		}
		u := oracle.Decode(oracle.BuildIPv4(oracle.NewIPSpec(ip.Src, ip.Dst, oracle.ProtoUDP), tp), oracle.LinkRawIP).UDP
		if u.DstPort != r.Port {
			bad("udp-dport", "destination port %d, want %d", u.DstPort, r.Port)
		}
		if u.SrcPort < 32768 || u.SrcPort > 60999 {
			bad("sport-range", "source port %d outside 32768..60999", u.SrcPort)
		}
		st.sport(u.SrcPort)
		if !bytes.Equal(u.Payload, w.Payload) && !(overridden && bytes.HasPrefix(u.Payload, w.Payload)) {
			bad("udp-payload", "payload differs: %d bytes on the wire, %d requested", len(u.Payload), len(w.Payload))
		}
		if !overridden {
			if int(u.Length) != len(tp) {
				bad("udp-len", "UDP length field %d, datagram payload %d", u.Length, len(tp))
			}
			if u.Checksum == 0xffff && u.ChecksumOK {
				run.Count("udp_checksums_that_computed_to_zero", 1)
			}
			if !u.ChecksumOK || u.Checksum == 0 {
				bad("udp-checksum", "UDP checksum %#04x wrong or absent", u.Checksum)
			}
		}
	case "icmp":
		if len(tp) < 8 {
			bad("icmp-short", "ICMP header truncated")
			return
		}
		c := oracle.Decode(oracle.BuildIPv4(oracle.NewIPSpec(ip.Src, ip.Dst, oracle.ProtoICMP), tp), oracle.LinkRawIP).ICMP
		if c.Type != w.Type || c.Code != w.Code {
			bad("icmp-typecode", "type/code %d/%d, want %d/%d", c.Type, c.Code, w.Type, w.Code)
		}
		if w.AnyPayload {
			if len(c.Payload) != 48 && !overridden {
				bad("icmp-default-payload", "default payload is %d bytes, documented 48", len(c.Payload))
			}
		} else if !bytes.Equal(c.Payload, w.Payload) && !(overridden && bytes.HasPrefix(c.Payload, w.Payload)) {
			bad("icmp-payload", "payload differs: %d bytes on the wire, %d requested", len(c.Payload), len(w.Payload))
		}
		if !c.ChecksumOK && !overridden {
			bad("icmp-checksum", "ICMP checksum %#04x wrong", c.Checksum)
		}
	}
}

// c05tcpOptions: MSS 1460, SACK permitted, window scale 7, padded with NOP/EOL only.
func c05tcpOptions(o []byte) string {
	// well-formedness only: which options a SYN carries (today MSS 1460, SACK-permitted, WS 7) is not
	// part of the statement
	for i := 0; i < len(o); {
		switch o[i] {
		case 0: // EOL: rest must be zero padding
			for _, b := range o[i:] {
				if b != 0 {
					return "bytes after end-of-options"
				}
			}
			i = len(o)
		case 1:
			i++
		default:
			if i+1 >= len(o) || int(o[i+1]) < 2 || i+int(o[i+1]) > len(o) {
				return "malformed option length"
			}
			i += int(o[i+1])
		}
	}
	if len(o)%4 != 0 {
		return "options not padded to 32 bits"
	}
	return ""
}

type c05stats struct {
	mu               sync.Mutex
	minSp, maxSp     uint16
	minID, maxID     uint16
	nSp, nID, frames int64
}

func (s *c05stats) sport(p uint16) {
	s.mu.Lock()
	if s.nSp == 0 || p < s.minSp {
		s.minSp = p
	}
	if p > s.maxSp {
		s.maxSp = p
	}
	s.nSp++
	s.mu.Unlock()
}
func (s *c05stats) id(p uint16) {
	s.mu.Lock()
	if s.nID == 0 || p < s.minID {
		s.minID = p
	}
	if p > s.maxID {
		s.maxID = p
	}
	s.nID++
	s.mu.Unlock()
}

// c05fill runs Fill exactly as the packet generator does (pooled buffer) and checks the frame.
func c05fill(run *vlab.Run, f scan.PacketFiller, w *c05want, r c05req, st *c05stats) {
	buf := packet.NewSerializeBuffer()
	err := f.Fill(buf, c05request(r))
	run.Eval(1)
	if err != nil {
		run.Violation(w.Kind+":fill-error", fmt.Sprintf("[%s/%s] Fill failed for a legal request: %v (%+v)", w.Kind, w.Via, err, r), map[string]interface{}{"want": w})
		return
	}
	frame := append([]byte(nil), buf.Bytes()...)
	_ = packet.FreeSerializeBuffer(buf)
	c05check(run, frame, w, r, st)
	st.mu.Lock()
	st.frames++
	st.mu.Unlock()
}

func c05payload(rng *rand.Rand, n int) []byte {
	p := make([]byte, n)
	rng.Read(p)
	return p
}

func TestVerifC05Fillers(t *testing.T) {
	run := vlab.Begin(t, "C05", "fillers")
	defer run.End()
	st := &c05stats{}
	rng := run.Rand("fillers")
	type job struct {
		f scan.PacketFiller
		w *c05want
		n int
	}
	var jobs []job
	perTCP := run.Pick(6, 200)
	// ---- TCP: all 512 flag sets x both link modes (exhaustive)
	for flags := 0; flags < 512; flags++ {
		for _, vpn := range []bool{false, true} {
			var opts []tcp.PacketFillerOption
			for _, o := range c05tcpOpts {
				if uint16(flags)&o.bit != 0 {
					opts = append(opts, o.opt())
				}
			}
			opts = append(opts, tcp.WithFillerVPNmode(vpn))
			jobs = append(jobs, job{tcp.NewPacketFiller(opts...), &c05want{Kind: "tcp", VPN: vpn, Flags: uint16(flags), TTL: 64, IPFlags: 2, Proto: 6, Via: "options"}, perTCP})
		}
	}
	// ---- UDP / ICMP: option grids
	nGrid := run.Pick(1500, 40000)
	for i := 0; i < nGrid; i++ {
		vpn := rng.Intn(3) == 0
		w := &c05want{VPN: vpn, TTL: uint8(rng.Intn(256)), IPFlags: uint8(rng.Intn(8)), Via: "options"}
		if i < 256 {
			w.TTL = uint8(i)
		}
		plen := rng.Intn(1473)
		switch rng.Intn(5) {
		case 0:
			plen = 0
		case 1:
			plen = 1 + rng.Intn(3)
		case 2:
			plen = []int{1471, 1472, 47, 48, 49}[rng.Intn(5)]
		}
		w.Payload, w.PayLen = c05payload(rng, plen), plen
		if rng.Intn(10) == 0 {
			w.IPLen = uint16(1 + rng.Intn(65535))
		}
		if i%2 == 0 {
			w.Kind, w.Proto = "udp", 17
			if rng.Intn(10) == 0 {
				w.Proto = uint8(rng.Intn(256))
			}
			opts := []udp.PacketFillerOption{udp.WithTTL(w.TTL), udp.WithIPFlags(w.IPFlags), udp.WithIPProtocol(w.Proto), udp.WithIPTotalLength(w.IPLen), udp.WithVPNmode(vpn)}
			if plen > 0 {
				opts = append(opts, udp.WithPayload(w.Payload))
			}
			if w.Proto != 17 {
				w.IPLen = 1 // treat a protocol override like a length override: other consistency is don't-care
				opts = append(opts, udp.WithIPTotalLength(1))
			}
			jobs = append(jobs, job{udp.NewPacketFiller(opts...), w, 3})
		} else {
			w.Kind, w.Proto = "icmp", 1
			w.Type, w.Code = uint8(rng.Intn(256)), uint8(rng.Intn(256))
			if i < 600 {
				w.Type, w.Code = uint8(i%256), uint8([]int{0, 1, 255}[i%3])
			}
			if rng.Intn(10) == 0 {
				w.Proto = uint8(rng.Intn(256))
			}
			opts := []icmp.PacketFillerOption{icmp.WithTTL(w.TTL), icmp.WithIPFlags(w.IPFlags), icmp.WithIPProtocol(w.Proto), icmp.WithIPTotalLength(w.IPLen), icmp.WithType(w.Type), icmp.WithCode(w.Code), icmp.WithVPNmode(vpn)}
			if plen > 0 {
				opts = append(opts, icmp.WithPayload(w.Payload))
			} else {
				w.AnyPayload = true
			}
			jobs = append(jobs, job{icmp.NewPacketFiller(opts...), w, 3})
		}
	}
	// defaults
	jobs = append(jobs, job{udp.NewPacketFiller(), &c05want{Kind: "udp", TTL: 64, IPFlags: 2, Proto: 17, Via: "defaults"}, 50})
	jobs = append(jobs, job{icmp.NewPacketFiller(), &c05want{Kind: "icmp", TTL: 64, IPFlags: 2, Proto: 1, Type: 8, AnyPayload: true, Via: "defaults"}, 50})
	jobs = append(jobs, job{arp.NewPacketFiller(), &c05want{Kind: "arp", Via: "defaults"}, run.Pick(300, 5000)})
	// volume: a computed UDP checksum of zero (one frame in 65536) must go out as ffff, never as 0000 = "no checksum"
	for k := 0; k < 32; k++ {
		pl := []byte{byte(rng.Intn(256)), byte(rng.Intn(256))}
		jobs = append(jobs, job{udp.NewPacketFiller(udp.WithPayload(pl)), &c05want{Kind: "udp", TTL: 64, IPFlags: 2, Proto: 17, Payload: pl, PayLen: 2, Via: "volume"}, run.Pick(12000, 100000)})
	}

	// volume: the edges of the spoofed ranges are hit once in tens of thousands of frames (source port 32768..60999:
	// one value in 28232; IP id 0: one in 65536)
	for k := 0; k < 16; k++ {
		jobs = append(jobs, job{tcp.NewPacketFiller(tcp.WithSYN(), tcp.WithFillerVPNmode(k%2 == 1)), &c05want{Kind: "tcp", VPN: k%2 == 1, Flags: 2, TTL: 64, IPFlags: 2, Proto: 6, Via: "volume"}, run.Pick(25000, 150000)})
	}

	for i, j := range jobs {
		if !run.Mine(i) {
			continue
		}
		run.Case(fmt.Sprintf("filler%05d", i), j.w)
		// several goroutines share one filler, as NewPacketMultiGenerator(filler, NumCPU) does
		var wg sync.WaitGroup
		workers := 1 + i%4
		for g := 0; g < workers; g++ {
			wg.Add(1)
			grng := rand.New(rand.NewSource(int64(i*131 + g)))
			go func() {
				defer wg.Done()
				for k := 0; k < j.n; k++ {
					c05fill(run, j.f, j.w, c05randReq(grng), st)
				}
			}()
		}
		wg.Wait()
		run.Distinct(fmt.Sprintf("%+v/%x", *j.w, vlab.Hash64(j.w.Payload)))
		if run.WantSample() && j.w.Kind == "udp" && j.w.PayLen%2 == 1 {
			run.Sample(j.w)
		}
	}
	run.Count("frames_checked", st.frames)
	run.Count("tcp_flag_sets_x_link_modes", int64(1024/run.NBatch()))
	if st.nSp > 0 {
		run.Note("source ports observed in [%d, %d] over %d frames; IP ids in [%d, %d]", st.minSp, st.maxSp, st.nSp, st.minID, st.maxID)
	}
}

// ---------------------------------------------------------------------------
// CLI layer

func TestVerifC05CLI(t *testing.T) {
	run := vlab.Begin(t, "C05", "cli")
	defer run.End()
	st := &c05stats{}
	rng := run.Rand("cli")
	idx := 0
	// ---- --flags: every subset, shuffled order, random letter case
	for flags := 0; flags < 512; flags++ {
		idx++
		if !run.Mine(idx) {
			continue
		}
		var names []string
		for _, o := range c05tcpOpts {
			if uint16(flags)&o.bit != 0 {
				n := o.cli
				if rng.Intn(2) == 0 {
					n = strings.ToUpper(n)
				}
				names = append(names, n)
			}
		}
		rng.Shuffle(len(names), func(a, b int) { names[a], names[b] = names[b], names[a] })
		arg := strings.Join(names, ",")
		run.Case("flags "+arg, arg)
		parsed, err := parseTCPFlags(arg)
		if err != nil {
			run.Violation("cli:flags-rejected", fmt.Sprintf("--flags %q rejected: %v", arg, err), arg)
			continue
		}
		var opts []tcp.PacketFillerOption
		for _, f := range parsed {
			opts = append(opts, tcpPacketFlagOptions[f])
		}
		w := &c05want{Kind: "tcp", Flags: uint16(flags), TTL: 64, IPFlags: 2, Proto: 6, Via: "--flags " + arg}
		f := tcp.NewPacketFiller(opts...)
		for k := 0; k < 2; k++ {
			c05fill(run, f, w, c05randReq(rng), st)
		}
		run.Distinct("flags/" + arg)
	}
	// the fixed-scan commands' flag sets
	for _, fx := range []struct {
		name string
		opts []tcp.PacketFillerOption
		bits uint16
	}{{"syn", []tcp.PacketFillerOption{tcp.WithSYN()}, oracle.FlagSYN}, {"fin", []tcp.PacketFillerOption{tcp.WithFIN()}, oracle.FlagFIN},
		{"null", nil, 0}, {"xmas", []tcp.PacketFillerOption{tcp.WithFIN(), tcp.WithPSH(), tcp.WithURG()}, oracle.FlagFIN | oracle.FlagPSH | oracle.FlagURG}} {
		_ = fx
	}
	// ---- icmp / udp flags through cobra
	n := run.Pick(1200, 20000)
	for i := 0; i < n; i++ {
		idx++
		if !run.Mine(idx) {
			continue
		}
		w := &c05want{TTL: 64, IPFlags: 2}
		var args []string
		add := func(a ...string) { args = append(args, a...) }
		if rng.Intn(2) == 0 {
			w.TTL = uint8([]int{0, 1, 64, 255, rng.Intn(256)}[rng.Intn(5)])
			add("--ttl", fmt.Sprint(w.TTL))
		}
		if rng.Intn(2) == 0 {
			bits := rng.Intn(8)
			var fl []string
			if bits&2 != 0 {
				fl = append(fl, "df")
			}
			if bits&4 != 0 {
				fl = append(fl, "evil")
			}
			if bits&1 != 0 {
				fl = append(fl, "MF")
			}
			// a name may be written more than once: it still sets its own bit, once
			if len(fl) > 0 && rng.Intn(3) == 0 {
				for k := 1 + rng.Intn(3); k > 0; k-- {
					fl = append(fl, fl[rng.Intn(len(fl))])
				}
			}
			rng.Shuffle(len(fl), func(a, b int) { fl[a], fl[b] = fl[b], fl[a] })
			w.IPFlags = uint8(bits)
			add("--ipflags", strings.Join(fl, ","))
		}
		if rng.Intn(6) == 0 {
			w.IPLen = uint16(1 + rng.Intn(65535))
			add("--iplen", fmt.Sprint(w.IPLen))
		}
		plen := -1
		if rng.Intn(2) == 0 {
			plen = []int{1, 2, 3, 7, 48, 255, 1000}[rng.Intn(7)]
			w.Payload = c05payload(rng, plen)
			w.PayLen = plen
			var esc strings.Builder
			for _, b := range w.Payload {
				fmt.Fprintf(&esc, "\\x%02x", b)
			}
			add("--payload", esc.String())
		}
		var filler scan.PacketFiller
		if i%2 == 0 {
			w.Kind, w.Proto, w.Type = "icmp", 1, 8
			if rng.Intn(2) == 0 {
				w.Type = uint8([]int{0, 8, 13, 17, 255, rng.Intn(256)}[rng.Intn(6)])
				add("--type", fmt.Sprint(w.Type))
			}
			if rng.Intn(2) == 0 {
				w.Code = uint8([]int{0, 1, 255, rng.Intn(256)}[rng.Intn(4)])
				add("--code", fmt.Sprint(w.Code))
			}
			if rng.Intn(6) == 0 {
				w.Proto = uint8([]int{0, 1, 157, 255}[rng.Intn(4)])
				add("--ipproto", fmt.Sprint(w.Proto))
			}
			if plen < 0 {
				w.AnyPayload = true
			}
			c := newICMPCmd()
			if err := c.cmd.Flags().Parse(args); err != nil {
				run.Violation("cli:args-rejected", fmt.Sprintf("icmp %v: %v", args, err), args)
				continue
			}
			if err := c.opts.parseRawOptions(); err != nil {
				run.Violation("cli:args-rejected", fmt.Sprintf("icmp %v: %v", args, err), args)
				continue
			}
			c.opts.vpnMode = rng.Intn(4) == 0
			w.VPN = c.opts.vpnMode
			filler = icmp.NewPacketFiller(c.opts.getICMPOptions()...)
		} else {
			w.Kind, w.Proto = "udp", 17
			if rng.Intn(8) == 0 {
				w.Proto = uint8([]int{0, 157, 255}[rng.Intn(3)])
				add("--ipproto", fmt.Sprint(w.Proto))
				if w.IPLen == 0 {
					w.IPLen = 28
					add("--iplen", "28")
				}
			}
			c := newUDPCmd()
			if err := c.cmd.Flags().Parse(args); err != nil {
				run.Violation("cli:args-rejected", fmt.Sprintf("udp %v: %v", args, err), args)
				continue
			}
			if err := c.opts.parseRawOptions(); err != nil {
				run.Violation("cli:args-rejected", fmt.Sprintf("udp %v: %v", args, err), args)
				continue
			}
			c.opts.vpnMode = rng.Intn(4) == 0
			w.VPN = c.opts.vpnMode
			filler = udp.NewPacketFiller(c.opts.getUDPOptions()...)
		}
		w.Via = w.Kind + " " + strings.Join(args, " ")
		if len(w.Via) > 160 {
			w.Via = w.Via[:160] + "…"
		}
		run.Case(fmt.Sprintf("cli%05d", i), w.Via)
		for k := 0; k < 2; k++ {
			c05fill(run, filler, w, c05randReq(rng), st)
		}
		run.Distinct(w.Via)
		if run.WantSample() && len(args) >= 6 && plen < 10 {
			run.Sample(map[string]interface{}{"argv": w.Via, "decoded_ok": true})
		}
	}
	run.Count("frames_checked", st.frames)
	run.Count("cli_cases", int64(idx/run.NBatch()))
}
