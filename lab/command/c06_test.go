//go:build verif

package command

// C06 — receive path: arbitrary frames never crash it and never yield phantom data.
//
// tcp.ScanMethod, icmp.PacketProcessor (also serving udp) and arp.ScanMethod are called
// exactly as the receiver calls them (ProcessPacketData(data, ci)) with a synchronous
// result sink, so every record is attributed to the frame that produced it. Frames:
// structure-aware mutations of valid frames, random bytes, class-table histories; slices
// have capacity == length so that reads past the frame fault instead of silently reading
// ring-buffer memory.

import (
	"fmt"
	"math/rand"
	"strings"
	"testing"

	"github.com/google/gopacket"
	"github.com/v-byte-cpu/sx/pkg/packet"
	"github.com/v-byte-cpu/sx/pkg/scan"
	"github.com/v-byte-cpu/sx/pkg/scan/arp"
	"github.com/v-byte-cpu/sx/pkg/scan/icmp"
	"github.com/v-byte-cpu/sx/pkg/scan/tcp"
	"verif.local/v/oracle"
	"verif.local/v/vlab"
)

// syncResults is a scan.ResultChan that records synchronously.
type syncResults struct{ items []scan.Result }

func (s *syncResults) Put(r scan.Result)        { s.items = append(s.items, r) }
func (s *syncResults) Chan() <-chan scan.Result { return nil }

// c06kept: a record as it was when it was emitted (the engine buffers up to 1000 records before
// the logger prints them, so a record must not change when later frames are processed).
type c06kept struct {
	rec   scan.Result
	snap  []byte
	frame int
}

type c06proc struct {
	name  string
	proto uint8 // ProtoTCP / ProtoICMP / 0 = arp
	link  oracle.Link
	p     packet.Processor
	sink  *syncResults
	kept  []c06kept
}

func c06procs() []*c06proc {
	var out []*c06proc
	for _, vpn := range []bool{false, true} {
		link := oracle.LinkEthernet
		sfx := "eth"
		if vpn {
			link, sfx = oracle.LinkRawIP, "vpn"
		}
		s1 := &syncResults{}
		out = append(out, &c06proc{"tcp-" + sfx, oracle.ProtoTCP, link, tcp.NewScanMethod("tcpflags", nil, s1, tcp.WithScanVPNmode(vpn)), s1, nil})
		s2 := &syncResults{}
		out = append(out, &c06proc{"icmp-" + sfx, oracle.ProtoICMP, link, icmp.NewPacketProcessor("icmp", s2, vpn), s2, nil})
	}
	s3 := &syncResults{}
	out = append(out, &c06proc{"arp-eth", 0, oracle.LinkEthernet, arp.NewScanMethod(nil, s3), s3, nil})
	return out
}

func exact(b []byte) []byte {
	c := make([]byte, len(b))
	copy(c, b)
	return c[:len(c):len(c)]
}

// ---- valid frame builders

var (
	c06macA = [6]byte{0x02, 0x11, 0x22, 0x33, 0x44, 0x55}
	c06macB = [6]byte{0x02, 0xaa, 0xbb, 0xcc, 0xdd, 0xee}
)

func c06ip(rng *rand.Rand) [4]byte { return oracle.U32ToIP(rng.Uint32()) }

func c06tcp(rng *rand.Rand, src, dst [4]byte) []byte {
	var opts []byte
	if rng.Intn(2) == 0 {
		opts = []byte{2, 4, 5, 0xb4, 1, 1, 1, 0}
	}
	pl := make([]byte, rng.Intn(20))
	rng.Read(pl)
	return oracle.BuildTCP(src, dst, oracle.TCPSpec{SrcPort: uint16(1 + rng.Intn(65535)), DstPort: uint16(rng.Intn(65536)), Seq: rng.Uint32(), Ack: rng.Uint32(),
		Flags: uint16(rng.Intn(512)), Window: uint16(rng.Intn(65536)), Options: opts, Payload: pl, DataOff: -1})
}

func c06wrap(link oracle.Link, ipb []byte) []byte {
	if link == oracle.LinkEthernet {
		return oracle.BuildEth(c06macA, c06macB, oracle.EtherTypeIPv4, ipb)
	}
	return ipb
}

// c06valid builds a well-formed frame of the given kind.
// c06forceSrc: when set, the next valid frames carry this source address (special addresses: 0.0.0.0, broadcast)
var c06forceSrc *[4]byte

func c06valid(rng *rand.Rand, link oracle.Link, kind string) []byte {
	src, dst := c06ip(rng), c06ip(rng)
	if c06forceSrc != nil {
		src = *c06forceSrc
	}
	spec := func(proto uint8) oracle.IPSpec {
		s := oracle.NewIPSpec(src, dst, proto)
		s.TTL = uint8(1 + rng.Intn(255))
		s.ID = uint16(rng.Intn(65536))
		if rng.Intn(4) == 0 {
			s.Options = []byte{7, 7, 4, 0, 0, 0, 0, 0} // record route, padded
		}
		return s
	}
	switch kind {
	case "tcp":
		return c06wrap(link, oracle.BuildIPv4(spec(oracle.ProtoTCP), c06tcp(rng, src, dst)))
	case "udp":
		pl := make([]byte, rng.Intn(30))
		return c06wrap(link, oracle.BuildIPv4(spec(oracle.ProtoUDP), oracle.BuildUDP(src, dst, uint16(rng.Intn(65536)), uint16(rng.Intn(65536)), pl)))
	case "icmp":
		pl := make([]byte, rng.Intn(40))
		return c06wrap(link, oracle.BuildIPv4(spec(oracle.ProtoICMP), oracle.BuildICMP(uint8(rng.Intn(256)), uint8(rng.Intn(256)), uint16(rng.Intn(65536)), 1, pl)))
	case "ipip-tcp", "ipip-udp", "ipip-icmp", "ipip-none", "ipip-ipip-tcp":
		isrc, idst := c06ip(rng), c06ip(rng)
		var inner []byte
		switch kind {
		case "ipip-tcp", "ipip-ipip-tcp":
			inner = oracle.BuildIPv4(oracle.NewIPSpec(isrc, idst, oracle.ProtoTCP), c06tcp(rng, isrc, idst))
		case "ipip-udp":
			inner = oracle.BuildIPv4(oracle.NewIPSpec(isrc, idst, oracle.ProtoUDP), oracle.BuildUDP(isrc, idst, 53, 53, []byte("x")))
		case "ipip-icmp":
			inner = oracle.BuildIPv4(oracle.NewIPSpec(isrc, idst, oracle.ProtoICMP), oracle.BuildICMP(0, 0, 1, 1, nil))
		case "ipip-none":
			inner = oracle.BuildIPv4(oracle.NewIPSpec(isrc, idst, 253), []byte{1, 2, 3})
		}
		if kind == "ipip-ipip-tcp" {
			inner = oracle.BuildIPv4(oracle.NewIPSpec(c06ip(rng), c06ip(rng), oracle.ProtoIPIP), inner)
		}
		return c06wrap(link, oracle.BuildIPv4(spec(oracle.ProtoIPIP), inner))
	case "frag-first", "frag-later":
		s := spec(oracle.ProtoTCP)
		if kind == "frag-first" {
			s.Flags = 1
		} else {
			s.FragOff = uint16(1 + rng.Intn(100))
		}
		return c06wrap(link, oracle.BuildIPv4(s, c06tcp(rng, src, dst)))
	case "other-proto":
		return c06wrap(link, oracle.BuildIPv4(spec([]uint8{0, 2, 41, 47, 50, 132, 253, 255}[rng.Intn(8)]), []byte{1, 2, 3, 4, 5, 6, 7, 8, 9, 10, 11, 12, 13, 14, 15, 16, 17, 18, 19, 20, 21, 22, 23, 24}))
	case "arp":
		var sha, tha [6]byte
		rng.Read(sha[:])
		rng.Read(tha[:])
		ethSrc := sha
		if rng.Intn(2) == 0 { // proxy ARP / VRRP: the frame comes from another MAC than the sender field says
			ethSrc = c06macB
		}
		return oracle.BuildEth(c06macA, ethSrc, oracle.EtherTypeARP, oracle.BuildARP(uint16(1+rng.Intn(2)), sha, c06ip(rng), tha, c06ip(rng)))
	case "eth-in-eth":
		// transparent Ethernet bridging (0x6558): an Ethernet frame inside an Ethernet frame
		var inner []byte
		switch rng.Intn(4) {
		case 0:
			inner = oracle.BuildEth(c06macB, c06macA, 0xcad5, []byte{1, 2, 3, 4, 5, 6, 7, 8, 9, 10})
		case 1:
			var sha [6]byte
			rng.Read(sha[:])
			inner = oracle.BuildEth(c06macB, sha, oracle.EtherTypeARP, oracle.BuildARP(2, sha, c06ip(rng), c06macA, c06ip(rng)))
		case 2:
			src, dst := c06ip(rng), c06ip(rng)
			inner = oracle.BuildEth(c06macB, c06macA, oracle.EtherTypeIPv4, oracle.BuildIPv4(oracle.NewIPSpec(src, dst, oracle.ProtoTCP), c06tcp(rng, src, dst)))
		default:
			inner = []byte{0, 1, 8, 0, 6, 4, 0, 2, 9, 9, 9, 9} // looks like the start of an ARP body
		}
		if link != oracle.LinkEthernet {
			return c06wrap(link, oracle.BuildIPv4(spec(97), inner)) // EtherIP (protocol 97) in raw-IP mode
		}
		return oracle.BuildEth(c06macA, c06macB, 0x6558, inner)
	case "arp-sizes":
		sizes := []uint8{0, 1, 2, 4, 6, 8, 16, 128, 255}
		hl, pl := sizes[rng.Intn(len(sizes))], sizes[rng.Intn(len(sizes))]
		mk := func(n uint8) []byte { b := make([]byte, n); rng.Read(b); return b }
		body := oracle.BuildARPRaw(1, oracle.EtherTypeIPv4, hl, pl, 2, mk(hl), mk(pl), mk(hl), mk(pl))
		if rng.Intn(3) == 0 && len(body) > 8 {
			body = body[:8+rng.Intn(len(body)-8)]
		}
		return oracle.BuildEth(c06macA, c06macB, oracle.EtherTypeARP, body)
	case "ipv6":
		b := make([]byte, 60)
		rng.Read(b)
		b[0] = 0x60
		b[6] = 6
		return oracle.BuildEth(c06macA, c06macB, oracle.EtherTypeIPv6, b)
	case "ethertype":
		b := make([]byte, 40)
		rng.Read(b)
		return oracle.BuildEth(c06macA, c06macB, []uint16{0x8100, 0x88a8, 0x8847, 0x0000, 0x05dc, 0xffff, 0x0801}[rng.Intn(7)], b)
	case "version6-in-ipv4":
		s := spec(oracle.ProtoTCP)
		s.Version = 6
		return c06wrap(link, oracle.BuildIPv4(s, c06tcp(rng, src, dst)))
	}
	b := make([]byte, rng.Intn(120))
	rng.Read(b)
	return b
}

var c06kinds = []string{"tcp", "udp", "icmp", "ipip-tcp", "ipip-udp", "ipip-icmp", "ipip-none", "ipip-ipip-tcp", "frag-first", "frag-later", "other-proto", "arp", "arp-sizes", "eth-in-eth", "ipv6", "ethertype", "version6-in-ipv4", "random"}

// c06mutate applies one structure-aware mutation.
func c06mutate(rng *rand.Rand, link oracle.Link, f []byte) []byte {
	b := append([]byte(nil), f...)
	off := 0
	if link == oracle.LinkEthernet {
		off = 14
	}
	switch rng.Intn(10) {
	case 0: // truncate
		if len(b) > 0 {
			b = b[:rng.Intn(len(b))]
		}
	case 1: // a fixed-header byte to 00/ff/+-1
		if len(b) > 0 {
			i := rng.Intn(min(len(b), off+40))
			switch rng.Intn(4) {
			case 0:
				b[i] = 0
			case 1:
				b[i] = 0xff
			case 2:
				b[i]++
			case 3:
				b[i]--
			}
		}
	case 2: // IHL
		if len(b) > off {
			b[off] = b[off]&0xf0 | byte(rng.Intn(16))
		}
	case 3: // version
		if len(b) > off {
			b[off] = b[off]&0x0f | byte(rng.Intn(16))<<4
		}
	case 4: // total length classes
		if len(b) > off+3 {
			v := []int{0, 1, 19, 20, 21, 39, 40, 41, len(b) - off, len(b) - off + 1, len(b) - off - 1, 65535, rng.Intn(65536)}[rng.Intn(13)]
			b[off+2], b[off+3] = byte(v>>8), byte(v)
		}
	case 5: // TCP data offset (assuming IHL 5)
		if len(b) > off+32 {
			b[off+32] = b[off+32]&0x0f | byte(rng.Intn(16))<<4
		}
	case 6: // protocol
		if len(b) > off+9 {
			b[off+9] = []byte{0, 1, 4, 6, 17, 41, 255, byte(rng.Intn(256))}[rng.Intn(8)]
		}
	case 7: // fragment bits
		if len(b) > off+7 {
			b[off+6], b[off+7] = byte(rng.Intn(256)), byte(rng.Intn(256))
		}
	case 8: // ethertype
		if link == oracle.LinkEthernet && len(b) > 13 {
			v := []int{0x0800, 0x0806, 0x86dd, 0x8100, rng.Intn(65536)}[rng.Intn(5)]
			b[12], b[13] = byte(v>>8), byte(v)
		}
	case 9: // append garbage / padding
		extra := make([]byte, rng.Intn(30))
		rng.Read(extra)
		b = append(b, extra...)
	}
	return b
}

type c06rec struct {
	IP, Port, Flags, Type, Code, TTL, MAC string
}

// c06feed processes one frame and applies the oracle. Returns false after a crash.
func c06feed(run *vlab.Run, p *c06proc, frame []byte, hist [][]byte, pos int) (ok bool) {
	p.sink.items = p.sink.items[:0]
	data := exact(frame)
	ci := &gopacket.CaptureInfo{CaptureLength: len(data), Length: len(data)}
	witness := func() map[string]interface{} {
		var hs []string
		for i := 0; i <= pos && i < len(hist); i++ {
			hs = append(hs, fmt.Sprintf("%x", hist[i]))
		}
		if len(hs) > 6 {
			hs = hs[len(hs)-6:]
		}
		return map[string]interface{}{"processor": p.name, "frame": fmt.Sprintf("%x", frame), "history_tail": hs}
	}
	crashed := false
	func() {
		defer func() {
			if r := recover(); r != nil {
				crashed = true
				run.Violation(p.name+":crash", fmt.Sprintf("%s.ProcessPacketData panicked (the receiver goroutine has no recover: the program dies): %v; frame %x", p.name, r, truncate(frame, 120)), witness())
			}
		}()
		_ = p.p.ProcessPacketData(data, ci)
	}()
	run.Eval(1)
	if crashed {
		return false
	}
	recs := p.sink.items
	if len(recs) > 1 {
		run.Violation(p.name+":multiple-records", fmt.Sprintf("%d records for one frame %x", len(recs), truncate(frame, 120)), witness())
	}
	var chain oracle.Tri
	if p.proto == 0 {
		chain = oracle.HasARPChain(frame)
	} else {
		chain = oracle.HasIPChain(frame, p.link, p.proto)
	}
	run.Count("frames_"+chain.String(), 1)
	if len(recs) == 0 {
		return true
	}
	run.Count("records", 1)
	rec := recs[0]
	if snap, err := rec.MarshalJSON(); err == nil && len(p.kept) < 64 {
		p.kept = append(p.kept, c06kept{rec, snap, pos})
	}
	if chain == oracle.No {
		d := oracle.Decode(frame, p.link)
		run.Violation(p.name+":phantom-record", fmt.Sprintf("record %q for a frame that lacks the %s header chain (%v); frame %x", rec.String(), p.name, d.Problems, truncate(frame, 120)), witness())
		return true
	}
	// ---- field fidelity: every field must come from THIS frame
	d := oracle.Decode(frame, p.link)
	srcs := map[string]bool{}
	ttls := map[string]bool{}
	if d.IP != nil {
		srcs[oracle.IPString(d.IP.Src)] = true
		ttls[fmt.Sprint(d.IP.TTL)] = true
	}
	for _, in := range d.Inner {
		srcs[oracle.IPString(in.Src)] = true
		ttls[fmt.Sprint(in.TTL)] = true
	}
	switch r := rec.(type) {
	case *tcp.ScanResult:
		if d.TCP == nil {
			run.Count("records_unverifiable", 1)
			return true
		}
		if !srcs[r.IP] || r.Port != d.TCP.SrcPort || r.Flags != oracle.FlagString(d.TCP.Flags) {
			run.Violation(p.name+":stale-or-wrong-fields", fmt.Sprintf("record {ip %s port %d flags %q} but this frame has source %v, TCP source port %d, flags %q; frame %x", r.IP, r.Port, r.Flags, keys(srcs), d.TCP.SrcPort, oracle.FlagString(d.TCP.Flags), truncate(frame, 120)), witness())
		}
	case *icmp.ScanResult:
		if d.ICMP == nil {
			run.Count("records_unverifiable", 1)
			return true
		}
		if !srcs[r.IP] || !ttls[fmt.Sprint(r.TTL)] || r.ICMP == nil || r.ICMP.Type != d.ICMP.Type || r.ICMP.Code != d.ICMP.Code {
			run.Violation(p.name+":stale-or-wrong-fields", fmt.Sprintf("record %q but this frame has source %v ttl %v ICMP %d/%d; frame %x", r.String(), keys(srcs), keys(ttls), d.ICMP.Type, d.ICMP.Code, truncate(frame, 120)), witness())
		}
	case *arp.ScanResult:
		a := d.ARP
		if a == nil || a.SHA == nil {
			run.Count("records_unverifiable", 1)
			return true
		}
		wantIP := fmt.Sprintf("%d.%d.%d.%d", a.SPA[0], a.SPA[1], a.SPA[2], a.SPA[3])
		if r.IP != wantIP || r.MAC != oracle.MACString(a.SHA) {
			run.Violation(p.name+":stale-or-wrong-fields", fmt.Sprintf("record {ip %s mac %s} but this frame's sender is %s / %s; frame %x", r.IP, r.MAC, wantIP, oracle.MACString(a.SHA), truncate(frame, 120)), witness())
		}
	}
	return true
}

func keys(m map[string]bool) []string {
	var s []string
	for k := range m {
		s = append(s, k)
	}
	return s
}

func TestVerifC06(t *testing.T) {
	run := vlab.Begin(t, "C06", "frames")
	defer run.End()
	rng := run.Rand(fmt.Sprintf("frames-%d", run.Batch()))
	procs := c06procs()
	renew := func(i int) { procs[i] = c06procs()[i] } // a crashed processor is replaced

	runHistory := func(pi int, hist [][]byte, label string) {
		p := procs[pi]
		var hx []string
		for _, f := range hist {
			hx = append(hx, fmt.Sprintf("%x", f))
		}
		run.Case(label, map[string]interface{}{"processor": p.name, "history": strings.Join(hx, " ")})
		p.kept = p.kept[:0]
		for i, f := range hist {
			if !c06feed(run, p, f, hist, i) {
				renew(pi)
				p = procs[pi]
			}
		}
		// records are printed later than they are emitted: they must still say what they said then
		for _, k := range p.kept {
			now, err := k.rec.MarshalJSON()
			if err != nil || string(now) != string(k.snap) {
				run.Violation(p.name+":record-changed-after-emission", fmt.Sprintf("the record emitted for frame %d of the history read %s then and reads %s after the later frames were processed (shared state between records)", k.frame, k.snap, now),
					map[string]interface{}{"processor": p.name, "history": hx})
				break
			}
			run.Count("records_rechecked_after_history", 1)
		}
		run.Count("histories", 1)
	}

	// ---- 1. every ordered pair (A, B) of the class table, per processor (exhaustive over the table)
	pairReps := run.Pick(2, 20)
	for pi := range procs {
		for _, ka := range c06kinds {
			for _, kb := range c06kinds {
				for r := 0; r < pairReps; r++ {
					a := c06valid(rng, procs[pi].link, ka)
					b := c06valid(rng, procs[pi].link, kb)
					runHistory(pi, [][]byte{a, b}, "pair/"+ka+"/"+kb)
				}
				run.Distinct(procs[pi].name + "/" + ka + ">" + kb)
			}
		}
	}
	// ---- 2. truncation of valid frames at every length, header-byte sweeps
	for pi := range procs {
		for _, k := range c06kinds {
			f := c06valid(rng, procs[pi].link, k)
			var hist [][]byte
			for n := 0; n <= len(f); n++ {
				hist = append(hist, c06valid(rng, procs[pi].link, "tcp"), f[:n]) // a valid frame before each truncated one
			}
			runHistory(pi, hist, "truncate/"+k)
		}
	}
	// ---- 2b. long histories of valid frames: the engine buffers up to ~2000 records between the processor and
	// the logger, so a record must still read the same after thousands of later frames (no recycled storage)
	if run.Batch() < len(procs) {
		pi := run.Batch()
		kind := map[uint8]string{oracle.ProtoTCP: "tcp", oracle.ProtoICMP: "icmp", 0: "arp"}[procs[pi].proto]
		var hist [][]byte
		for i := 0; i < 3000; i++ {
			hist = append(hist, c06valid(rng, procs[pi].link, kind))
		}
		runHistory(pi, hist, "long/"+kind)
		run.Count("long_histories", 1)
	}
	// ---- 2c. a fresh processor whose very first frames come from special source addresses (0.0.0.0 is the zero
	// value of any cache of "the last address seen")
	for pi := range procs {
		kind := map[uint8]string{oracle.ProtoTCP: "tcp", oracle.ProtoICMP: "icmp", 0: "arp"}[procs[pi].proto]
		if kind == "arp" || run.Batch() != pi%run.NBatch() {
			continue
		}
		for _, order := range [][][4]byte{{{0, 0, 0, 0}, {0, 0, 0, 0}, {255, 255, 255, 255}, {0, 0, 0, 0}}, {{255, 255, 255, 255}, {0, 0, 0, 0}}, {{0, 0, 0, 1}, {0, 0, 0, 0}, {0, 0, 0, 1}}} {
			renew(pi)
			var hist [][]byte
			for _, a := range order {
				a := a
				c06forceSrc = &a
				hist = append(hist, c06valid(rng, procs[pi].link, kind))
			}
			c06forceSrc = nil
			runHistory(pi, hist, "special-sources/"+kind)
			run.Count("histories_starting_with_special_source_addresses", 1)
		}
	}
	// ---- 3. seeded mutation histories
	nh := run.Pick(2500, 60000)
	for h := 0; h < nh; h++ {
		pi := rng.Intn(len(procs))
		ln := 1 + rng.Intn(50)
		hist := make([][]byte, 0, ln)
		for i := 0; i < ln; i++ {
			f := c06valid(rng, procs[pi].link, c06kinds[rng.Intn(len(c06kinds))])
			for m := rng.Intn(4); m > 0; m-- {
				f = c06mutate(rng, procs[pi].link, f)
			}
			hist = append(hist, f)
		}
		runHistory(pi, hist, fmt.Sprintf("mut%06d", h))
		if h%50 == 0 {
			run.Distinct(fmt.Sprintf("b%d/h%d", run.Batch(), h))
		}
		if run.WantSample() && ln >= 3 && ln <= 5 {
			var hx []string
			for _, f := range hist {
				hx = append(hx, fmt.Sprintf("%x", truncate(f, 48)))
			}
			run.Sample(map[string]interface{}{"processor": procs[pi].name, "history_hex_prefixes": hx})
		}
	}
	run.DistinctN(nh / 2) // mutation histories are distinct by construction (seeded, per batch)
}
