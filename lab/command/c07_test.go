//go:build verif

package command

// C07 — packet pipeline: nothing lost, duplicated or altered before the wire.
//
// request stream -> [ARP-cache stage] -> [exclusion filter] -> N building workers -> merger
//   -> sender -> recording writer; error merger -> error consumer.
// All stages are the real ones; only the two ends (stream generator, wire) and the filler
// wrapper are harness-owned recorders.

import (
	"context"
	"fmt"
	"net"
	"sort"
	"syscall"
	"testing"
	"time"

	"github.com/v-byte-cpu/sx/pkg/packet"
	"github.com/v-byte-cpu/sx/pkg/scan"
	"github.com/v-byte-cpu/sx/pkg/scan/arp"
	"github.com/v-byte-cpu/sx/pkg/scan/icmp"
	"github.com/v-byte-cpu/sx/pkg/scan/tcp"
	"github.com/v-byte-cpu/sx/pkg/scan/udp"
	"github.com/yl2chen/cidranger"
	"verif.local/v/oracle"
	"verif.local/v/vlab"
)

type c07case struct {
	N           int    `json:"n_requests"`
	W           int    `json:"workers"`
	Filler      string `json:"filler"`
	ErrPermille int    `json:"request_err_permille"`
	BurstAt     int    `json:"err_burst_at"`
	BurstLen    int    `json:"err_burst_len"`
	FillFail    int    `json:"build_fail_permille"`
	WriteFail   int    `json:"write_fail_permille"`
	TempWrites  bool   `json:"socket_like_write_errors"`
	FillDelay   int    `json:"fill_delay_mode"`
	WriteDelay  int    `json:"write_delay_mode"`
	SlowDrain   bool   `json:"slow_error_consumer"`
	Chain       int    `json:"chain"` // 0 bare, 1 +arp cache stage, 2 +exclusion filter, 3 both
	// with the arp cache stage: no gateway MAC, the cache knows every CacheEvery-th target only - the others
	// fail at that stage (one error each, no frame); cached targets are addressed to their own entry
	CacheEvery int `json:"no_gateway_cache_every,omitempty"`
	Seed        uint64 `json:"seed"`
}

func rigFiller(name string, seed uint64) (scan.PacketFiller, oracle.Link) {
	switch name {
	case "tcp":
		return tcp.NewPacketFiller(tcp.WithSYN()), oracle.LinkEthernet
	case "tcp-vpn":
		return tcp.NewPacketFiller(tcp.WithSYN(), tcp.WithACK(), tcp.WithFillerVPNmode(true)), oracle.LinkRawIP
	case "udp":
		pl := make([]byte, int(seed%700))
		for i := range pl {
			pl[i] = byte(rigHash(seed, uint32(i), 9))
		}
		return udp.NewPacketFiller(udp.WithPayload(pl)), oracle.LinkEthernet
	case "udp-big":
		// frames longer than an Ethernet MTU (loopback, jumbo links): built frames are written as they are
		pl := make([]byte, 1500+int(seed%7000))
		for i := range pl {
			pl[i] = byte(rigHash(seed, uint32(i), 9))
		}
		return udp.NewPacketFiller(udp.WithPayload(pl)), oracle.LinkEthernet
	case "icmp":
		return icmp.NewPacketFiller(), oracle.LinkEthernet
	case "icmp-vpn":
		return icmp.NewPacketFiller(icmp.WithVPNmode(true)), oracle.LinkRawIP
	case "arp":
		return arp.NewPacketFiller(), oracle.LinkEthernet
	}
	return &synthFiller{seed: seed}, oracle.LinkRawIP
}

type c07obs struct {
	orderHash  string
	inversions int
}

func c07run(run *vlab.Run, c c07case) (obs c07obs) {
	clock := &rigClock{}
	gen := &streamGen{n: c.N, base: 0x0a000000, seed: c.Seed, errPermille: c.ErrPermille, burstAt: c.BurstAt, burstLen: c.BurstLen,
		port: 443, srcIP: net.IPv4(192, 168, 7, 7).To4(), srcMAC: net.HardwareAddr{2, 0, 0, 0, 0, 7}, chanCap: int(c.Seed % 3 * 50)}
	var reqgen scan.RequestGenerator = gen
	if c.Chain&2 != 0 {
		reqgen = scan.NewFilterIPRequestGenerator(reqgen, cidranger.NewPCTrieRanger())
	}
	stageFails := map[uint32]bool{}
	ownMAC := map[uint32]net.HardwareAddr{}
	if c.Chain&1 != 0 {
		cache := arp.NewCache()
		gw := net.HardwareAddr{2, 0, 0, 0, 0, 1}
		if c.CacheEvery > 0 {
			gw = nil
			for i := 1; i <= c.N; i++ {
				id := gen.base + uint32(i)
				if i%c.CacheEvery == 0 {
					ownMAC[id] = net.HardwareAddr{2, 0x55, byte(id >> 24), byte(id >> 16), byte(id >> 8), byte(id)}
					cache.Put(net.IPv4(byte(id>>24), byte(id>>16), byte(id>>8), byte(id)).To4(), ownMAC[id])
				} else {
					stageFails[id] = true
				}
			}
		}
		reqgen = arp.NewCacheRequestGenerator(reqgen, gw, cache)
	}
	inner, link := rigFiller(c.Filler, c.Seed)
	wrap := newWrapFiller(inner, c.Seed, c.FillFail, c.FillDelay, clock)
	rw := newRecRW(link, c.Seed, c.WriteFail, c.WriteDelay, clock)
	rw.tempKinds = c.TempWrites
	src := scan.NewPacketSource(reqgen, scan.NewPacketMultiGenerator(wrap, c.W))
	engine := scan.NewPacketEngine(src, packet.NewSender(rw), packet.NewReceiver(rw, nopProcessor{}))

	ctx, cancel := context.WithCancel(context.Background())
	defer cancel()
	var got []error
	var doneSeq int64
	var inflightAtDone int32
	var writesAtDone int
	_, finished, parked := run.Watch(90*time.Second, "v-byte-cpu/sx/pkg", func() {
		done, errc := engine.Start(ctx, &scan.Range{})
		sig := make(chan struct{})
		go func() {
			defer close(sig)
			<-done
			inflightAtDone = rw.inflight
			writesAtDone = len(rw.snapshot())
			doneSeq = clock.tick()
		}()
		for e := range errc {
			got = append(got, e)
			if c.SlowDrain {
				time.Sleep(50 * time.Microsecond)
			}
		}
		<-sig
	})
	run.Eval(1)
	if !finished {
		if parked {
			run.Violation("pipeline-parked", fmt.Sprintf("pipeline did not complete: every sx goroutine parked: %+v", c), c)
		} else {
			run.Inconclusive(fmt.Sprintf("pipeline still running after 90 s: %+v", c))
		}
		return
	}

	events := rw.snapshot()
	// ---- expected sets
	expBuilt := map[uint32]bool{}
	expErrs := map[error]string{}
	stageErrs := 0
	gen.mu.Lock()
	for i := 1; i <= c.N; i++ {
		id := gen.base + uint32(i)
		if e, ok := gen.reqErrs[id]; ok {
			expErrs[e] = "request"
		} else if stageFails[id] {
			stageErrs++ // one error of the stage's own making, no frame
		} else {
			expBuilt[id] = true
		}
	}
	gen.mu.Unlock()
	wrap.mu.Lock()
	for id, e := range wrap.fillErrs {
		expErrs[e] = "build"
		delete(expBuilt, id)
	}
	for id := range expBuilt {
		if wrap.fills[id] != 1 {
			run.Violation("build-count", fmt.Sprintf("request %s was handed to the packet builder %d times (exactly once expected): %+v", oracle.IPString(oracle.U32ToIP(id)), wrap.fills[id], c), c)
		}
	}
	built := wrap.built
	wrap.mu.Unlock()
	rw.mu.Lock()
	attErrs := map[error]uint32{}
	for e, id := range rw.attErrs {
		attErrs[e] = id
	}
	bareIDs := map[uint32]bool{}
	for id := range rw.bareIDs {
		bareIDs[id] = true
	}
	rw.mu.Unlock()

	// ---- frames: written multiset == built multiset, byte for byte
	// (a frame counts as written when a write of it succeeded; a failed write is a failed write)
	okWrites := map[uint32]int{}
	failedWrites := map[uint32]int{}
	sort.Slice(events, func(i, j int) bool { return events[i].seqCall < events[j].seqCall })
	var order []uint32
	for _, ev := range events {
		if ev.err == nil {
			okWrites[ev.id]++
		} else {
			failedWrites[ev.id]++
		}
		order = append(order, ev.id)
		if ev.mutated {
			run.Violation("buffer-reused-during-write", fmt.Sprintf("the buffer of frame %s changed while WritePacketData was in progress (pool recycled it too early): %+v", oracle.IPString(oracle.U32ToIP(ev.id)), c), c)
		}
		b, ok := built[ev.id]
		if !ok || !expBuilt[ev.id] {
			run.Violation("frame-extra", fmt.Sprintf("a frame for %s reached the wire although no frame was built for an error-free request with that id: %+v", oracle.IPString(oracle.U32ToIP(ev.id)), c), map[string]interface{}{"case": c, "frame": fmt.Sprintf("%x", ev.data)})
			continue
		}
		if m, ok := ownMAC[ev.id]; ok && link == oracle.LinkEthernet && len(ev.data) >= 6 && string(ev.data[:6]) != string(m) {
			run.Violation("frame-foreign-mac", fmt.Sprintf("frame for %s is addressed to %x, its own cache entry is %v: %+v", oracle.IPString(oracle.U32ToIP(ev.id)), ev.data[:6], m, c), c)
		}
		if string(b) != string(ev.data) {
			run.Violation("frame-altered", fmt.Sprintf("frame for %s differs between build and wire (%d vs %d bytes): %+v", oracle.IPString(oracle.U32ToIP(ev.id)), len(b), len(ev.data), c), map[string]interface{}{"case": c, "built": fmt.Sprintf("%x", b), "wire": fmt.Sprintf("%x", ev.data)})
		}
		if ev.seqRet > doneSeq {
			run.Violation("done-before-last-write", fmt.Sprintf("completion was signalled (logical time %d) before the write of frame %s returned (%d): %+v", doneSeq, oracle.IPString(oracle.U32ToIP(ev.id)), ev.seqRet, c), c)
		}
	}
	for id := range expBuilt {
		switch n := okWrites[id]; {
		case n == 0 && failedWrites[id] == 0:
			run.Violation("frame-lost", fmt.Sprintf("frame for %s was built but never written (%d of %d frames reached the wire): %+v", oracle.IPString(oracle.U32ToIP(id)), len(events), len(expBuilt), c), c)
		case n > 1:
			run.Violation("frame-duplicated", fmt.Sprintf("frame for %s written %d times: %+v", oracle.IPString(oracle.U32ToIP(id)), n, c), c)
		case n == 1 && failedWrites[id] > 0 && !c.TempWrites:
			run.Violation("frame-duplicated", fmt.Sprintf("frame for %s written once and %d more writes of it failed: %+v", oracle.IPString(oracle.U32ToIP(id)), failedWrites[id], c), c)
		}
	}
	if inflightAtDone != 0 || writesAtDone != len(events) {
		run.Violation("done-before-last-write", fmt.Sprintf("when completion was observed %d writes were in flight and %d of %d writes had returned: %+v", inflightAtDone, writesAtDone, len(events), c), c)
	}
	// ---- errors: exactly one per failed request / build; for writes: a frame no write of which succeeded
	// is reported at least once and at most once per failed write; a frame that was written in the end (a
	// sender that retries) at most once per failed write
	gotN := map[error]int{}
	gotW := map[uint32]int{}
	unknown := 0
	gotBare := 0
	for _, e := range got {
		if e == error(syscall.ENOBUFS) {
			gotBare++ // the same value for every frame that failed this way: counted
		} else if _, ok := expErrs[e]; ok {
			gotN[e]++
		} else if id, ok := attErrs[e]; ok {
			gotN[e]++
			if gotN[e] == 1 {
				gotW[id]++
			}
		} else {
			unknown++
		}
	}
	for e, n := range gotN {
		if _, ok := attErrs[e]; ok && n > 1 {
			run.Violation("error-duplicated:write", fmt.Sprintf("%q reported %d times on the error stream: %+v", e.Error(), n, c), c)
		}
	}
	missing := stageErrs // errors made by a stage have no identity the monitor knows: counted
	missKind := "stage"
	if stageErrs > 0 {
		run.Count("requests_failing_at_the_cache_stage", int64(stageErrs))
	}
	for e, kind := range expErrs {
		switch n := gotN[e]; {
		case n == 0:
			missing++
			missKind = kind
		case n > 1:
			run.Violation("error-duplicated:"+kind, fmt.Sprintf("%q reported %d times on the error stream: %+v", e.Error(), n, c), c)
		}
	}
	room := 0
	loBare, hiBare := 0, 0
	for id, f := range failedWrites {
		if bareIDs[id] {
			if okWrites[id] == 0 {
				loBare++
			}
			hiBare += f
			continue
		}
		r := gotW[id]
		if okWrites[id] == 0 && r == 0 {
			missing++
			missKind = "write"
			room += f - 1
		} else {
			room += f - r
		}
	}
	if gotBare < loBare {
		run.Violation("error-lost:write", fmt.Sprintf("%d frames were never written (every write of them failed with ENOBUFS) but only %d ENOBUFS errors were reported: %+v", loBare, gotBare, c), c)
	} else if gotBare > hiBare {
		run.Violation("error-spurious", fmt.Sprintf("%d ENOBUFS errors reported, %d writes failed that way: %+v", gotBare, hiBare, c), c)
	}
	if unknown < missing {
		// errors whose identity was changed by a stage are still one error each (C13 judges their text);
		// only a count mismatch is a loss or a spurious error
		run.Violation("error-lost:"+missKind, fmt.Sprintf("%d failed requests/builds/writes produced no error (%d received, %d of them unattributable; %d frames had a failed write): %+v", missing-unknown, len(got), unknown, len(failedWrites), c), c)
	} else if unknown > missing+room {
		run.Violation("error-spurious", fmt.Sprintf("%d errors on the error stream correspond to no failed request, build or write: %+v", unknown-missing-room, c), c)
	}
	// ---- what was observed
	run.Count("frames_written", int64(len(events)))
	run.Count("errors_received", int64(len(got)))
	run.Count("request_errors", int64(len(gen.reqErrs)))
	run.Count("build_errors", int64(len(wrap.fillErrs)))
	run.Count("write_errors", int64(len(attErrs)))
	if c.TempWrites {
		run.Count("socket_like_write_errors", int64(len(attErrs)))
	}
	run.Max("max_parallel_builds", int64(wrap.maxInflight))
	inv := 0
	for i := 1; i < len(order); i++ {
		if order[i] < order[i-1] {
			inv++
		}
	}
	run.Count("wire_order_inversions", int64(inv))
	h := ""
	if len(order) > 0 {
		bs := make([]byte, 0, 4*len(order))
		for _, id := range order {
			bs = append(bs, byte(id>>24), byte(id>>16), byte(id>>8), byte(id))
		}
		h = fmt.Sprintf("%016x", vlab.Hash64(bs))
	}
	return c07obs{orderHash: h, inversions: inv}
}

func c07cases(run *vlab.Run) []c07case {
	rng := run.Rand("cases")
	var cases []c07case
	fillers := []string{"tcp", "tcp-vpn", "udp", "icmp", "icmp-vpn", "arp", "synth", "udp-big"}
	workers := []int{1, 2, 3, 8, 16, 64}
	sizes := []int{0, 1, 2, 99, 100, 101, 250, 1000, 3000}
	n := run.Pick(400, 8000)
	for i := 0; i < n; i++ {
		c := c07case{
			N: sizes[rng.Intn(len(sizes))], W: workers[rng.Intn(len(workers))], Filler: fillers[rng.Intn(len(fillers))],
			BurstAt: -1, Seed: rng.Uint64(), Chain: rng.Intn(4),
			FillDelay: rng.Intn(3), WriteDelay: rng.Intn(3), SlowDrain: rng.Intn(3) == 0,
		}
		if i%17 == 0 {
			c.N = run.Pick(8000, 20000)
			c.WriteDelay = rng.Intn(2)
		}
		switch rng.Intn(4) {
		case 0: // clean
		case 1:
			c.ErrPermille = 1 + rng.Intn(300)
		case 2:
			c.ErrPermille, c.FillFail, c.WriteFail = rng.Intn(100), rng.Intn(100), rng.Intn(100)
			c.TempWrites = rng.Intn(2) == 0
		case 3:
			if c.N > 150 {
				c.BurstAt, c.BurstLen = rng.Intn(c.N-120), 101+rng.Intn(150)
			}
			c.FillFail = rng.Intn(50)
		}
		if c.Filler == "arp" {
			c.Chain &^= 1
		}
		if c.Chain&1 != 0 && rng.Intn(3) == 0 {
			c.CacheEvery = 1 + rng.Intn(4)
		}
		cases = append(cases, c)
	}
	// everything fails
	cases = append(cases, c07case{N: 500, W: 8, Filler: "tcp", ErrPermille: 1000, BurstAt: -1, Seed: 5})
	cases = append(cases, c07case{N: 500, W: 8, Filler: "udp", FillFail: 1000, BurstAt: -1, Seed: 6, SlowDrain: true})
	cases = append(cases, c07case{N: 500, W: 3, Filler: "icmp", WriteFail: 1000, BurstAt: -1, Seed: 7, SlowDrain: true})
	cases = append(cases, c07case{N: 500, W: 3, Filler: "tcp", WriteFail: 1000, TempWrites: true, BurstAt: -1, Seed: 8})
	cases = append(cases, c07case{N: 300, W: 4, Filler: "udp-big", BurstAt: -1, Seed: 10}, c07case{N: 200, W: 2, Filler: "udp-big", ErrPermille: 100, BurstAt: -1, Seed: 6999 + 11})
	cases = append(cases, c07case{N: 300, W: 8, Filler: "udp", WriteFail: 300, TempWrites: true, BurstAt: -1, Seed: 9, SlowDrain: true})
	return cases
}

func TestVerifC07(t *testing.T) {
	run := vlab.Begin(t, "C07", "pipeline")
	defer run.End()
	orders := map[string]bool{}
	cells := map[string]bool{}
	for i, c := range c07cases(run) {
		if !run.Mine(i) {
			continue
		}
		id := fmt.Sprintf("case%05d", i)
		run.Case(id, c)
		obs := c07run(run, c)
		if c.N >= 2 && (c.W > 1 || c.ErrPermille+c.FillFail+c.WriteFail > 0 || c.BurstLen > 0) {
			run.Distinct(fmt.Sprintf("%+v", c))
		}
		if obs.orderHash != "" && c.N > 2 {
			orders[obs.orderHash] = true
		}
		cells[fmt.Sprintf("w%d/n%d/%s", c.W, c.N, c.Filler)] = true
		if run.WantSample() && c.N >= 100 && c.ErrPermille > 0 {
			run.Sample(map[string]interface{}{"case": c, "wire_order_hash": obs.orderHash, "wire_order_inversions": obs.inversions})
		}
	}
	run.Count("distinct_arrival_orders", int64(len(orders)))
	run.Count("workers_x_length_x_filler_cells", int64(len(cells)))
}
