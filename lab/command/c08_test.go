//go:build verif

package command

// C08 — application scans: each target probed once, each outcome reported once.
//
// The engine is built by the real genericScanCmdOpts.newScanEngine (rate-limit wrapper,
// 1000-slot result channel, --workers wiring, file target generator) and run by the real
// startScanEngine with the real JSON logger; harness-owned: the Scanner, the output
// io.Writer and the Error sink.

import (
	"bytes"
	"context"
	"encoding/json"
	"fmt"
	"os"
	"path/filepath"
	"testing"
	"time"

	"github.com/v-byte-cpu/sx/pkg/scan"
	"verif.local/v/oracle"
	"verif.local/v/vlab"
)

type c08case struct {
	N           int    `json:"targets"`
	Workers     int    `json:"workers"`
	PosPermille int    `json:"positive_permille"`
	ErrPermille int    `json:"probe_error_permille"`
	BadPermille int    `json:"bad_target_line_permille"`
	LatencyUs   int    `json:"max_probe_latency_us"`
	Rate        int    `json:"rate_per_second"` // 0 = limiter off
	RateWindowMs int   `json:"rate_window_ms,omitempty"` // with Rate: Rate probes per this window (default 1000)
	SlowOutUs   int    `json:"output_write_delay_us"`
	SlowErrUs   int    `json:"error_sink_delay_us,omitempty"`
	StallAtLine int    `json:"output_stalls_at_line"`
	StallMs     int    `json:"output_stall_ms"`
	ExitDelayMs int    `json:"exit_delay_ms"`
	DupPermille int    `json:"repeated_target_line_permille"`
	Seed        uint64 `json:"seed"`
}

type genericRig struct {
	mult    map[uint32]int // how many times each valid target is listed (a repeated line is probed and reported again)
	clock   *rigClock
	scanner *recScanner
	out     *recOut
	logger  *recLogger
	spy     *engineSpy
	engine  *scan.GenericEngine
	opts    *genericScanCmdOpts
	conf    *engineConfig
	ids     []uint32 // ids of the valid target lines, file order
	nBad    int
	file    string
}

// rigTargetFile writes a JSONL ip/port file with n entries; entries selected by
// badPermille are unparsable addresses (-> one ErrIP each, processing continues).
// rigDupPermille is set by the C08 rig around its call (tests of one process run sequentially).
var rigDupPermille int

func rigTargetFile(dir string, n int, seed uint64, badPermille int) (path string, ids []uint32, nBad int) {
	var buf bytes.Buffer
	for i := 1; i <= n; i++ {
		id := uint32(0x0a000000) + uint32(i)
		if badPermille > 0 && int(rigHash(seed, uint32(i), 21)%1000) < badPermille {
			fmt.Fprintf(&buf, "{\"ip\":\"10.0.0.%d.9\",\"port\":%d}\n", i, 1+i%65535)
			nBad++
			continue
		}
		fmt.Fprintf(&buf, "{\"ip\":\"%s\",\"port\":%d}\n", oracle.IPString(oracle.U32ToIP(id)), 1+i%65535)
		ids = append(ids, id)
		if rigDupPermille > 0 && int(rigHash(seed, uint32(i), 22)%1000) < rigDupPermille {
			// the same pair listed again: the specification denotes it twice
			fmt.Fprintf(&buf, "{\"ip\":\"%s\",\"port\":%d}\n", oracle.IPString(oracle.U32ToIP(id)), 1+i%65535)
			ids = append(ids, id)
		}
	}
	path = filepath.Join(dir, fmt.Sprintf("targets-%x.jsonl", seed))
	if err := os.WriteFile(path, buf.Bytes(), 0o644); err != nil {
		panic(err)
	}
	return
}

func newGenericRig(ctx context.Context, dir string, c c08case) *genericRig {
	g := &genericRig{clock: &rigClock{}}
	rigDupPermille = c.DupPermille
	g.file, g.ids, g.nBad = rigTargetFile(dir, c.N, c.Seed, c.BadPermille)
	rigDupPermille = 0
	g.mult = map[uint32]int{}
	for _, id := range g.ids {
		g.mult[id]++
	}
	g.scanner = newRecScanner(c.Seed, c.PosPermille, c.ErrPermille, time.Duration(c.LatencyUs)*time.Microsecond, g.clock)
	g.out = &recOut{clock: g.clock, delay: time.Duration(c.SlowOutUs) * time.Microsecond, stallAt: c.StallAtLine, stallFor: time.Duration(c.StallMs) * time.Millisecond}
	g.opts = &genericScanCmdOpts{ipFile: g.file, workers: c.Workers, json: true}
	// the logger the socks/docker/elastic commands build for themselves
	real, err := g.opts.getLogger("rig", g.out)
	if err != nil {
		panic(err)
	}
	g.logger = &recLogger{inner: real, clock: g.clock, slowErr: time.Duration(c.SlowErrUs) * time.Microsecond}
	if c.Rate > 0 {
		g.opts.rateCount, g.opts.rateWindow = c.Rate, time.Second
		if c.RateWindowMs > 0 {
			g.opts.rateWindow = time.Duration(c.RateWindowMs) * time.Millisecond
		}
	}
	g.engine = g.opts.newScanEngine(ctx, g.scanner)
	g.spy = newEngineSpy(g.engine, g.clock, func() int32 { return g.scanner.inflight })
	g.conf = newEngineConfig(withLogger(g.logger), withScanRange(&scan.Range{}), withExitDelay(time.Duration(c.ExitDelayMs)*time.Millisecond))
	return g
}

type rigLine struct {
	Scan string `json:"scan"`
	ID   uint32 `json:"id"`
	Pad  string `json:"pad"`
}

// parseLines checks that every Write the output received is exactly one complete JSON line.
func parseLines(run *vlab.Run, prop string, writes [][]byte, c interface{}) (ids []uint32) {
	for i, w := range writes {
		if len(w) == 0 || w[len(w)-1] != '\n' || bytes.Count(w, []byte{'\n'}) != 1 {
			run.Violation("output-not-one-line", fmt.Sprintf("%s: output write #%d is not exactly one newline-terminated line: %q", prop, i, truncate(w, 200)), c)
			continue
		}
		var l rigLine
		dec := json.NewDecoder(bytes.NewReader(w))
		dec.DisallowUnknownFields()
		if err := dec.Decode(&l); err != nil || l.Scan != "rig" {
			run.Violation("output-incomplete-record", fmt.Sprintf("%s: output write #%d is not a complete record: %q (%v)", prop, i, truncate(w, 200), err), c)
			continue
		}
		ids = append(ids, l.ID)
	}
	return
}

func truncate(b []byte, n int) []byte {
	if len(b) > n {
		return b[:n]
	}
	return b
}

func c08run(run *vlab.Run, dir string, c c08case) {
	ctx, cancel := context.WithCancel(context.Background())
	defer cancel()
	g := newGenericRig(ctx, dir, c)
	defer os.Remove(g.file)
	health := startHealth()
	var retT time.Time
	dump, finished, parked := run.Watch(120*time.Second, "v-byte-cpu/sx/", func() {
		_ = startScanEngine(ctx, g.spy, g.conf)
		retT = time.Now()
	})
	stall := health.end()
	run.Eval(1)
	if !finished {
		if parked {
			run.Violation("scan-parked", fmt.Sprintf("startScanEngine did not return; all sx goroutines parked: %+v", c), map[string]interface{}{"case": c, "stacks": dump})
		} else {
			run.Inconclusive(fmt.Sprintf("scan still running after 120 s: %+v", c))
		}
		return
	}
	sc := g.scanner
	sc.mu.Lock()
	defer sc.mu.Unlock()
	// ---- each valid target probed exactly once
	for id, m := range g.mult {
		if n := sc.calls[id]; n != m {
			key := "target-probed-twice"
			if n < m {
				key = "target-not-probed"
			}
			run.Violation(key, fmt.Sprintf("target %s probed %d times (listed %d times; %d target lines, %d workers): %+v", oracle.IPString(oracle.U32ToIP(id)), n, m, len(g.ids), c.Workers, c), c)
		}
	}
	if len(sc.calls) > len(g.mult) {
		run.Violation("probe-extra", fmt.Sprintf("%d distinct destinations probed but only %d targets specified: %+v", len(sc.calls), len(g.ids), c), c)
	}
	// ---- completion after all probes finished
	if g.spy.inflightAt != 0 {
		run.Violation("done-while-probing", fmt.Sprintf("completion signalled while %d probes were still in flight: %+v", g.spy.inflightAt, c), c)
	}
	for _, s := range sc.endSeq {
		if s > g.spy.doneSeq {
			run.Violation("done-while-probing", fmt.Sprintf("a probe finished (logical time %d) after completion was signalled (%d): %+v", s, g.spy.doneSeq, c), c)
			break
		}
	}
	// ---- output: one line per positive
	lines := parseLines(run, "C08", g.out.snapshot(), c)
	lineN := map[uint32]int{}
	for _, id := range lines {
		lineN[id]++
	}
	npos := 0
	missing := 0
	for id, out := range sc.outcome {
		if out == outPositive {
			npos++
			switch n, m := lineN[id], g.mult[id]; {
			case n > m:
				run.Violation("result-duplicated", fmt.Sprintf("detected service %s printed %d times (probed %d times): %+v", oracle.IPString(oracle.U32ToIP(id)), n, m, c), c)
			case n < m:
				missing += m - n
				if n > 0 {
					run.Count("repeated_target_printed_less_often_than_probed", 1)
				}
			}
		} else if lineN[id] > 0 {
			run.Violation("result-phantom", fmt.Sprintf("a record was printed for %s whose probe did not detect anything: %+v", oracle.IPString(oracle.U32ToIP(id)), c), c)
		}
	}
	if missing > 0 {
		switch {
		case c.SlowOutUs > 0 || c.ExitDelayMs < 300:
			run.Count("lines_not_printed_slow_output_dontcare", int64(missing))
		case stall > 50*time.Millisecond:
			run.Inconclusive(fmt.Sprintf("%d results not printed but the monitor itself was stalled for %v during the run", missing, stall))
		default:
			run.Violation("result-lost", fmt.Sprintf("%d of %d detected services were never printed although the exit delay was %d ms and the output was never slow: %+v", missing, npos, c.ExitDelayMs, c), c)
		}
	}
	// ---- errors: one record per failed probe and per bad target line
	errs := g.logger.snapshot()
	errN := map[error]int{}
	nBadSeen := 0
	for _, e := range errs {
		if e == scan.ErrIP {
			nBadSeen++
			continue
		}
		errN[e]++
	}
	for _, e := range sc.allErrs {
		switch n := errN[e]; {
		case n == 0:
			run.Violation("probe-error-lost", fmt.Sprintf("a failed probe (%v) produced no error record (%d failed probes, %d error records): %+v", e, len(sc.allErrs), len(errs), c), c)
		case n > 1:
			run.Violation("probe-error-duplicated", fmt.Sprintf("a failed probe (%v) produced %d error records: %+v", e, n, c), c)
		}
		delete(errN, e)
	}
	for e, n := range errN {
		run.Violation("error-spurious", fmt.Sprintf("error record %q (x%d) corresponds to no failed probe: %+v", e.Error(), n, c), c)
	}
	if nBadSeen != g.nBad {
		run.Violation("bad-target-error-count", fmt.Sprintf("%d unparsable target lines but %d 'invalid ip' error records: %+v", g.nBad, nBadSeen, c), c)
	}
	// ---- exit delay lower bound (same clock, cannot be early by scheduling)
	if d := retT.Sub(g.spy.doneT); d < time.Duration(c.ExitDelayMs)*time.Millisecond-2*time.Millisecond {
		run.Violation("exit-before-delay", fmt.Sprintf("scan returned %v after completion; exit delay is %d ms: %+v", d, c.ExitDelayMs, c), c)
	}
	run.Count("probes", int64(len(sc.startSeq)))
	run.Count("positive_results", int64(npos))
	run.Count("lines_printed", int64(len(lines)))
	run.Count("probe_errors", int64(len(sc.allErrs)))
	run.Count("repeated_target_lines", int64(len(g.ids)-len(g.mult)))
	run.Count("error_records", int64(len(errs)))
	run.Max("max_parallel_probes", int64(sc.maxInflight))
	run.Max("max_monitor_stall_us", int64(stall/time.Microsecond))
}

func c08cases(run *vlab.Run) []c08case {
	rng := run.Rand("cases")
	var cases []c08case
	workers := []int{1, 2, 7, 100, 1000}
	sizes := []int{0, 1, 99, 100, 101, 1000, 2001, 5000}
	n := run.Pick(300, 6000)
	for i := 0; i < n; i++ {
		c := c08case{N: sizes[rng.Intn(len(sizes))], Workers: workers[rng.Intn(len(workers))], ExitDelayMs: 300, Seed: rng.Uint64()}
		switch rng.Intn(6) {
		case 0:
			c.PosPermille = 1000 // more results than both 1000-slot buffers
		case 1:
			c.ErrPermille = 1000 // more errors than the 100-slot error buffer
		case 2:
			c.PosPermille, c.ErrPermille = 500, 500
		case 3:
			c.PosPermille, c.ErrPermille, c.BadPermille = rng.Intn(400), rng.Intn(400), rng.Intn(300)
		case 4:
			c.PosPermille, c.ErrPermille = rng.Intn(1000), 0
			c.ErrPermille = rng.Intn(1000 - c.PosPermille)
		case 5:
			c.PosPermille = rng.Intn(50)
		}
		if rng.Intn(2) == 0 {
			c.LatencyUs = []int{50, 500, 5000}[rng.Intn(3)]
			if c.Workers < 7 && c.N > 1000 {
				c.LatencyUs = 50
			}
		}
		if rng.Intn(4) == 0 {
			c.Rate = 200000
		}
		if rng.Intn(5) == 0 {
			c.SlowOutUs = 100
		}
		if rng.Intn(6) == 0 {
			c.ExitDelayMs = 300 + rng.Intn(300)
		}
		if c.ErrPermille >= 300 && c.N >= 101 && c.N <= 2001 && rng.Intn(2) == 0 {
			// stderr is slower than the workers: more than 100 failed probes wait for the error sink
			c.SlowErrUs = []int{20, 100, 300}[rng.Intn(3)]
		}
		if rng.Intn(4) == 0 {
			c.DupPermille = []int{50, 300, 1000}[rng.Intn(3)]
		}
		if c.SlowOutUs == 0 && c.PosPermille >= 500 && c.N >= 2001 && rng.Intn(2) == 0 {
			// stdout stalls once for a moment while > 2000 results pile up behind it, then is fast again
			c.StallAtLine, c.StallMs, c.LatencyUs = 1+rng.Intn(50), 20+rng.Intn(40), 0
		}
		cases = append(cases, c)
	}
	// stdout stalls for a moment while far more than the two 1000-slot result buffers pile up behind it
	// (fixed cases: the seeded ones above only sometimes draw this combination)
	for k, w := range []int{7, 100, 1000} {
		cases = append(cases, c08case{N: 5000, Workers: w, PosPermille: 1000, ExitDelayMs: 300, StallAtLine: 3 + 20*k, StallMs: 40 + 10*k, Seed: rng.Uint64()})
		cases = append(cases, c08case{N: 2001, Workers: w, PosPermille: 900, ErrPermille: 100, ExitDelayMs: 300, StallAtLine: 1, StallMs: 60, Seed: rng.Uint64()})
	}
	// an error sink so slow that a full error buffer outlasts the exit delay (100 records x 4-6 ms > 300 ms):
	// the records still queued when the delay is over must be written all the same
	for k := 0; k < 3; k++ {
		cases = append(cases, c08case{N: 130 + 20*k, Workers: []int{7, 100, 1000}[k], ErrPermille: 1000, SlowErrUs: 4000 + 1000*k, ExitDelayMs: 300, Seed: rng.Uint64()})
	}
	// rates slower than one probe per second (e.g. --rate 30/m, --rate 1/2s) with the default and other worker counts
	for _, w := range []int{1, 100} {
		cases = append(cases, c08case{N: 2, Workers: w, PosPermille: 1000, Rate: 1, RateWindowMs: 1500, ExitDelayMs: 300, Seed: rng.Uint64()})
		cases = append(cases, c08case{N: 3, Workers: w, ErrPermille: 1000, Rate: 2, RateWindowMs: 3000, ExitDelayMs: 300, Seed: rng.Uint64()})
	}
	return cases
}

func TestVerifC08(t *testing.T) {
	run := vlab.Begin(t, "C08", "engine")
	defer run.End()
	dir := t.TempDir()
	cells := map[string]bool{}
	for i, c := range c08cases(run) {
		if !run.Mine(i) {
			continue
		}
		run.Case(fmt.Sprintf("case%05d", i), c)
		c08run(run, dir, c)
		if c.N >= 2 && (c.PosPermille > 0 || c.ErrPermille > 0) {
			run.Distinct(fmt.Sprintf("%+v", c))
		}
		cells[fmt.Sprintf("w%d/n%d", c.Workers, c.N)] = true
		if run.WantSample() && c.N >= 100 && c.PosPermille > 0 && c.ErrPermille > 0 {
			run.Sample(c)
		}
	}
	run.Count("workers_x_length_cells", int64(len(cells)))
}
