//go:build verif

package command

// C09 — SOCKS5 probe: reported iff the server answers 05 00; always time-bounded.
//
// The real socks5.Scanner is run (inside a private network namespace) against scripted
// loopback servers that record the bytes they received and, from the server side, how long the
// connection lived.
//
//	decision: every one of the 65536 two-byte replies (delivered at once; the 511 with a 05 first
//	          byte or a 00 second byte also split 1+1 with a pause) -> record iff 05 00, record
//	          carries the probed address and port, the greeting received is exactly 05 01 00
//	faults:   every server behaviour of the table at each protocol step x timeout settings:
//	          the probe must end within dial + 3 x data timeout + slack with no record (except
//	          where the first two bytes are 05 00), and within slack after a cancellation
//	wired:    the socks command's own engine (-t drives both timeouts) through startScanEngine

import (
	"context"
	"encoding/json"
	"fmt"
	"io"
	"net"
	"os/exec"
	"strings"
	"sync"
	"sync/atomic"
	"testing"
	"time"

	"github.com/v-byte-cpu/sx/command/log"
	"github.com/v-byte-cpu/sx/pkg/scan"
	"github.com/v-byte-cpu/sx/pkg/scan/socks5"
	"verif.local/v/vlab"
)

func netnsUp(t *testing.T) bool {
	if out, err := exec.Command("ip", "link", "set", "lo", "up").CombinedOutput(); err != nil {
		t.Logf("cannot bring up lo (not in a private network namespace?): %v %s", err, out)
		return false
	}
	return true
}

// blackhole: a route into a tun device nobody reads: SYNs vanish, connect() stalls.
func blackholeUp() (string, bool) {
	for _, a := range [][]string{{"ip", "tuntap", "add", "dev", "bh0", "mode", "tun"}, {"ip", "addr", "add", "10.99.0.1/24", "dev", "bh0"}, {"ip", "link", "set", "bh0", "up"}} {
		if err := exec.Command(a[0], a[1:]...).Run(); err != nil {
			return "", false
		}
	}
	return "10.99.0.2", true
}

// ---- scripted server

type c09step struct {
	Op    string `json:"op"` // read | send | sleep | close | rst | hold | flood
	Bytes []byte `json:"bytes,omitempty"`
	Ms    int    `json:"ms,omitempty"`
	N     int    `json:"n,omitempty"`
}

type c09conn struct {
	got      []byte
	accepted time.Time
	ended    time.Time
}

type c09server struct {
	ln      net.Listener
	port    int
	script  func(remote string) []c09step // per connection
	mu      sync.Mutex
	conns   []*c09conn
	stopped int32
	wg      sync.WaitGroup
}

func newC09Server(script func(remote string) []c09step) *c09server {
	ln, err := net.Listen("tcp4", "0.0.0.0:0")
	if err != nil {
		panic(err)
	}
	s := &c09server{ln: ln, port: ln.Addr().(*net.TCPAddr).Port, script: script}
	go func() {
		for {
			c, err := ln.Accept()
			if err != nil {
				return
			}
			s.wg.Add(1)
			go s.serve(c.(*net.TCPConn))
		}
	}()
	return s
}

func (s *c09server) serve(c *net.TCPConn) {
	defer s.wg.Done()
	rec := &c09conn{accepted: time.Now()}
	s.mu.Lock()
	s.conns = append(s.conns, rec)
	s.mu.Unlock()
	defer func() {
		s.mu.Lock()
		rec.ended = time.Now()
		s.mu.Unlock()
	}()
	readSome := func(n int, d time.Duration) {
		buf := make([]byte, n)
		c.SetReadDeadline(time.Now().Add(d))
		k, _ := io.ReadFull(c, buf)
		s.mu.Lock()
		rec.got = append(rec.got, buf[:k]...)
		s.mu.Unlock()
	}
	for _, st := range s.script(c.RemoteAddr().String()) {
		switch st.Op {
		case "read":
			readSome(st.N, 3*time.Second)
		case "send":
			c.SetWriteDeadline(time.Now().Add(3 * time.Second))
			c.Write(st.Bytes)
		case "sleep":
			time.Sleep(time.Duration(st.Ms) * time.Millisecond)
		case "close":
			c.Close()
			return
		case "rst":
			c.SetLinger(0)
			c.Close()
			return
		case "flood":
			buf := make([]byte, 64<<10)
			copy(buf, st.Bytes)
			c.SetWriteDeadline(time.Now().Add(10 * time.Second))
			for sent := 0; sent < st.N; sent += len(buf) {
				if _, err := c.Write(buf); err != nil {
					break
				}
				for i := range buf[:len(st.Bytes)] {
					buf[i] = 0xee
				}
			}
		case "trickle": // one byte every Ms until the client goes away (or 20 s)
			for t0 := time.Now(); time.Since(t0) < 20*time.Second; {
				c.SetWriteDeadline(time.Now().Add(time.Second))
				if _, err := c.Write([]byte{0x2e}); err != nil {
					break
				}
				time.Sleep(time.Duration(st.Ms) * time.Millisecond)
			}
			c.Close()
			return
		case "hold": // until the client goes away (or 20 s)
			c.SetReadDeadline(time.Now().Add(20 * time.Second))
			buf := make([]byte, 4096)
			for {
				k, err := c.Read(buf)
				s.mu.Lock()
				if len(rec.got) < 64 {
					rec.got = append(rec.got, buf[:k]...)
				}
				s.mu.Unlock()
				if err != nil {
					break
				}
			}
			c.Close()
			return
		}
	}
	// drain what the client still sends, then close
	readSome(16, 200*time.Millisecond)
	c.Close()
}

func (s *c09server) close() {
	atomic.StoreInt32(&s.stopped, 1)
	s.ln.Close()
}

func (s *c09server) snapshot() []c09conn {
	s.mu.Lock()
	defer s.mu.Unlock()
	out := make([]c09conn, len(s.conns))
	for i, c := range s.conns {
		out[i] = *c
		out[i].got = append([]byte(nil), c.got...)
	}
	return out
}

func c09req(ip string, port int) *scan.Request {
	return &scan.Request{DstIP: net.ParseIP(ip).To4(), DstPort: uint16(port)}
}

// ---- decision

func TestVerifC09Decision(t *testing.T) {
	run := vlab.Begin(t, "C09", "decision")
	defer run.End()
	if !netnsUp(t) {
		run.Inconclusive("no private network namespace")
		return
	}
	type job struct {
		reply [2]byte
		split bool
	}
	var jobs []job
	for v := 0; v < 65536; v++ {
		jobs = append(jobs, job{[2]byte{byte(v >> 8), byte(v)}, false})
	}
	for v := 0; v < 65536; v++ {
		b0, b1 := byte(v>>8), byte(v)
		if b0 == 5 || b1 == 0 || run.Thorough() && v%8 == 3 {
			jobs = append(jobs, job{[2]byte{b0, b1}, true})
		}
	}
	var mine []job
	for i, j := range jobs {
		if run.Mine(i) {
			mine = append(mine, j)
		}
	}
	sem := make(chan struct{}, 24)
	var wg sync.WaitGroup
	var nPos, nNeg, nSplit int64
	for i, j := range mine {
		i, j := i, j
		wg.Add(1)
		sem <- struct{}{}
		go func() {
			defer wg.Done()
			defer func() { <-sem }()
			// a distinct destination address per probe: the record must carry it
			dst := fmt.Sprintf("127.%d.%d.%d", 1+i%3, j.reply[0], j.reply[1])
			sc := socks5.NewScanner(socks5.WithDialTimeout(2*time.Second), socks5.WithDataTimeout(2*time.Second))
			// one tiny scripted server per probe
			ps := newC09Server(func(string) []c09step {
				if j.split {
					return []c09step{{Op: "read", N: 3}, {Op: "send", Bytes: []byte{j.reply[0]}}, {Op: "sleep", Ms: 15}, {Op: "send", Bytes: []byte{j.reply[1]}}}
				}
				return []c09step{{Op: "read", N: 3}, {Op: "send", Bytes: []byte{j.reply[0], j.reply[1]}}}
			})
			defer ps.close()
			t0 := time.Now()
			res, err := sc.Scan(context.Background(), c09req(dst, ps.port))
			dur := time.Since(t0)
			ps.wg.Wait()
			conns := ps.snapshot()
			run.Eval(1)
			w := map[string]interface{}{"reply": fmt.Sprintf("%02x %02x", j.reply[0], j.reply[1]), "split_in_two_segments": j.split, "target": fmt.Sprintf("%s:%d", dst, ps.port), "error": fmt.Sprint(err)}
			want := j.reply == [2]byte{5, 0}
			switch {
			case want && res == nil:
				run.Violation("decision:proxy-not-reported", fmt.Sprintf("server answered 05 00 (split=%v) but no record (err %v)", j.split, err), w)
			case !want && res != nil:
				run.Violation("decision:false-proxy", fmt.Sprintf("server answered %02x %02x (split=%v) but was reported as a SOCKS5 proxy: %v", j.reply[0], j.reply[1], j.split, res), w)
			case res != nil:
				b, _ := res.MarshalJSON()
				var m struct {
					IP   string `json:"ip"`
					Port int    `json:"port"`
				}
				json.Unmarshal(b, &m)
				if m.IP != dst || m.Port != ps.port {
					run.Violation("decision:record-fields", fmt.Sprintf("record %s does not carry the probed target %s:%d", b, dst, ps.port), w)
				}
				atomic.AddInt64(&nPos, 1)
			default:
				atomic.AddInt64(&nNeg, 1)
			}
			// (for a reply other than 05 00 the statement allows "nothing or an error": not judged)
			if len(conns) != 1 || string(conns[0].got) != "\x05\x01\x00" {
				got := "no connection"
				if len(conns) > 0 {
					got = fmt.Sprintf("%x", conns[0].got)
				}
				// a server that read NOTHING from a probe that itself failed (timed out) is what a starved machine
				// looks like: the greeting is then judged on a second probe against a fresh server, with time to spare
				if len(conns) == 1 && len(conns[0].got) == 0 && err != nil {
					ps2 := newC09Server(func(string) []c09step {
						return []c09step{{Op: "read", N: 3}, {Op: "send", Bytes: []byte{j.reply[0], j.reply[1]}}}
					})
					sc2 := socks5.NewScanner(socks5.WithDialTimeout(20*time.Second), socks5.WithDataTimeout(20*time.Second))
					sc2.Scan(context.Background(), c09req(dst, ps2.port))
					ps2.wg.Wait()
					c2 := ps2.snapshot()
					ps2.close()
					run.Count("greeting_rejudged_on_a_second_probe", 1)
					if len(c2) == 1 && string(c2[0].got) == "\x05\x01\x00" {
						got = ""
					} else if len(c2) > 0 {
						got = fmt.Sprintf("%x (and %x on a second probe)", conns[0].got, c2[0].got)
					}
				}
				if got != "" {
					run.Violation("decision:greeting", fmt.Sprintf("%d connections; the server received %s, the RFC 1928 greeting is 05 01 00", len(conns), got), w)
				}
			}
			if dur > 3*time.Second {
				run.Inconclusive(fmt.Sprintf("a trivially answered probe took %v", dur))
			}
			if j.split {
				atomic.AddInt64(&nSplit, 1)
			}
		}()
	}
	wg.Wait()
	run.Count("replies_checked", int64(len(mine)))
	run.Count("replies_split", nSplit)
	run.Count("proxies_reported", nPos)
	run.Count("non_proxies", nNeg)
	run.DistinctN(len(mine))
	run.Sample(map[string]interface{}{"reply": "05 00", "record_expected": true})
}

// ---- faults

type c09fault struct {
	Name    string    `json:"server_behaviour"`
	Steps   []c09step `json:"script"`
	Want    bool      `json:"record_expected"`
	Connect string    `json:"connect,omitempty"` // "", refused, blackhole
}

func c09faults() []c09fault {
	g := c09step{Op: "read", N: 3}
	junk := make([]byte, 300)
	for i := range junk {
		junk[i] = byte(i*7 + 1)
	}
	return []c09fault{
		{Name: "connection refused", Connect: "refused"},
		{Name: "never accepts (SYN unanswered)", Connect: "blackhole"},
		{Name: "accept and stall", Steps: []c09step{{Op: "hold"}}},
		{Name: "read greeting then stall", Steps: []c09step{g, {Op: "hold"}}},
		{Name: "one byte 05 then stall", Steps: []c09step{g, {Op: "send", Bytes: []byte{5}}, {Op: "hold"}}},
		{Name: "one byte 05 then close", Steps: []c09step{g, {Op: "send", Bytes: []byte{5}}, {Op: "close"}}},
		{Name: "one byte 05 then RST", Steps: []c09step{g, {Op: "send", Bytes: []byte{5}}, {Op: "sleep", Ms: 5}, {Op: "rst"}}},
		{Name: "one byte 00 then stall", Steps: []c09step{g, {Op: "send", Bytes: []byte{0}}, {Op: "hold"}}},
		{Name: "close before reading", Steps: []c09step{{Op: "close"}}},
		{Name: "close after greeting", Steps: []c09step{g, {Op: "close"}}},
		{Name: "RST on accept", Steps: []c09step{{Op: "rst"}}},
		{Name: "RST after greeting", Steps: []c09step{g, {Op: "rst"}}},
		{Name: "flood of garbage without reading", Steps: []c09step{{Op: "flood", N: 1 << 20, Bytes: []byte{0x48, 0x54}}, {Op: "hold"}}},
		{Name: "flood starting 05 00", Steps: []c09step{g, {Op: "flood", N: 1 << 20, Bytes: []byte{5, 0}}, {Op: "hold"}}, Want: true},
		{Name: "flood starting 05 ff", Steps: []c09step{g, {Op: "flood", N: 1 << 20, Bytes: []byte{5, 0xff}}, {Op: "hold"}}},
		{Name: "05 00 then garbage", Steps: []c09step{g, {Op: "send", Bytes: append([]byte{5, 0}, junk...)}}, Want: true},
		{Name: "05 00 before the greeting is read", Steps: []c09step{{Op: "send", Bytes: []byte{5, 0}}, g}, Want: true},
		{Name: "05 00 then close", Steps: []c09step{g, {Op: "send", Bytes: []byte{5, 0}}, {Op: "close"}}, Want: true},
		{Name: "05 00 then RST a moment later", Steps: []c09step{g, {Op: "send", Bytes: []byte{5, 0}}, {Op: "sleep", Ms: 30}, {Op: "rst"}}, Want: true},
		{Name: "05 00 then an endless trickle (a byte every 20 ms)", Steps: []c09step{g, {Op: "send", Bytes: []byte{5, 0}}, {Op: "trickle", Ms: 20}}, Want: true},
		{Name: "05 ff then an endless trickle", Steps: []c09step{g, {Op: "send", Bytes: []byte{5, 0xff}}, {Op: "trickle", Ms: 20}}},
		{Name: "endless trickle instead of a reply", Steps: []c09step{g, {Op: "sleep", Ms: 10}, {Op: "trickle", Ms: 30}}},
		{Name: "05 00 then an endless flood", Steps: []c09step{g, {Op: "send", Bytes: []byte{5, 0}}, {Op: "flood", N: 1 << 30, Bytes: []byte{1}}}, Want: true},
		{Name: "04 5a (SOCKS4 grant)", Steps: []c09step{g, {Op: "send", Bytes: []byte{4, 0x5a}}}},
		{Name: "05 02 (auth required)", Steps: []c09step{g, {Op: "send", Bytes: []byte{5, 2}}}},
		{Name: "05 ff (no acceptable method)", Steps: []c09step{g, {Op: "send", Bytes: []byte{5, 0xff}}}},
		{Name: "HTTP banner", Steps: []c09step{g, {Op: "send", Bytes: []byte("HTTP/1.1 400 Bad Request\r\n\r\n")}}},
		{Name: "SSH banner before greeting", Steps: []c09step{{Op: "send", Bytes: []byte("SSH-2.0-OpenSSH_8.9\r\n")}, {Op: "hold"}}},
		{Name: "00 05 (swapped)", Steps: []c09step{g, {Op: "send", Bytes: []byte{0, 5}}}},
	}
}

func TestVerifC09Faults(t *testing.T) {
	run := vlab.Begin(t, "C09", "faults")
	defer run.End()
	if !netnsUp(t) {
		run.Inconclusive("no private network namespace")
		return
	}
	bhAddr, bhOK := blackholeUp()
	rng := run.Rand("faults")
	type tcase struct {
		F        c09fault `json:"fault"`
		DialMs   int      `json:"dial_timeout_ms"`
		DataMs   int      `json:"data_timeout_ms"`
		SlowMs   int      `json:"second_byte_after_ms,omitempty"`
		CancelMs int      `json:"cancel_after_ms,omitempty"`
	}
	var cases []tcase
	reps := run.Pick(1, 6)
	for r := 0; r < reps; r++ {
		for _, f := range c09faults() {
			for _, tm := range [][2]int{{50, 50}, {100, 300}, {300, 100}, {200, 200}} {
				cases = append(cases, tcase{F: f, DialMs: tm[0], DataMs: tm[1]})
			}
			// a data timeout of zero (the flag accepts it): every wait for the server times out at once - it is not "no time limit"
			if r == 0 && (f.Name == "accept and stall" || f.Name == "one byte 05 then stall") {
				cases = append(cases, tcase{F: f, DialMs: 200, DataMs: 0})
			}
			// a data timeout larger than the slack: one data timeout too many exceeds the bound
			if r == 0 && (f.Name == "accept and stall" || f.Name == "read greeting then stall" || f.Name == "one byte 05 then stall" || f.Name == "one byte 00 then stall") {
				cases = append(cases, tcase{F: f, DialMs: 200, DataMs: 3000})
			}
			// cancellation while the server behaviour is in progress
			cases = append(cases, tcase{F: f, DialMs: 3000, DataMs: 3000, CancelMs: 20 + rng.Intn(60)})
		}
		// the two halves of the reply arrive well inside / far outside the data timeout
		for _, rep := range [][2]byte{{5, 0}, {5, 1}, {0, 0}} {
			for _, dataMs := range []int{100, 300} {
				in := c09fault{Name: fmt.Sprintf("%02x, pause %d%% of the data timeout, %02x", rep[0], 40, rep[1]), Want: rep == [2]byte{5, 0},
					Steps: []c09step{{Op: "read", N: 3}, {Op: "send", Bytes: []byte{rep[0]}}, {Op: "sleep", Ms: dataMs * 4 / 10}, {Op: "send", Bytes: []byte{rep[1]}}}}
				cases = append(cases, tcase{F: in, DialMs: 200, DataMs: dataMs, SlowMs: dataMs * 4 / 10})
				if r == 0 && dataMs == 300 {
					// the connect timeout is about connecting: a reply that completes long after it (but with every
					// read inside the data timeout) is still a reply
					slow := c09fault{Name: fmt.Sprintf("%02x %02x after 3x the connect timeout (well inside the data timeout)", rep[0], rep[1]), Want: rep == [2]byte{5, 0},
						Steps: []c09step{{Op: "read", N: 3}, {Op: "sleep", Ms: 300}, {Op: "send", Bytes: []byte{rep[0]}}, {Op: "sleep", Ms: 300}, {Op: "send", Bytes: []byte{rep[1]}}}}
					cases = append(cases, tcase{F: slow, DialMs: 100, DataMs: 2500, SlowMs: 600})
				}
				out := c09fault{Name: fmt.Sprintf("%02x, pause 3x the data timeout, %02x", rep[0], rep[1]),
					Steps: []c09step{{Op: "read", N: 3}, {Op: "send", Bytes: []byte{rep[0]}}, {Op: "sleep", Ms: dataMs * 3}, {Op: "send", Bytes: []byte{rep[1]}}}}
				cases = append(cases, tcase{F: out, DialMs: 200, DataMs: dataMs, SlowMs: dataMs * 3})
			}
		}
	}
	const slack = 2 * time.Second
	sem := make(chan struct{}, 6)
	var wg sync.WaitGroup
	for i, c := range cases {
		if !run.Mine(i) {
			continue
		}
		if c.F.Connect == "blackhole" && !bhOK {
			continue
		}
		i, c := i, c
		wg.Add(1)
		sem <- struct{}{}
		go func() {
			defer wg.Done()
			defer func() { <-sem }()
			run.Case(fmt.Sprintf("fault%04d", i), c)
			srv := newC09Server(func(string) []c09step { return c.F.Steps })
			defer srv.close()
			ip, port := fmt.Sprintf("127.0.%d.%d", 1+i%200, 1+i%250), srv.port
			switch c.F.Connect {
			case "refused":
				srv.close()
			case "blackhole":
				ip = bhAddr
			}
			sc := socks5.NewScanner(socks5.WithDialTimeout(time.Duration(c.DialMs)*time.Millisecond), socks5.WithDataTimeout(time.Duration(c.DataMs)*time.Millisecond))
			ctx, cancel := context.WithCancel(context.Background())
			defer cancel()
			var cancelNs int64
			if c.CancelMs > 0 {
				go func() {
					time.Sleep(time.Duration(c.CancelMs) * time.Millisecond)
					atomic.StoreInt64(&cancelNs, time.Now().UnixNano())
					cancel()
				}()
			}
			health := startHealth()
			var res scan.Result
			var err error
			var retT time.Time
			t0 := time.Now()
			dump, finished, parked := run.Watch(30*time.Second, "v-byte-cpu/sx/", func() {
				res, err = sc.Scan(ctx, c09req(ip, port))
				retT = time.Now()
			})
			stall := health.end()
			run.Eval(1)
			if !finished {
				if parked {
					run.Violation("faults:probe-never-ends:"+c.F.Name, fmt.Sprintf("the probe did not finish (server behaviour %q, dial %d ms, data %d ms): parked", c.F.Name, c.DialMs, c.DataMs), map[string]interface{}{"case": c, "stacks": dump})
				} else {
					run.Inconclusive(fmt.Sprintf("probe still running after 30 s: %+v", c))
				}
				return
			}
			dur := retT.Sub(t0)
			bound := time.Duration(c.DialMs)*time.Millisecond + 3*time.Duration(c.DataMs)*time.Millisecond + slack
			noisy := stall > 300*time.Millisecond
			if c.CancelMs > 0 {
				// cancellation: ends promptly after the cancel, reports nothing unless it had already decided
				cancelAt := time.Unix(0, atomic.LoadInt64(&cancelNs))
				if late := retT.Sub(cancelAt); atomic.LoadInt64(&cancelNs) != 0 && late > slack {
					if noisy {
						run.Inconclusive(fmt.Sprintf("slow return after cancel but the monitor stalled %v", stall))
					} else {
						run.Violation("faults:slow-after-cancel:"+c.F.Name, fmt.Sprintf("the probe returned %v after the scan was cancelled (server behaviour %q)", late, c.F.Name), c)
					}
				}
				if res != nil && !c.F.Want {
					run.Violation("faults:false-proxy:"+c.F.Name, fmt.Sprintf("server behaviour %q reported as a SOCKS5 proxy", c.F.Name), c)
				}
				run.Count("cancellations_checked", 1)
				return
			}
			if dur > bound {
				if noisy {
					run.Inconclusive(fmt.Sprintf("probe took %v but the monitor stalled %v", dur, stall))
				} else {
					run.Violation("faults:time-bound:"+c.F.Name, fmt.Sprintf("the probe took %v against server behaviour %q; connect timeout %d ms + 3 x data timeout %d ms + %v slack = %v", dur, c.F.Name, c.DialMs, c.DataMs, slack, bound), c)
				}
			}
			switch {
			case c.F.Want && res == nil && func() bool {
				// an upper bound for the probe (it must get its answer inside its own timeouts): re-probe a fresh
				// server with 4x and 16x the timeouts before judging; a wrong decision rule fails at every scale
				for _, scale := range []int{4, 16} {
					// the server's own pauses scale with the timeouts: what is judged is the shape of the exchange
					// relative to the timeouts, not the absolute speed of this machine
					scaled := make([]c09step, len(c.F.Steps))
					copy(scaled, c.F.Steps)
					for k := range scaled {
						if scaled[k].Op == "sleep" {
							scaled[k].Ms *= scale
						}
					}
					srv2 := newC09Server(func(string) []c09step { return scaled })
					sc2 := socks5.NewScanner(socks5.WithDialTimeout(time.Duration(c.DialMs*scale)*time.Millisecond), socks5.WithDataTimeout(time.Duration(c.DataMs*scale)*time.Millisecond))
					r2, _ := sc2.Scan(context.Background(), c09req(fmt.Sprintf("127.1.%d.%d", 1+i%200, 1+i%250), srv2.port))
					srv2.close()
					if r2 != nil {
						run.Count("positive_cases_confirmed_on_retry", 1)
						return true
					}
				}
				return false
			}():
				// reported once the probe was given more time
			case c.F.Want && res == nil:
				run.Violation("faults:proxy-not-reported:"+c.F.Name, fmt.Sprintf("the first two bytes of the answer are 05 00 (%q) but nothing was reported (err %v)", c.F.Name, err), c)
			case !c.F.Want && res != nil:
				run.Violation("faults:false-proxy:"+c.F.Name, fmt.Sprintf("server behaviour %q reported as a SOCKS5 proxy: %v", c.F.Name, res), c)
			}
			run.Count("fault_cases_checked", 1)
			run.Count("fault:"+c.F.Name, 1)
			run.Max("max_probe_ms", dur.Milliseconds())
			run.Distinct(fmt.Sprintf("%s/%d/%d/%d", c.F.Name, c.DialMs, c.DataMs, c.CancelMs))
			if run.WantSample() && !c.F.Want && err != nil {
				run.Sample(map[string]interface{}{"server_behaviour": c.F.Name, "dial_ms": c.DialMs, "data_ms": c.DataMs, "probe_ms": dur.Milliseconds(), "error": err.Error()})
			}
		}()
	}
	wg.Wait()
	// ---- histories: a probe's verdict must not depend on what an earlier probe of the same process saw
	// (state kept between probes: pooled reply structs, reused buffers). On one goroutine, each negative
	// server behaviour is probed right after a real proxy was found, and a proxy right after each negative.
	if run.Batch() == 0 {
		proxy := []c09step{{Op: "read", N: 3}, {Op: "send", Bytes: []byte{5, 0}}}
		sc := socks5.NewScanner(socks5.WithDialTimeout(300*time.Millisecond), socks5.WithDataTimeout(300*time.Millisecond))
		probe := func(steps []c09step, ip string) scan.Result {
			srv := newC09Server(func(string) []c09step { return steps })
			defer srv.close()
			res, _ := sc.Scan(context.Background(), c09req(ip, srv.port))
			return res
		}
		k := 0
		for rep := 0; rep < 3; rep++ {
			for _, f := range c09faults() {
				if f.Want || f.Connect != "" {
					continue
				}
				quick := true
				for _, st := range f.Steps {
					if st.Op == "hold" || st.Op == "trickle" || st.Op == "flood" {
						quick = false // time-outs are the subject of the cases above
					}
				}
				if !quick {
					continue
				}
				k++
				ip := fmt.Sprintf("127.2.%d.%d", 1+k%200, 1+k%250)
				run.Case(fmt.Sprintf("history%03d", k), map[string]interface{}{"after_a_proxy": f.Name})
				pos := probe(proxy, ip)
				neg := probe(f.Steps, ip)
				run.Eval(2)
				if pos == nil {
					// upper bound for the probe: only counted
					run.Count("history_proxy_not_found_in_300ms", 1)
					continue
				}
				if neg != nil {
					run.Violation("faults:false-proxy-after-proxy:"+f.Name, fmt.Sprintf("server behaviour %q is reported as a SOCKS5 proxy when it is probed right after a real proxy was found: %v", f.Name, neg), f)
				}
				run.Count("history_pairs_checked", 1)
			}
		}
	}
}

// ---- wired

func TestVerifC09Wired(t *testing.T) {
	run := vlab.Begin(t, "C09", "wired")
	defer run.End()
	if !netnsUp(t) {
		run.Inconclusive("no private network namespace")
		return
	}
	rng := run.Rand("wired")
	n := run.Pick(16, 120)
	for i := 0; i < n; i++ {
		if !run.Mine(i) {
			continue
		}
		// a population of servers on distinct ports; a file of ip/port pairs over several 127.x addresses
		type host struct {
			srv  *c09server
			want bool
			ip   string
		}
		var hosts []host
		faults := c09faults()
		var file strings.Builder
		nh := 3 + rng.Intn(10)
		for k := 0; k < nh; k++ {
			f := faults[2+rng.Intn(len(faults)-2)]
			if rng.Intn(3) == 0 {
				f = c09fault{Name: "proxy", Want: true, Steps: []c09step{{Op: "read", N: 3}, {Op: "send", Bytes: []byte{5, 0}}}}
			}
			steps := f.Steps
			h := host{srv: newC09Server(func(string) []c09step { return steps }), want: f.Want, ip: fmt.Sprintf("127.%d.%d.%d", 1+rng.Intn(250), rng.Intn(256), 1+rng.Intn(250))}
			hosts = append(hosts, h)
			fmt.Fprintf(&file, "{\"ip\":\"%s\",\"port\":%d}\n", h.ip, h.srv.port)
		}
		tmo0 := []int{100, 200}[rng.Intn(2)]
		workers0 := 1 + rng.Intn(8)
		run.Case(fmt.Sprintf("wired%03d", i), map[string]interface{}{"targets": file.String(), "timeout_ms": tmo0})
		for attempt := 0; attempt < 3; attempt++ {
			tmo := tmo0
			for k := 0; k < attempt; k++ {
				tmo *= 4 // a proxy that is not printed is re-judged with more time (upper bound for the probe)
			}
			missingProxy := false
			o := &socksCmdOpts{timeout: time.Duration(tmo) * time.Millisecond}
			o.ipFile = writeTemp(t.TempDir(), "targets.jsonl", file.String())
			o.workers = workers0
			o.json = true
			if err := o.parseRawOptions(); err != nil {
				run.Violation("wired:options", err.Error(), nil)
				continue
			}
			out := &recOut{clock: &rigClock{}}
			lg, _ := log.NewLogger(out, "socks", log.JSON())
			rl := &recLogger{inner: lg, clock: &rigClock{}}
			ctx, cancel := context.WithCancel(context.Background())
			engine := o.newSOCKSScanEngine(ctx)
			rng2, _ := o.parseScanRange(nil)
			t0 := time.Now()
			_, finished, _ := run.Watch(60*time.Second, "v-byte-cpu/sx/", func() {
				_ = startScanEngine(ctx, engine, newEngineConfig(withLogger(rl), withScanRange(rng2), withExitDelay(300*time.Millisecond)))
			})
			dur := time.Since(t0)
			cancel()
			run.Eval(1)
			if !finished {
				run.Inconclusive("socks engine did not finish")
				break
			}
			got := map[string]int{}
			for _, w := range out.snapshot() {
				var m struct {
					IP   string `json:"ip"`
					Port int    `json:"port"`
				}
				if json.Unmarshal(w, &m) != nil {
					run.Violation("wired:line", fmt.Sprintf("output line is not a JSON record: %.200q", w), nil)
					continue
				}
				got[fmt.Sprintf("%s:%d", m.IP, m.Port)]++
			}
			for _, h := range hosts {
				k := fmt.Sprintf("%s:%d", h.ip, h.srv.port)
				switch {
				case h.want && got[k] == 0 && attempt < 2:
					missingProxy = true
				case h.want && got[k] != 1:
					run.Violation("wired:proxy-lines", fmt.Sprintf("SOCKS5 server %s printed %d times (once expected)", k, got[k]), file.String())
				case !h.want && got[k] != 0:
					run.Violation("wired:false-proxy", fmt.Sprintf("%s is not a SOCKS5 server but was printed", k), file.String())
				}
				delete(got, k)
			}
			for k := range got {
				run.Violation("wired:foreign-record", fmt.Sprintf("record for %s, which was never probed", k), file.String())
			}
			// -t drives BOTH timeouts: seen from the server, a connection the client got stuck on must be
			// given up within 3 data timeouts (one write, two reads) + slack
			if missingProxy {
				run.Count("wired_runs_retried", 1)
				continue
			}
			if stallW := rl; stallW != nil && attempt == 0 {
				for _, h := range hosts {
					h.srv.wg.Wait()
					for _, cn := range h.srv.snapshot() {
						life := cn.ended.Sub(cn.accepted)
						if bound := 3*time.Duration(tmo)*time.Millisecond + time.Second; life > bound && !cn.ended.IsZero() {
							run.Violation("wired:timeout-flag-not-applied", fmt.Sprintf("-t %d ms: the server at %s:%d saw the probe's connection stay open for %v (> 3 x %d ms + 1 s): the flag does not reach the data timeout", tmo, h.ip, h.srv.port, life, tmo), file.String())
						}
						run.Count("wired_connection_lifetimes_checked", 1)
					}
				}
			}
			// the slowest target costs at most t + 3t per probe, probes/workers rounds
			rounds := (nh + o.workers - 1) / o.workers
			if bound := time.Duration(rounds)*4*time.Duration(tmo)*time.Millisecond + 300*time.Millisecond + 3*time.Second; dur > bound {
				run.Violation("wired:time-bound", fmt.Sprintf("scan of %d targets with -t %d ms and %d workers took %v (> %v)", nh, tmo, o.workers, dur, bound), file.String())
			}
			break
		}
		for _, h := range hosts {
			h.srv.close()
		}
		run.Count("wired_runs", 1)
		run.Count("wired_targets", int64(nh))
		run.Distinct(file.String())
	}
}
