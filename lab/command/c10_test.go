//go:build verif

package command

// C10 — Elasticsearch/Docker probes: reported iff JSON info was served; time-bounded.
//
// The real elastic.Scanner and docker.Scanner are run (inside a private network namespace)
// against scripted raw HTTP and HTTPS servers (self-signed certificate generated at run time)
// whose answer to each request path is chosen from a behaviour table: status codes, content
// types, bodies that are objects / arrays / scalars / null / truncated / huge / endless, stalled
// headers, stalled or aborted bodies, garbage instead of HTTP. The server records every request.
//
//	elastic: record <=> the body of GET / parses as a JSON object; host/proto = probed target;
//	         info = the served object; whatever /_aliases does never suppresses or falsifies it.
//	docker:  record <=> /info answered 2xx with a JSON object (after whatever /_ping said);
//	         /version failing never suppresses it.
//	time:    elastic: every request <= timeout (+slack), i.e. probe <= 2 x timeout + slack;
//	         docker: probe <= timeout + slack. Non-return: parked criterion.

import (
	"compress/gzip"
	"bufio"
	"bytes"
	"context"
	"crypto/ecdsa"
	"crypto/elliptic"
	crand "crypto/rand"
	"crypto/tls"
	"crypto/x509"
	"crypto/x509/pkix"
	"encoding/json"
	"fmt"
	"math/big"
	"net"
	"reflect"
	"strings"
	"sync"
	"testing"
	"time"

	"github.com/v-byte-cpu/sx/command/log"
	"github.com/v-byte-cpu/sx/pkg/scan"
	"github.com/v-byte-cpu/sx/pkg/scan/docker"
	"github.com/v-byte-cpu/sx/pkg/scan/elastic"
	"verif.local/v/vlab"
)

// c10beh: how the server answers one request.
type c10beh struct {
	Name   string `json:"name"`
	Status int    `json:"status,omitempty"`
	CT     string `json:"content_type,omitempty"`
	Body   string `json:"-"`
	BodyD  string `json:"body,omitempty"` // short description for the case log
	Mode   string `json:"mode,omitempty"` // "" normal | stall-headers | stall-body | abort-body | endless | garbage | close | chunked
	Object bool   `json:"body_is_json_object"`
	Extra  map[string]string `json:"-"`
}

func c10ok(name, body string, object bool) c10beh {
	return c10beh{Name: name, Status: 200, CT: "application/json", Body: body, BodyD: truncStr(body, 80), Object: object}
}

type c10req struct {
	Method, Path string
	T            time.Time
}

type c10server struct {
	ln     net.Listener
	port   int
	tls    bool
	route  func(method, path string) c10beh
	mu     sync.Mutex
	reqs   []c10req
	closed chan struct{}
}

var c10cert = func() tls.Certificate {
	key, _ := ecdsa.GenerateKey(elliptic.P256(), crand.Reader)
	tmpl := &x509.Certificate{SerialNumber: big.NewInt(1), Subject: pkix.Name{CommonName: "c10"}, NotBefore: time.Now().Add(-time.Hour), NotAfter: time.Now().Add(24 * time.Hour),
		KeyUsage: x509.KeyUsageDigitalSignature, ExtKeyUsage: []x509.ExtKeyUsage{x509.ExtKeyUsageServerAuth}, IPAddresses: []net.IP{net.ParseIP("127.0.0.1")}}
	der, _ := x509.CreateCertificate(crand.Reader, tmpl, tmpl, &key.PublicKey, key)
	return tls.Certificate{Certificate: [][]byte{der}, PrivateKey: key}
}()

func newC10Server(useTLS bool, route func(method, path string) c10beh) *c10server {
	ln, err := net.Listen("tcp4", "0.0.0.0:0")
	if err != nil {
		panic(err)
	}
	s := &c10server{ln: ln, port: ln.Addr().(*net.TCPAddr).Port, tls: useTLS, route: route, closed: make(chan struct{})}
	go func() {
		for {
			c, err := ln.Accept()
			if err != nil {
				return
			}
			go s.serve(c)
		}
	}()
	return s
}

func (s *c10server) close() {
	select {
	case <-s.closed:
	default:
		close(s.closed)
	}
	s.ln.Close()
}

func (s *c10server) hold(c net.Conn) {
	// until the client goes away, the server is closed, or 20 s
	done := make(chan struct{})
	go func() {
		buf := make([]byte, 1024)
		c.SetReadDeadline(time.Now().Add(20 * time.Second))
		for {
			if _, err := c.Read(buf); err != nil {
				break
			}
		}
		close(done)
	}()
	select {
	case <-done:
	case <-s.closed:
	}
}

func (s *c10server) serve(raw net.Conn) {
	defer raw.Close()
	var c net.Conn = raw
	if s.tls {
		tc := tls.Server(raw, &tls.Config{Certificates: []tls.Certificate{c10cert}})
		tc.SetDeadline(time.Now().Add(5 * time.Second))
		if err := tc.Handshake(); err != nil {
			return
		}
		tc.SetDeadline(time.Time{})
		c = tc
	}
	br := bufio.NewReader(c)
	c.SetReadDeadline(time.Now().Add(5 * time.Second))
	line, err := br.ReadString('\n')
	if err != nil {
		return
	}
	f := strings.Fields(line)
	if len(f) < 2 {
		return
	}
	acceptsGzip := false
	for {
		h, err := br.ReadString('\n')
		if err != nil || strings.TrimSpace(h) == "" {
			break
		}
		if hl := strings.ToLower(h); strings.HasPrefix(hl, "accept-encoding:") && strings.Contains(hl, "gzip") {
			acceptsGzip = true
		}
	}
	s.mu.Lock()
	s.reqs = append(s.reqs, c10req{f[0], f[1], time.Now()})
	s.mu.Unlock()
	b := s.route(f[0], f[1])
	if b.Mode == "gzip-if-accepted" {
		// what a real node does (http.compression is on by default): compress when, and only when, the client offers it
		b.Mode = ""
		if acceptsGzip {
			var zb bytes.Buffer
			zw := gzip.NewWriter(&zb)
			zw.Write([]byte(b.Body))
			zw.Close()
			b.Body = zb.String()
			extra := map[string]string{"Content-Encoding": "gzip"}
			for k, v := range b.Extra {
				extra[k] = v
			}
			b.Extra = extra
		}
	}
	c.SetWriteDeadline(time.Now().Add(15 * time.Second))
	switch b.Mode {
	case "close":
		return
	case "stall-headers":
		s.hold(c)
		return
	case "garbage":
		c.Write([]byte("\x00\x01\x02 this is not HTTP \xff\xfe\r\n\r\n{\"a\":1}"))
		return
	}
	var hdr bytes.Buffer
	fmt.Fprintf(&hdr, "HTTP/1.1 %d X\r\n", b.Status)
	if b.CT != "" {
		fmt.Fprintf(&hdr, "Content-Type: %s\r\n", b.CT)
	}
	for k, v := range b.Extra {
		fmt.Fprintf(&hdr, "%s: %s\r\n", k, v)
	}
	hdr.WriteString("Connection: close\r\n")
	head := f[0] == "HEAD"
	switch b.Mode {
	case "endless":
		hdr.WriteString("Transfer-Encoding: chunked\r\n\r\n")
		c.Write(hdr.Bytes())
		chunk := []byte("4000\r\n" + strings.Repeat("x", 0x4000) + "\r\n")
		c.Write([]byte("8\r\n{\"a\":\"xx\r\n"))
		for {
			select {
			case <-s.closed:
				return
			default:
			}
			if _, err := c.Write(chunk); err != nil {
				return
			}
		}
	case "chunked":
		hdr.WriteString("Transfer-Encoding: chunked\r\n\r\n")
		c.Write(hdr.Bytes())
		if !head {
			body := []byte(b.Body)
			for len(body) > 0 {
				n := 7
				if n > len(body) {
					n = len(body)
				}
				fmt.Fprintf(c, "%x\r\n%s\r\n", n, body[:n])
				body = body[n:]
			}
			c.Write([]byte("0\r\n\r\n"))
		}
		return
	case "stall-body":
		fmt.Fprintf(&hdr, "Content-Length: %d\r\n\r\n", len(b.Body)+100)
		c.Write(hdr.Bytes())
		c.Write([]byte(b.Body))
		s.hold(c)
		return
	case "abort-body":
		fmt.Fprintf(&hdr, "Content-Length: %d\r\n\r\n", len(b.Body)+100)
		c.Write(hdr.Bytes())
		c.Write([]byte(b.Body))
		return
	}
	fmt.Fprintf(&hdr, "Content-Length: %d\r\n\r\n", len(b.Body))
	c.Write(hdr.Bytes())
	if !head {
		c.Write([]byte(b.Body))
	}
	// let the client read everything before the FIN/RST
	c.SetReadDeadline(time.Now().Add(300 * time.Millisecond))
	br.ReadByte()
}

func (s *c10server) requests() []c10req {
	s.mu.Lock()
	defer s.mu.Unlock()
	return append([]c10req(nil), s.reqs...)
}

// ---- behaviour tables

var c10bigObject = func() string {
	var sb strings.Builder
	sb.WriteString(`{"name":"node-1","cluster_name":"big","pad":"`)
	sb.WriteString(strings.Repeat("y", 3<<20))
	sb.WriteString(`","version":{"number":"7.10.2"},"tagline":"You Know, for Search"}`)
	return sb.String()
}()

const c10esInfo = `{"name":"node-1","cluster_name":"es \"prod\" <1>","cluster_uuid":"u","version":{"number":"7.10.2","build_flavor":"default"},"tagline":"You Know, for Search"}`
const c10esAliases = `{"idx-1":{"aliases":{}},"logs-2021":{"aliases":{"logs":{}}}}`

// behaviours of the primary request; Object says whether a record is expected
func c10primaryBehaviours(forDocker bool) []c10beh {
	info := c10esInfo
	if forDocker {
		info = `{"ID":"ABCD:EFGH","Containers":3,"Name":"dock\"er-host","OperatingSystem":"Ubuntu 20.04","KernelVersion":"5.4.0","Architecture":"x86_64","NCPU":4,"MemTotal":8000000000}`
	}
	nested := `{"a":` + strings.Repeat(`{"b":`, 200) + `1` + strings.Repeat(`}`, 200) + `}`
	bs := []c10beh{
		c10ok("json object", info, true),
		c10ok("empty object", `{}`, true),
		c10ok("object with leading whitespace", "\r\n \t"+info, true),
		c10ok("deeply nested object", nested, !forDocker || true),
		c10ok("huge object (3 MiB)", c10bigObject, true),
		{Name: "object, text/html content type", Status: 200, CT: "text/html", Body: info, Object: true},
		{Name: "object, no content type", Status: 200, Body: info, Object: true},
		{Name: "object, chunked encoding", Status: 200, CT: "application/json", Body: info, Mode: "chunked", Object: true},
		{Name: "object, compressed when the client offers gzip", Status: 200, CT: "application/json", Body: info, Mode: "gzip-if-accepted", Object: true},
		c10ok("array", `[{"a":1}]`, false),
		c10ok("string", `"elasticsearch"`, false),
		c10ok("number", `42`, false),
		c10ok("true", `true`, false),
		c10ok("null", `null`, false),
		c10ok("empty body", ``, false),
		c10ok("truncated object", info[:len(info)/2], false),
		c10ok("html page", `<html><body>It works!</body></html>`, false),
		c10ok("object with a syntax error", `{"name":"n",}`, false),
		{Name: "stalled headers", Mode: "stall-headers"},
		{Name: "stalled body", Status: 200, CT: "application/json", Body: info[:20], Mode: "stall-body"},
		{Name: "aborted body", Status: 200, CT: "application/json", Body: info[:20], Mode: "abort-body"},
		{Name: "endless body", Status: 200, CT: "application/json", Mode: "endless"},
		{Name: "garbage instead of HTTP", Mode: "garbage"},
		{Name: "connection closed without answer", Mode: "close"},
	}
	// status codes: elastic - the statement does not mention the status, the body decides;
	// docker - the API call must succeed (2xx)
	for _, st := range []int{201, 401, 403, 404, 500, 503} {
		b := c10beh{Name: fmt.Sprintf("status %d with a JSON object", st), Status: st, CT: "application/json", Body: `{"error":"x","status":` + fmt.Sprint(st) + `,"message":"m"}`, Object: true}
		if forDocker && st >= 300 {
			b.Object = false
		}
		bs = append(bs, b)
	}
	for i := range bs {
		if bs[i].BodyD == "" {
			bs[i].BodyD = truncStr(bs[i].Body, 80)
		}
	}
	return bs
}

// behaviours of secondary requests (never decide anything)
func c10secondaryBehaviours(okBody string) []c10beh {
	return []c10beh{
		c10ok("ok", okBody, true),
		{Name: "404", Status: 404, CT: "application/json", Body: `{"error":"no"}`},
		{Name: "500 html", Status: 500, CT: "text/html", Body: `<h1>boom</h1>`},
		c10ok("array", `[1,2]`, false),
		c10ok("null", `null`, false),
		c10ok("truncated", okBody[:len(okBody)/2], false),
		{Name: "stalled headers", Mode: "stall-headers"},
		{Name: "stalled body", Status: 200, CT: "application/json", Body: `{"x":`, Mode: "stall-body"},
		{Name: "endless body", Status: 200, CT: "application/json", Mode: "endless"},
		{Name: "garbage", Mode: "garbage"},
		{Name: "closed", Mode: "close"},
	}
}

type c10case struct {
	Kind      string `json:"scanner"` // elastic | docker
	Proto     string `json:"scanner_proto"`
	ServerTLS bool   `json:"server_tls"`
	Primary   c10beh `json:"primary_request"`
	Secondary c10beh `json:"secondary_request"`
	Ping      c10beh `json:"ping,omitempty"`
	TimeoutMs int    `json:"timeout_ms"`
	CancelMs  int    `json:"cancel_after_ms,omitempty"`
}

func c10route(c *c10case) func(method, path string) c10beh {
	return func(method, path string) c10beh {
		switch c.Kind {
		case "elastic":
			if path == "/" {
				return c.Primary
			}
			return c.Secondary
		default:
			switch {
			case strings.HasSuffix(path, "/_ping"):
				return c.Ping
			case strings.HasSuffix(path, "/info"):
				return c.Primary
			}
			return c.Secondary
		}
	}
}

// c10run: a record that is expected but missing (or an index list that is missing) is an upper bound
// for the probe - it must finish its requests inside its own timeouts, which a starved machine
// can make it miss although the code is right. Such a miss is re-run with 4x and 16x the timeout;
// a defect (a fatal secondary request, a wrong decision rule) misses at every scale.
func c10run(run *vlab.Run, idx int, c *c10case) {
	for attempt := 0; attempt < 3; attempt++ {
		cc := *c
		for k := 0; k < attempt; k++ {
			cc.TimeoutMs *= 4
		}
		if !c10once(run, idx, &cc, attempt == 2) {
			return
		}
		run.Count("missing_record_cases_retried", 1)
	}
}

func c10once(run *vlab.Run, idx int, c *c10case, final bool) (retry bool) {
	srv := newC10Server(c.ServerTLS, c10route(c))
	defer srv.close()
	ip := fmt.Sprintf("127.%d.%d.%d", 1+idx%200, idx/200%250, 1+idx%250)
	req := &scan.Request{DstIP: net.ParseIP(ip).To4(), DstPort: uint16(srv.port)}
	tmo := time.Duration(c.TimeoutMs) * time.Millisecond
	var sc scan.Scanner
	if c.Kind == "elastic" {
		sc = elastic.NewScanner(c.Proto, elastic.WithDataTimeout(tmo))
	} else {
		sc = docker.NewScanner(c.Proto, docker.WithDataTimeout(tmo))
	}
	ctx, cancel := context.WithCancel(context.Background())
	defer cancel()
	var cancelT time.Time
	var cmu sync.Mutex
	if c.CancelMs > 0 {
		go func() {
			time.Sleep(time.Duration(c.CancelMs) * time.Millisecond)
			cmu.Lock()
			cancelT = time.Now()
			cmu.Unlock()
			cancel()
		}()
	}
	health := startHealth()
	var res scan.Result
	var err error
	var retT time.Time
	t0 := time.Now()
	dump, finished, parked := run.Watch(40*time.Second, "v-byte-cpu/sx/", func() {
		res, err = sc.Scan(ctx, req)
		retT = time.Now()
	})
	stall := health.end()
	run.Eval(1)
	key := c.Kind + ":" + c.Primary.Name
	if !finished {
		if parked {
			run.Violation("probe-never-ends:"+key, fmt.Sprintf("%s probe did not finish (primary %q, secondary %q, timeout %d ms): parked", c.Kind, c.Primary.Name, c.Secondary.Name, c.TimeoutMs), map[string]interface{}{"case": c, "stacks": dump})
		} else {
			run.Inconclusive(fmt.Sprintf("probe still running after 40 s: %+v", c))
		}
		return false
	}
	dur := retT.Sub(t0)
	const slack = 2 * time.Second
	noisy := stall > 300*time.Millisecond
	schemeOK := (c.Proto == "https") == c.ServerTLS
	want := c.Primary.Object && schemeOK
	dontcare := ""
	if c.Kind == "docker" {
		if c.Ping.Mode == "stall-headers" || c.Ping.Mode == "stall-body" || c.Ping.Mode == "endless" {
			dontcare = "ping consumed the probe's single time budget"
		}
		if c.Primary.Name == "null" {
			// known finding candidate: the docker client decodes JSON null into an empty Info without error
			dontcare = ""
		}
	}
	if c.CancelMs > 0 {
		cmu.Lock()
		ct := cancelT
		cmu.Unlock()
		if late := retT.Sub(ct); !ct.IsZero() && late > slack {
			if noisy {
				run.Inconclusive("slow return after cancel, monitor stalled")
			} else {
				run.Violation("slow-after-cancel:"+key, fmt.Sprintf("%s probe returned %v after cancellation (primary %q secondary %q)", c.Kind, late, c.Primary.Name, c.Secondary.Name), c)
			}
		}
		if res != nil && !want {
			run.Violation("false-record:"+key, fmt.Sprintf("%s: primary answer %q must not be reported", c.Kind, c.Primary.Name), c)
		}
		run.Count("cancellations_checked", 1)
		return false
	}
	bound := tmo + slack
	if c.Kind == "elastic" {
		bound = 2*tmo + slack
	}
	if dur > bound {
		if noisy {
			run.Inconclusive(fmt.Sprintf("probe took %v, monitor stalled %v", dur, stall))
		} else {
			run.Violation("time-bound:"+c.Kind+":"+c.Primary.Name+"/"+c.Secondary.Name, fmt.Sprintf("%s probe took %v (primary %q, secondary %q); timeout %d ms per request allows %v", c.Kind, dur, c.Primary.Name, c.Secondary.Name, c.TimeoutMs, bound), c)
		}
	}
	switch {
	case dontcare != "":
		run.Count("dontcare", 1)
	case want && res == nil:
		// a slow machine may legitimately time out on the 3 MiB body with a 100 ms budget
		if c.Primary.Name == "huge object (3 MiB)" && c.TimeoutMs < 1000 {
			run.Count("dontcare", 1)
			break
		}
		k := "served-info-not-reported:" + key
		if c.Secondary.Name != "ok" {
			k = "secondary-failure-suppresses-record:" + c.Kind + ":" + c.Secondary.Name
		}
		if !final && c.CancelMs == 0 {
			return true
		}
		run.Violation(k, fmt.Sprintf("%s: the primary request was answered with a JSON object (%q) but nothing was reported at 1x, 4x and 16x the timeout (secondary request: %q, err %v)", c.Kind, c.Primary.Name, c.Secondary.Name, err), c)
	case !want && res != nil:
		b, _ := res.MarshalJSON()
		k := "false-record:" + key
		if !schemeOK {
			k = "false-record:" + c.Kind + ":scheme-mismatch"
		}
		run.Violation(k, fmt.Sprintf("%s: primary answer %q (scheme ok: %v) is not a served JSON object but was reported: %.300s", c.Kind, c.Primary.Name, schemeOK, b), c)
	case res != nil:
		b, _ := res.MarshalJSON()
		var m struct {
			Scan    string                 `json:"scan"`
			Proto   string                 `json:"proto"`
			Host    string                 `json:"host"`
			Info    map[string]interface{} `json:"info"`
			Indexes map[string]interface{} `json:"indexes"`
		}
		if e := json.Unmarshal(b, &m); e != nil {
			run.Violation("record-json:"+c.Kind, fmt.Sprintf("record is not JSON: %v", e), c)
			break
		}
		wantHost := fmt.Sprintf("%s:%d", ip, srv.port)
		if !strings.HasSuffix(m.Host, wantHost) || m.Proto != c.Proto || m.Scan != c.Kind {
			run.Violation("record-fields:"+c.Kind, fmt.Sprintf("record scan=%q proto=%q host=%q; probed %s://%s", m.Scan, m.Proto, m.Host, c.Proto, wantHost), c)
		}
		if c.Kind == "elastic" {
			var served map[string]interface{}
			json.Unmarshal([]byte(strings.TrimSpace(c.Primary.Body)), &served)
			if !reflect.DeepEqual(m.Info, served) && len(c.Primary.Body) < 1<<20 {
				run.Violation("record-info:elastic", fmt.Sprintf("record info %.200v differs from the served object %.200s", m.Info, c.Primary.Body), c)
			}
			if c.Secondary.Name == "ok" {
				var al map[string]interface{}
				json.Unmarshal([]byte(c.Secondary.Body), &al)
				if !reflect.DeepEqual(m.Indexes, al) && !final {
					return true
				}
				if !reflect.DeepEqual(m.Indexes, al) {
					run.Violation("record-indexes:elastic", fmt.Sprintf("record indexes %.200v differ from the served %s", m.Indexes, c.Secondary.Body), c)
				}
			} else if c.Secondary.Object == false && len(m.Indexes) != 0 && c.Secondary.Name != "404" {
				run.Violation("record-indexes:elastic", fmt.Sprintf("index list request failed (%q) but the record lists indexes %.200v", c.Secondary.Name, m.Indexes), c)
			}
		} else if c.Primary.Name == "json object" {
			if m.Info["Name"] != `dock"er-host` || m.Info["ID"] != "ABCD:EFGH" {
				run.Violation("record-info:docker", fmt.Sprintf("record info name/id %v/%v differ from the served object", m.Info["Name"], m.Info["ID"]), c)
			}
		}
		run.Count("records_verified:"+c.Kind, 1)
	default:
		run.Count("negatives_verified:"+c.Kind, 1)
	}
	// the probe must actually have asked the primary question (when the scheme allowed a connection)
	if schemeOK {
		asked := false
		for _, r := range srv.requests() {
			if c.Kind == "elastic" && r.Path == "/" || c.Kind == "docker" && strings.HasSuffix(r.Path, "/info") {
				asked = true
			}
		}
		if !asked && dontcare == "" && !(c.Kind == "docker" && c.Ping.Mode != "") && !final {
			return true
		}
		if !asked && dontcare == "" && !(c.Kind == "docker" && c.Ping.Mode != "") {
			run.Violation("primary-request-missing:"+c.Kind, fmt.Sprintf("the server never received the primary request; requests seen: %v", srv.requests()), c)
		}
	}
	run.Count("probes_checked:"+c.Kind, 1)
	run.Count("primary:"+c.Primary.Name, 1)
	if c.ServerTLS && c.Proto == "https" {
		run.Count("https_probes", 1)
	}
	run.Max("max_probe_ms", dur.Milliseconds())
	run.Distinct(fmt.Sprintf("%s/%s/%v/%s/%s/%s/%d", c.Kind, c.Proto, c.ServerTLS, c.Primary.Name, c.Secondary.Name, c.Ping.Name, c.TimeoutMs))
	if run.WantSample() && res != nil && c.Secondary.Name != "ok" {
		run.Sample(map[string]interface{}{"scanner": c.Kind, "primary": c.Primary.Name, "secondary": c.Secondary.Name, "reported": true, "probe_ms": dur.Milliseconds()})
	}
	return false
}

func TestVerifC10Probes(t *testing.T) {
	run := vlab.Begin(t, "C10", "probes")
	defer run.End()
	if !netnsUp(t) {
		run.Inconclusive("no private network namespace")
		return
	}
	rng := run.Rand("probes")
	var cases []*c10case
	pingOK := c10beh{Name: "ping ok", Status: 200, CT: "text/plain", Body: "OK", Extra: map[string]string{"API-Version": "1.41", "Docker-Experimental": "false"}}
	pings := []c10beh{pingOK, {Name: "ping ok without version header", Status: 200, Body: "OK"}, {Name: "ping 404", Status: 404, Body: "not found"}, {Name: "ping 500", Status: 500, Body: "x"},
		{Name: "ping closed", Mode: "close"}, {Name: "ping garbage", Mode: "garbage"}, {Name: "ping stalled", Mode: "stall-headers"}, {Name: "ping old api", Status: 200, Body: "OK", Extra: map[string]string{"API-Version": "1.24"}}}
	for _, kind := range []string{"elastic", "docker"} {
		secOK := c10esAliases
		if kind == "docker" {
			secOK = `{"Version":"20.10.7","ApiVersion":"1.41","Os":"linux","Arch":"amd64","KernelVersion":"5.4.0"}`
		}
		prim := c10primaryBehaviours(kind == "docker")
		sec := c10secondaryBehaviours(secOK)
		// every primary behaviour x {ok secondary, one failing secondary} x schemes
		for pi, p := range prim {
			for _, s := range []c10beh{sec[0], sec[1+pi%(len(sec)-1)]} {
				for _, sch := range [][2]interface{}{{"http", false}, {"https", true}} {
					tmo := []int{150, 300}[rng.Intn(2)]
					if p.Name == "huge object (3 MiB)" {
						tmo = 3000
					}
					c := &c10case{Kind: kind, Proto: sch[0].(string), ServerTLS: sch[1].(bool), Primary: p, Secondary: s, Ping: pingOK, TimeoutMs: tmo}
					cases = append(cases, c)
				}
			}
		}
		// every secondary behaviour behind a good primary answer
		for _, s := range sec {
			cases = append(cases, &c10case{Kind: kind, Proto: "http", Primary: prim[0], Secondary: s, Ping: pingOK, TimeoutMs: 200})
			cases = append(cases, &c10case{Kind: kind, Proto: "https", ServerTLS: true, Primary: prim[0], Secondary: s, Ping: pingOK, TimeoutMs: 300})
		}
		// scheme mismatches
		for _, p := range []c10beh{prim[0], prim[8]} {
			cases = append(cases, &c10case{Kind: kind, Proto: "https", ServerTLS: false, Primary: p, Secondary: sec[0], Ping: pingOK, TimeoutMs: 200})
			cases = append(cases, &c10case{Kind: kind, Proto: "http", ServerTLS: true, Primary: p, Secondary: sec[0], Ping: pingOK, TimeoutMs: 200})
		}
		// docker: every ping behaviour
		if kind == "docker" {
			for _, pg := range pings {
				for _, p := range []c10beh{prim[0], prim[8], prim[12]} {
					cases = append(cases, &c10case{Kind: kind, Proto: "http", Primary: p, Secondary: sec[rng.Intn(len(sec))], Ping: pg, TimeoutMs: 300})
				}
			}
		}
		// cancellation during every stalling behaviour
		for _, p := range prim {
			if p.Mode == "stall-headers" || p.Mode == "stall-body" || p.Mode == "endless" {
				cases = append(cases, &c10case{Kind: kind, Proto: "http", Primary: p, Secondary: sec[0], Ping: pingOK, TimeoutMs: 5000, CancelMs: 30 + rng.Intn(50)})
			}
		}
		for _, s := range sec {
			if s.Mode == "stall-headers" || s.Mode == "stall-body" || s.Mode == "endless" {
				cases = append(cases, &c10case{Kind: kind, Proto: "http", Primary: prim[0], Secondary: s, Ping: pingOK, TimeoutMs: 5000, CancelMs: 60 + rng.Intn(50)})
			}
		}
	}
	reps := run.Pick(1, 5)
	sem := make(chan struct{}, 6)
	var wg sync.WaitGroup
	n := 0
	for r := 0; r < reps; r++ {
		for i, c := range cases {
			n++
			if !run.Mine(n) {
				continue
			}
			i, c, r := i, c, r
			wg.Add(1)
			sem <- struct{}{}
			go func() {
				defer wg.Done()
				defer func() { <-sem }()
				run.Case(fmt.Sprintf("case%04d", i), c)
				c10run(run, i+r*1000, c)
			}()
		}
	}
	wg.Wait()
}

// ---- wired: the commands' own engines (--proto, -t, --workers) through startScanEngine

func TestVerifC10Wired(t *testing.T) {
	run := vlab.Begin(t, "C10", "wired")
	defer run.End()
	if !netnsUp(t) {
		run.Inconclusive("no private network namespace")
		return
	}
	rng := run.Rand("wired")
	n := run.Pick(16, 100)
	for i := 0; i < n; i++ {
		if !run.Mine(i) {
			continue
		}
		kind := []string{"elastic", "docker"}[i%2]
		useTLS := i%4 >= 2
		proto := map[bool]string{false: "http", true: "https"}[useTLS]
		prim := c10primaryBehaviours(kind == "docker")
		secOK := c10esAliases
		if kind == "docker" {
			secOK = `{"Version":"20.10.7","ApiVersion":"1.41"}`
		}
		sec := c10secondaryBehaviours(secOK)
		type host struct {
			srv  *c10server
			ip   string
			want bool
		}
		var hosts []host
		var file strings.Builder
		nh := 3 + rng.Intn(8)
		for k := 0; k < nh; k++ {
			p := prim[rng.Intn(len(prim))]
			if p.Name == "huge object (3 MiB)" || p.Name == "null" && kind == "docker" {
				p = prim[0]
			}
			c := &c10case{Kind: kind, Primary: p, Secondary: sec[rng.Intn(len(sec))], Ping: c10beh{Name: "ping ok", Status: 200, Body: "OK", Extra: map[string]string{"API-Version": "1.41"}}}
			h := host{srv: newC10Server(useTLS, c10route(c)), ip: fmt.Sprintf("127.%d.%d.%d", 1+rng.Intn(250), rng.Intn(256), 1+rng.Intn(250)), want: p.Object}
			hosts = append(hosts, h)
			fmt.Fprintf(&file, "{\"ip\":\"%s\",\"port\":%d}\n", h.ip, h.srv.port)
		}
		tmo := 2 * time.Second // generous: the decision is judged here, the time bounds in the probes unit
		run.Case(fmt.Sprintf("wired%03d", i), map[string]interface{}{"scanner": kind, "proto": proto, "targets": file.String()})
		out := &recOut{clock: &rigClock{}}
		ctx, cancel := context.WithCancel(context.Background())
		var engine scan.EngineResulter
		var rngScan *scan.Range
		fileP := writeTemp(t.TempDir(), "targets.jsonl", file.String())
		if kind == "elastic" {
			o := &elasticCmdOpts{timeout: tmo, proto: proto}
			o.ipFile, o.workers, o.json = fileP, 1+rng.Intn(6), true
			if err := o.parseRawOptions(); err != nil {
				run.Violation("wired:options", err.Error(), nil)
				cancel()
				continue
			}
			engine, rngScan = o.newElasticScanEngine(ctx), nil
			rngScan, _ = o.parseScanRange(nil)
		} else {
			o := &dockerCmdOpts{timeout: tmo, proto: proto}
			o.ipFile, o.workers, o.json = fileP, 1+rng.Intn(6), true
			if err := o.parseRawOptions(); err != nil {
				run.Violation("wired:options", err.Error(), nil)
				cancel()
				continue
			}
			engine = o.newDockerScanEngine(ctx)
			rngScan, _ = o.parseScanRange(nil)
		}
		lg, _ := log.NewLogger(out, kind, log.JSON())
		rl := &recLogger{inner: lg, clock: &rigClock{}}
		_, finished, _ := run.Watch(90*time.Second, "v-byte-cpu/sx/", func() {
			_ = startScanEngine(ctx, engine, newEngineConfig(withLogger(rl), withScanRange(rngScan), withExitDelay(300*time.Millisecond)))
		})
		cancel()
		for _, h := range hosts {
			h.srv.close()
		}
		run.Eval(1)
		if !finished {
			run.Inconclusive("engine did not finish")
			continue
		}
		got := map[string]int{}
		for _, w := range out.snapshot() {
			var m struct {
				Host  string `json:"host"`
				Proto string `json:"proto"`
			}
			if json.Unmarshal(w, &m) != nil {
				run.Violation("wired:line", fmt.Sprintf("output line is not a JSON record: %.200q", w), nil)
				continue
			}
			if m.Proto != proto {
				run.Violation("wired:proto", fmt.Sprintf("record says proto %q, the scan used %q", m.Proto, proto), nil)
			}
			got[strings.TrimPrefix(m.Host, "tcp://")]++
		}
		for _, h := range hosts {
			k := fmt.Sprintf("%s:%d", h.ip, h.srv.port)
			switch {
			case h.want && got[k] != 1:
				run.Violation("wired:record-count:"+kind, fmt.Sprintf("%s serves a JSON object but was printed %d times", k, got[k]), file.String())
			case !h.want && got[k] != 0:
				run.Violation("wired:false-record:"+kind, fmt.Sprintf("%s does not serve JSON info but was printed", k), file.String())
			}
			delete(got, k)
		}
		for k := range got {
			run.Violation("wired:foreign-record", fmt.Sprintf("record for %s, which was never probed", k), file.String())
		}
		run.Count("wired_runs", 1)
		run.Count("wired_runs:"+kind, 1)
		run.Distinct(file.String())
	}
}
