//go:build verif

package command

// C11 — ARP output is a valid ARP cache; probes use the right destination MAC.
//
//	lines:   ARP frames -> real ARP processor -> real JSON logger -> bytes -> real FillCache;
//	         every printed line must load, and Get(address) (4- and 16-byte spelling) must be the
//	         MAC of the LAST frame printed for that address. Plus hand-made cache files
//	         (duplicates, both spellings, extra fields, 10^5 lines) through parseARPCache from a
//	         file and from stdin.
//	dest:    NewCacheRequestGenerator over unique-id request streams, gateway present/absent,
//	         1..64 pipelines sharing one cache while other goroutines Put/Delete unrelated keys;
//	         and the commands' own wiring (tcp/udp/icmp) through the packet engine onto the
//	         recording wire: Ethernet destination of every probe = cache[dst] | gateway | no frame
//	         and one error.
//	history: concurrent Put/Get/Delete histories on arp.Cache, few keys, unique values, checked
//	         for linearizability per key with porcupine against a register model.

import (
	"bytes"
	"context"
	"encoding/binary"
	"fmt"
	"math/rand"
	"net"
	"os"
	"strings"
	"sync"
	"sync/atomic"
	"testing"
	"time"

	"github.com/anishathalye/porcupine"
	"github.com/v-byte-cpu/sx/pkg/scan"
	"github.com/v-byte-cpu/sx/pkg/scan/arp"
	"verif.local/v/oracle"
	"verif.local/v/vlab"
)

func c11macOf(a uint32, gen byte) net.HardwareAddr {
	// every MAC a sender can put into an ARP frame is a MAC the scan prints and the loader must map: the
	// all-zero and the broadcast address included (one host in 16 each)
	switch (a ^ uint32(gen)) % 16 {
	case 3:
		return net.HardwareAddr{0, 0, 0, 0, 0, 0}
	case 7:
		return net.HardwareAddr{0xff, 0xff, 0xff, 0xff, 0xff, 0xff}
	case 11:
		return net.HardwareAddr{0x01, 0x00, 0x5e, byte(a >> 16), byte(a >> 8), byte(a)} // a multicast address
	}
	return net.HardwareAddr{0x02, gen, byte(a >> 24), byte(a >> 16), byte(a >> 8), byte(a)}
}

func c11get(cache *arp.Cache, a uint32, form16 bool) net.HardwareAddr {
	b := oracle.U32ToIP(a)
	if form16 {
		return cache.Get(net.IPv4(b[0], b[1], b[2], b[3]))
	}
	return cache.Get(net.IP(b[:]))
}

// ---- lines

func TestVerifC11Lines(t *testing.T) {
	run := vlab.Begin(t, "C11", "lines")
	defer run.End()
	rng := run.Rand(fmt.Sprintf("lines/%d", run.Batch()))
	rounds := run.Pick(400, 6000) / run.NBatch()
	for round := 0; round < rounds; round++ {
		n := 1 + rng.Intn(200)
		hosts := 1 + rng.Intn(60) // few addresses -> duplicates: the last line must win
		base := rng.Uint32()
		sink := &syncResults{}
		proc := arp.NewScanMethod(nil, sink)
		last := map[uint32][6]byte{}
		var order []uint32
		var frames []string
		for i := 0; i < n; i++ {
			spa := base + uint32(rng.Intn(hosts))
			switch rng.Intn(12) {
			case 0:
				spa = 0
			case 1:
				spa = 0xffffffff
			}
			var sha [6]byte
			rng.Read(sha[:])
			switch rng.Intn(10) {
			case 0:
				sha = [6]byte{0xff, 0xff, 0xff, 0xff, 0xff, 0xff}
			case 1:
				sha = [6]byte{}
			case 2:
				sha = [6]byte{0x01, 0x00, 0x5e, 1, 2, 3}
			}
			op := uint16(2)
			if rng.Intn(4) == 0 {
				op = []uint16{1, 0, 3, 4, 8, 65535}[rng.Intn(6)]
			}
			var tha [6]byte
			rng.Read(tha[:])
			body := oracle.BuildARPRaw(1, 0x0800, 6, 4, op, sha[:], ipBytes(spa), tha[:], ipBytes(rng.Uint32()))
			if rng.Intn(3) == 0 {
				body = append(body, make([]byte, 18)...) // Ethernet padding to the 60-byte minimum
			}
			frame := oracle.BuildEth(c06macA, sha, oracle.EtherTypeARP, body)
			before := len(sink.items)
			run.Case(fmt.Sprintf("round%05d/frame%d", round, i), fmt.Sprintf("%x", frame))
			err := proc.ProcessPacketData(exact(frame), nil)
			if err != nil || len(sink.items) != before+1 {
				// whether a frame must be reported is C03/C06's business; op/padding variants that are not
				// reported simply do not enter the cache
				if op == 2 && len(frame) == 42 {
					run.Violation("lines:valid-reply-not-printed", fmt.Sprintf("plain ARP reply from %s (%s) produced %d records (err %v)", oracle.IPString(oracle.U32ToIP(spa)), oracle.MACString(sha[:]), len(sink.items)-before, err), fmt.Sprintf("%x", frame))
				}
				for len(sink.items) > before+1 {
					sink.items = sink.items[:len(sink.items)-1]
				}
				if len(sink.items) == before {
					continue
				}
			}
			last[spa] = sha
			order = append(order, spa)
			if len(frames) < 4 {
				frames = append(frames, fmt.Sprintf("%x", frame))
			}
		}
		out := &c14out{}
		if !c14feed(run, c14logger(out, false), sink.items, 100) {
			run.Inconclusive("logger did not return")
			continue
		}
		var file bytes.Buffer
		for _, w := range out.writes {
			file.Write(w)
		}
		text := file.String()
		run.Case(fmt.Sprintf("round%05d/load", round), text)
		cache := arp.NewCache()
		if err := arp.FillCache(cache, strings.NewReader(text)); err != nil {
			run.Violation("lines:output-rejected", fmt.Sprintf("the ARP cache loader rejects what the ARP scan printed: %v", err), map[string]interface{}{"output": truncStr(text, 2000), "frames": frames})
			continue
		}
		ok := true
		for a, mac := range last {
			for _, f16 := range []bool{false, true} {
				got := c11get(cache, a, f16)
				if !bytes.Equal(got, mac[:]) {
					run.Violation("lines:wrong-mapping", fmt.Sprintf("after loading the scan output, %s (16-byte spelling: %v) maps to %v; the last line printed for it says %s", oracle.IPString(oracle.U32ToIP(a)), f16, got, oracle.MACString(mac[:])), map[string]interface{}{"output": truncStr(text, 2000)})
					ok = false
					break
				}
			}
		}
		// an address that was never printed must not be in the cache
		for k := 0; k < 8; k++ {
			a := base + uint32(hosts+rng.Intn(1000))
			if _, printed := last[a]; !printed && c11get(cache, a, false) != nil {
				run.Violation("lines:phantom-entry", fmt.Sprintf("%s was never printed but has a cache entry", oracle.IPString(oracle.U32ToIP(a))), truncStr(text, 2000))
				ok = false
			}
		}
		if ok {
			run.Count("scan_outputs_loaded", 1)
			run.Count("lines_loaded", int64(len(order)))
			run.Count("addresses_checked", int64(len(last)))
		}
		run.Eval(len(order))
		run.Distinct(vlab.HashStr(text))
		if run.WantSample() && len(out.writes) > 0 {
			run.Sample(map[string]interface{}{"first_line": strings.TrimSpace(string(out.writes[0])), "lines": len(out.writes), "distinct_addresses": len(last)})
		}
	}
	// ---- hand-made cache files through the command's own loader (file and stdin)
	files := run.Pick(120, 1500) / run.NBatch()
	for i := 0; i < files; i++ {
		n := 1 + rng.Intn(300)
		if i%37 == 5 {
			n = 100000
		}
		hosts := 1 + rng.Intn(100)
		base := rng.Uint32()
		last := map[uint32]net.HardwareAddr{}
		var sb strings.Builder
		v6lines := 0
		for k := 0; k < n; k++ {
			a := base + uint32(rng.Intn(hosts))
			mac := c11macOf(a, byte(k))
			last[a] = mac
			ipb := oracle.U32ToIP(a)
			ipS := oracle.IPString(ipb)
			if rng.Intn(4) == 0 {
				ipS = "::ffff:" + ipS // 16-byte spelling of the same address
			}
			macS := mac.String()
			switch rng.Intn(5) {
			case 0:
				macS = strings.ToUpper(macS)
			case 1:
				macS = strings.ReplaceAll(macS, ":", "-")
			}
			if rng.Intn(6) == 0 {
				// an IPv6 neighbour whose low 32 bits equal some IPv4 host of the file: another host, another MAC
				b := oracle.U32ToIP(base + uint32(rng.Intn(hosts)))
				fmt.Fprintf(&sb, `{"ip":"fe80::%x:%x","mac":"06:66:66:66:66:%02x","vendor":"v6 neighbour"}`+"\n", uint16(b[0])<<8|uint16(b[1]), uint16(b[2])<<8|uint16(b[3]), k&0xff)
				v6lines++
			}
			switch rng.Intn(7) {
			case 5:
				// unknown extra fields whose names differ from the documented keys in letter case only: they are
				// other fields (JSON keys are case-sensitive) and do not override ip / mac, wherever they stand
				fmt.Fprintf(&sb, `{"IP":"10.255.255.1","ip":"%s","Mac":"02:ba:d0:ba:d0:01","mac":"%s","MAC":"02:ba:d0:ba:d0:02","Ip":"10.255.255.2","vendor":"V"}`+"\n", ipS, macS)
			case 0:
				fmt.Fprintf(&sb, `{"ip":"%s","mac":"%s","vendor":"Acme \"Inc\"\n","seen":%d,"extra":{"a":[1,2,{"b":null}]}}`+"\n", ipS, macS, k)
			case 1:
				fmt.Fprintf(&sb, `{"vendor":"","mac":"%s","ip":"%s"}`+"\n", macS, ipS)
			case 2:
				fmt.Fprintf(&sb, ` { "ip" : "%s" , "mac" : "%s" } `+"\n", ipS, macS)
			case 3:
				fmt.Fprintf(&sb, `{"ip":"%s","mac":"%s"}`+"\r\n", ipS, macS)
			default:
				fmt.Fprintf(&sb, `{"ip":"%s","mac":"%s","vendor":"V"}`+"\n", ipS, macS)
			}
		}
		text := sb.String()
		if rng.Intn(2) == 0 {
			text = strings.TrimSuffix(text, "\n")
		}
		viaStdin := i%2 == 0
		run.Case(fmt.Sprintf("file%05d", i), map[string]interface{}{"lines": n, "stdin": viaStdin, "head": truncStr(text, 600)})
		o := &ipScanCmdOpts{}
		restore := func() {}
		if viaStdin {
			pr, pw, _ := os.Pipe()
			old := os.Stdin
			os.Stdin = pr
			restore = func() { os.Stdin = old; pr.Close() }
			go func() { pw.Write([]byte(text)); pw.Close() }()
			if rng.Intn(2) == 0 {
				o.arpCacheFile = "-"
			}
		} else {
			o.arpCacheFile = writeTemp(t.TempDir(), "arp.cache", text)
		}
		cache, err := o.parseARPCache()
		restore()
		if err != nil {
			run.Violation("lines:cache-file-rejected", fmt.Sprintf("well-formed ARP cache (%d lines, stdin=%v) rejected: %v", n, viaStdin, err), truncStr(text, 2000))
			continue
		}
		good := true
		for a, mac := range last {
			for _, f16 := range []bool{false, true} {
				if got := c11get(cache, a, f16); !bytes.Equal(got, mac) {
					run.Violation("lines:wrong-mapping", fmt.Sprintf("cache file: %s (16-byte spelling: %v) maps to %v, the last line for it says %v", oracle.IPString(oracle.U32ToIP(a)), f16, got, mac), truncStr(text, 2000))
					good = false
					break
				}
			}
			if !good {
				break
			}
		}
		// hosts of the range that have no line of their own must not inherit an IPv6 neighbour's entry
		for k := 0; k < hosts && good; k++ {
			a := base + uint32(k)
			if _, listed := last[a]; !listed && c11get(cache, a, false) != nil {
				run.Violation("lines:phantom-entry", fmt.Sprintf("cache file: %s has no line but Get returns %v (an entry of another host)", oracle.IPString(oracle.U32ToIP(a)), c11get(cache, a, false)), truncStr(text, 2000))
				good = false
			}
		}
		run.Count("cache_file_ipv6_lines", int64(v6lines))
		if good {
			run.Count("cache_files_loaded", 1)
			if viaStdin {
				run.Count("cache_files_from_stdin", 1)
			}
		}
		run.Eval(n)
		run.Distinct(vlab.HashStr(text))
	}
	// ---- defective lines (no "mac", null mac, no "ip") right after a complete line: the loader may refuse the file;
	// if it accepts it, the defective line's address must not end up with another host's MAC and must not
	// rewrite the previous host's entry
	for i := 0; i < run.Pick(60, 600)/run.NBatch()+1; i++ {
		a1, a2 := rng.Uint32(), rng.Uint32()
		m1 := c11macOf(a1, 7)
		good := fmt.Sprintf(`{"ip":"%s","mac":"%s","vendor":"x"}`, oracle.IPString(oracle.U32ToIP(a1)), m1)
		bad := []string{
			fmt.Sprintf(`{"ip":"%s"}`, oracle.IPString(oracle.U32ToIP(a2))),
			fmt.Sprintf(`{"ip":"%s","mac":null}`, oracle.IPString(oracle.U32ToIP(a2))),
			fmt.Sprintf(`{"ip":"%s","vendor":"no mac here"}`, oracle.IPString(oracle.U32ToIP(a2))),
			`{"mac":"02:de:ad:be:ef:99"}`,
			`{"mac":"02:de:ad:be:ef:99","vendor":"no ip"}`,
			`{}`,
		}[rng.Intn(6)]
		text := good + "\n" + bad + "\n"
		run.Case(fmt.Sprintf("defective%04d", i), text)
		cache := arp.NewCache()
		err := arp.FillCache(cache, strings.NewReader(text))
		run.Eval(1)
		if err != nil {
			run.Count("defective_files_refused", 1)
			continue
		}
		if got := c11get(cache, a2, false); got != nil && a2 != a1 {
			run.Violation("lines:defective-line-inherits-mac", fmt.Sprintf("a cache line without MAC (%s) after a complete line was accepted and maps %s to %v (the previous host's MAC is %v)", bad, oracle.IPString(oracle.U32ToIP(a2)), got, m1), text)
		}
		if got := c11get(cache, a1, false); !bytes.Equal(got, m1) {
			run.Violation("lines:defective-line-rewrites-entry", fmt.Sprintf("a defective line (%s) after the line of %s changed its entry to %v (printed: %v)", bad, oracle.IPString(oracle.U32ToIP(a1)), got, m1), text)
		}
		run.Count("defective_files_accepted_harmlessly", 1)
	}
	// ---- a damaged line in the middle of a cache file (the cut line of an interrupted `sx arp --json >> file`),
	// through the command's own loader, from a file and from stdin: the file is refused, or - if the scan is
	// allowed to start with it - every complete line still maps its address to its own MAC, the lines after the
	// damaged one included (a host with a line of its own must not silently fall back to the gateway)
	for i := 0; i < run.Pick(48, 480)/run.NBatch()+1; i++ {
		nGood := 2 + rng.Intn(6)
		at := 1 + rng.Intn(nGood-1)
		var lines []string
		want := map[uint32]string{}
		base := rng.Uint32() &^ 0xff
		for k := 0; k < nGood; k++ {
			a := base + uint32(k) + 1
			m := c11macOf(a, 11)
			want[a] = m.String()
			lines = append(lines, fmt.Sprintf(`{"ip":"%s","mac":"%s","vendor":"v"}`, oracle.IPString(oracle.U32ToIP(a)), m))
		}
		full := fmt.Sprintf(`{"ip":"%s","mac":"02:00:00:aa:bb:cc","vendor":"cut"}`, oracle.IPString(oracle.U32ToIP(base+200)))
		damaged := []string{full[:5+rng.Intn(len(full)-6)], "\x00\x00\x00", "sx: interrupted", `{"ip":"10.0.0.300","mac":"zz"}`, `{"ip":`, `[1,2]`}[rng.Intn(6)]
		lines = append(lines[:at], append([]string{damaged}, lines[at:]...)...)
		text := strings.Join(lines, "\n") + "\n"
		viaStdin := i%2 == 0
		run.Case(fmt.Sprintf("damaged%04d", i), map[string]interface{}{"stdin": viaStdin, "text": text})
		o := &ipScanCmdOpts{}
		restore := func() {}
		if viaStdin {
			pr, pw, _ := os.Pipe()
			old := os.Stdin
			os.Stdin = pr
			restore = func() { os.Stdin = old; pr.Close() }
			go func() { pw.Write([]byte(text)); pw.Close() }()
		} else {
			o.arpCacheFile = writeTemp(t.TempDir(), "arp.cache", text)
		}
		cache, err := o.parseARPCache()
		restore()
		run.Eval(1)
		run.Count("damaged_files_checked", 1)
		if err != nil {
			run.Count("damaged_files_refused", 1)
			continue
		}
		lost := 0
		example := ""
		for a, m := range want {
			if got := c11get(cache, a, false); got.String() != m {
				lost++
				example = fmt.Sprintf("%s -> %v (line says %s)", oracle.IPString(oracle.U32ToIP(a)), got, m)
			}
		}
		if lost > 0 {
			run.Violation("lines:damaged-file-accepted-with-entries-lost", fmt.Sprintf("a cache file with a damaged line (%q at line %d of %d, stdin=%v) was accepted without error, but %d complete lines have no/wrong entry (e.g. %s): their probes would go to the gateway MAC", damaged, at+1, len(lines), viaStdin, lost, example), text)
			continue
		}
		run.Count("damaged_files_accepted_harmlessly", 1)
	}
}

func ipBytes(a uint32) []byte {
	b := oracle.U32ToIP(a)
	return b[:]
}

func truncStr(s string, n int) string {
	if len(s) > n {
		return s[:n] + "…"
	}
	return s
}

// ---- dest

type c11destCase struct {
	N         int   `json:"requests"`
	Pipelines int   `json:"pipelines_sharing_the_cache"`
	CachedPct int   `json:"percent_of_targets_in_cache"`
	Gateway   bool  `json:"gateway_mac_known"`
	Churn     bool  `json:"concurrent_put_delete_of_other_keys"`
	Form16    bool  `json:"requests_use_16_byte_addresses"`
	ErrPct    int   `json:"percent_error_requests"`
	Seed      int64 `json:"seed"`
}

// c11gen emits n requests base+1..base+n (unique ids), some already failed.
type c11gen struct {
	n      int
	base   uint32
	form16 bool
	errPct int
	seed   uint64
}

func (g *c11gen) GenerateRequests(ctx context.Context, r *scan.Range) (<-chan *scan.Request, error) {
	out := make(chan *scan.Request, 100)
	go func() {
		defer close(out)
		for i := 1; i <= g.n; i++ {
			a := g.base + uint32(i)
			b := oracle.U32ToIP(a)
			ip := net.IP(append([]byte(nil), b[:]...))
			if g.form16 {
				ip = net.IPv4(b[0], b[1], b[2], b[3])
			}
			req := &scan.Request{SrcIP: rigSrcIP, SrcMAC: rigSrcMAC, DstIP: ip, DstPort: 80}
			if g.errPct > 0 && int(rigHash(g.seed, a, 21)%100) < g.errPct {
				req = &scan.Request{Err: &rigErr{"request", a}}
			}
			select {
			case <-ctx.Done():
				return
			case out <- req:
			}
		}
	}()
	return out, nil
}

func c11runDest(run *vlab.Run, c c11destCase) {
	cache := arp.NewCache()
	seed := uint64(c.Seed)
	inCache := func(a uint32) bool { return int(rigHash(seed, a, 22)%100) < c.CachedPct }
	var gw net.HardwareAddr
	if c.Gateway {
		gw = rigGwMAC
	}
	bases := make([]uint32, c.Pipelines)
	for p := range bases {
		bases[p] = 0x0a000000 + uint32(p)<<20
		for i := 1; i <= c.N; i++ {
			a := bases[p] + uint32(i)
			if inCache(a) {
				b := oracle.U32ToIP(a)
				cache.Put(net.IP(b[:]), c11macOf(a, 0))
			}
		}
	}
	// IPv6 neighbours whose low 32 bits equal a target address: other hosts, never to be used
	for p := range bases {
		for i := 1; i <= c.N && i <= 200; i++ {
			a := bases[p] + uint32(i)
			v6 := net.ParseIP(fmt.Sprintf("fe80::%x:%x", a>>16, a&0xffff))
			cache.Put(v6, net.HardwareAddr{6, 0x66, 0x66, 0x66, 0x66, byte(i)})
		}
	}
	ctx, cancel := context.WithCancel(context.Background())
	defer cancel()
	stop := make(chan struct{})
	var churnOps int64
	var cw sync.WaitGroup
	if c.Churn {
		for k := 0; k < 2; k++ {
			cw.Add(1)
			go func(k int) {
				defer cw.Done()
				r := rand.New(rand.NewSource(c.Seed + int64(k)))
				for {
					select {
					case <-stop:
						return
					default:
					}
					// keys that no request ever uses (172.16/12), and re-Puts of the same value for used keys
					a := 0xac100000 + uint32(r.Intn(4096))
					b := oracle.U32ToIP(a)
					if r.Intn(2) == 0 {
						cache.Put(net.IP(b[:]), c11macOf(a, 9))
					} else {
						cache.Delete(net.IP(b[:]))
					}
					u := bases[r.Intn(len(bases))] + uint32(1+r.Intn(c.N))
					if inCache(u) {
						ub := oracle.U32ToIP(u)
						cache.Put(net.IP(ub[:]), c11macOf(u, 0))
					}
					atomic.AddInt64(&churnOps, 3)
				}
			}(k)
		}
	}
	type bad struct{ key, desc string }
	var mu sync.Mutex
	var bads []bad
	var nCache, nGw, nErr, nPass int64
	var wg sync.WaitGroup
	for p := 0; p < c.Pipelines; p++ {
		wg.Add(1)
		go func(p int) {
			defer wg.Done()
			g := arp.NewCacheRequestGenerator(&c11gen{n: c.N, base: bases[p], form16: c.Form16, errPct: c.ErrPct, seed: seed}, gw, cache)
			reqs, err := g.GenerateRequests(ctx, &scan.Range{})
			if err != nil {
				mu.Lock()
				bads = append(bads, bad{"dest:generator-error", err.Error()})
				mu.Unlock()
				return
			}
			next := uint32(1)
			report := func(key, format string, a ...interface{}) {
				mu.Lock()
				if len(bads) < 5 {
					bads = append(bads, bad{key, fmt.Sprintf(format, a...)})
				}
				mu.Unlock()
			}
			for r := range reqs {
				a := bases[p] + next
				next++
				failed := c.ErrPct > 0 && int(rigHash(seed, a, 21)%100) < c.ErrPct
				if failed {
					if re, ok := r.Err.(*rigErr); !ok || re.id != a {
						report("dest:error-request-altered", "request %s that already carried an error came out as err=%v dst=%v", oracle.IPString(oracle.U32ToIP(a)), r.Err, r.DstIP)
					}
					atomic.AddInt64(&nPass, 1)
					continue
				}
				if r.DstIP == nil || r.DstIP.To4() == nil || binary.BigEndian.Uint32(r.DstIP.To4()) != a {
					report("dest:order-or-identity", "request #%d of pipeline %d came out with destination %v (expected %s): requests lost, duplicated or reordered", next-1, p, r.DstIP, oracle.IPString(oracle.U32ToIP(a)))
					return
				}
				switch {
				case inCache(a):
					if r.Err != nil || !bytes.Equal(r.DstMAC, c11macOf(a, 0)) {
						report("dest:wrong-mac", "probe to %s: destination MAC %v (err %v); its cache entry is %v", oracle.IPString(oracle.U32ToIP(a)), r.DstMAC, r.Err, c11macOf(a, 0))
					}
					atomic.AddInt64(&nCache, 1)
				case c.Gateway:
					if r.Err != nil || !bytes.Equal(r.DstMAC, rigGwMAC) {
						report("dest:wrong-mac", "probe to %s (not in the cache): destination MAC %v (err %v); the gateway MAC is %v", oracle.IPString(oracle.U32ToIP(a)), r.DstMAC, r.Err, rigGwMAC)
					}
					atomic.AddInt64(&nGw, 1)
				default:
					if r.Err == nil {
						report("dest:no-error", "probe to %s has neither a cache entry nor a gateway MAC but was passed on with destination MAC %v instead of an error", oracle.IPString(oracle.U32ToIP(a)), r.DstMAC)
					}
					atomic.AddInt64(&nErr, 1)
				}
			}
			if int(next-1) != c.N {
				report("dest:count", "pipeline %d delivered %d of %d requests", p, next-1, c.N)
			}
		}(p)
	}
	_, finished, parked := run.Watch(120*time.Second, "v-byte-cpu/sx/", wg.Wait)
	close(stop)
	cw.Wait()
	if !finished {
		if parked {
			run.Violation("dest:stuck", fmt.Sprintf("cache stage did not finish: %+v", c), c)
		} else {
			run.Inconclusive(fmt.Sprintf("cache stage still running: %+v", c))
		}
		return
	}
	for _, b := range bads {
		run.Violation(b.key, b.desc+fmt.Sprintf(" (%+v)", c), c)
	}
	run.Eval(c.N * c.Pipelines)
	run.Count("requests_checked", int64(c.N*c.Pipelines))
	run.Count("dest_from_cache", nCache)
	run.Count("dest_gateway", nGw)
	run.Count("dest_error", nErr)
	run.Count("error_requests_passed_through", nPass)
	run.Count("concurrent_cache_updates", atomic.LoadInt64(&churnOps))
	if c.Pipelines > 1 {
		run.Count("shared_cache_runs", 1)
	}
	run.Distinct(fmt.Sprintf("%+v", c))
	if run.WantSample() && c.Pipelines > 1 {
		run.Sample(map[string]interface{}{"case": c, "from_cache": nCache, "via_gateway": nGw, "errors": nErr})
	}
}

func TestVerifC11Dest(t *testing.T) {
	run := vlab.Begin(t, "C11", "dest")
	defer run.End()
	rng := run.Rand("dest")
	var cases []c11destCase
	reps := run.Pick(2, 16)
	for r := 0; r < reps; r++ {
		for _, pl := range []int{1, 2, 8, 64} {
			for _, pct := range []int{0, 30, 100} {
				for _, gwOn := range []bool{true, false} {
					n := []int{1, 100, 101, 3000}[rng.Intn(4)]
					if pl == 64 {
						n = []int{50, 500}[rng.Intn(2)]
					}
					cases = append(cases, c11destCase{N: n, Pipelines: pl, CachedPct: pct, Gateway: gwOn, Churn: pl > 1 || rng.Intn(2) == 0, Form16: rng.Intn(3) == 0, ErrPct: []int{0, 0, 10, 100}[rng.Intn(4)], Seed: rng.Int63()})
				}
			}
		}
	}
	for i, c := range cases {
		if !run.Mine(i) {
			continue
		}
		run.Case(fmt.Sprintf("dest%05d", i), c)
		c11runDest(run, c)
	}
	// ---- the commands' own wiring through the packet engine onto the recording wire
	wired := run.Pick(64, 800)
	for i := 0; i < wired; i++ {
		if !run.Mine(len(cases) + i) {
			continue
		}
		sc := []string{"tcpsyn", "udp", "icmp", "tcpflags"}[i%4]
		bits := 24 + rng.Intn(7)
		base := (0x0a000000 | rng.Uint32()&0x00ffffff) &^ (1<<uint(32-bits) - 1)
		spec := &scanSpec{Scan: sc, Layer: "engine", Subnet: fmt.Sprintf("%s/%d", oracle.IPString(oracle.U32ToIP(base)), bits), RandSeed: rng.Int63(), Cache: map[string]string{}, NoGateway: i%3 == 0}
		if sc != "icmp" {
			spec.Ports = []string{"80", "22,443", "1000-1003"}[rng.Intn(3)]
		}
		pct := []int{0, 40, 100}[rng.Intn(3)]
		size := uint32(1) << uint(32-bits)
		for k := uint32(0); k < size; k++ {
			if rng.Intn(100) < pct {
				key := oracle.IPString(oracle.U32ToIP(base + k))
				if rng.Intn(3) == 0 {
					key = "::ffff:" + key
				}
				spec.Cache[key] = c11macOf(base+k, 1).String()
			}
		}
		// entries of hosts outside the subnet must never be used
		spec.Cache["192.0.2.1"] = "02:de:ad:be:ef:01"
		run.Case(fmt.Sprintf("wired%04d", i), spec)
		ctx, cancel := context.WithCancel(context.Background())
		b, err := buildScan(ctx, t.TempDir(), spec)
		if err != nil {
			cancel()
			run.Violation("wired:build", fmt.Sprintf("cannot build %s scan: %v", sc, err), spec)
			continue
		}
		obs := runScanDelay(run, ctx, b, 60*time.Second, 300*time.Millisecond)
		cancel()
		if obs.timeout || obs.parked {
			run.Inconclusive(fmt.Sprintf("wired run did not finish: %+v", spec))
			continue
		}
		want := func(a uint32) (string, bool) {
			for _, key := range []string{oracle.IPString(oracle.U32ToIP(a)), "::ffff:" + oracle.IPString(oracle.U32ToIP(a))} {
				if m, ok := spec.Cache[key]; ok {
					return m, true
				}
			}
			if !spec.NoGateway {
				return rigGwMAC.String(), true
			}
			return "", false
		}
		probed := map[uint32]bool{}
		for _, p := range obs.probes {
			probed[p.Addr] = true
			m, ok := want(p.Addr)
			switch {
			case !ok:
				run.Violation("wired:frame-without-mac", fmt.Sprintf("[%s] a probe to %s left with destination MAC %s although neither cache nor gateway knows one", sc, oracle.IPString(oracle.U32ToIP(p.Addr)), p.DstMAC), spec)
			case p.DstMAC != m:
				run.Violation("wired:wrong-mac", fmt.Sprintf("[%s] probe to %s is addressed to %s; cache/gateway say %s", sc, oracle.IPString(oracle.U32ToIP(p.Addr)), p.DstMAC, m), spec)
			default:
				run.Count("wired_probes_checked", 1)
			}
		}
		nNoMAC := 0
		for k := uint32(0); k < size; k++ {
			if _, ok := want(base + k); !ok {
				nNoMAC++
			} else if !probed[base+k] {
				run.Violation("wired:probe-missing", fmt.Sprintf("[%s] %s has a destination MAC but was not probed", sc, oracle.IPString(oracle.U32ToIP(base+k))), spec)
			}
		}
		if nNoMAC > 0 {
			perAddr := 1
			if sc != "icmp" {
				ports, _ := oracle.RefPortList(spec.Ports)
				perAddr = 0
				for _, pr := range ports {
					perAddr += int(pr.End-pr.Start) + 1
				}
			}
			nErrs := 0
			for _, e := range obs.errs {
				if strings.Contains(e.Error(), "no destination MAC") {
					nErrs++
				}
			}
			if obs.stall < 50*time.Millisecond && nErrs != nNoMAC*perAddr {
				run.Violation("wired:error-count", fmt.Sprintf("[%s] %d probes have no destination MAC, %d errors were logged", sc, nNoMAC*perAddr, nErrs), spec)
			}
			run.Count("wired_errors_checked", int64(nErrs))
		}
		run.Count("wired_runs", 1)
		run.Eval(len(obs.probes))
		run.Distinct(fmt.Sprintf("%+v", *spec))
	}
}

// ---- history (porcupine)

type c11op struct {
	kind string // put get del
	key  int
	val  uint64 // put: value written; get: value read (0 = absent)
}

func TestVerifC11History(t *testing.T) {
	run := vlab.Begin(t, "C11", "history")
	defer run.End()
	rng := run.Rand(fmt.Sprintf("history/%d", run.Batch()))
	model := porcupine.Model{
		Partition: func(h []porcupine.Operation) [][]porcupine.Operation {
			m := map[int][]porcupine.Operation{}
			for _, o := range h {
				k := o.Input.(c11op).key
				m[k] = append(m[k], o)
			}
			var out [][]porcupine.Operation
			for _, v := range m {
				out = append(out, v)
			}
			return out
		},
		Init: func() interface{} { return uint64(0) },
		Step: func(st, in, out interface{}) (bool, interface{}) {
			o := in.(c11op)
			switch o.kind {
			case "put":
				return true, o.val
			case "del":
				return true, uint64(0)
			}
			return out.(uint64) == st.(uint64), st
		},
		DescribeOperation: func(in, out interface{}) string {
			o := in.(c11op)
			if o.kind == "get" {
				return fmt.Sprintf("get(k%d)->%x", o.key, out)
			}
			return fmt.Sprintf("%s(k%d,%x)", o.kind, o.key, o.val)
		},
	}
	histories := run.Pick(2400, 40000) / run.NBatch()
	t0 := time.Now()
	for h := 0; h < histories; h++ {
		clients := []int{2, 3, 4, 8}[rng.Intn(4)]
		keys := 1 + rng.Intn(4)
		opsPer := 10 + rng.Intn(30)
		seed := rng.Int63()
		run.Case(fmt.Sprintf("history%05d", h), map[string]interface{}{"clients": clients, "keys": keys, "ops_per_client": opsPer, "seed": seed})
		cache := arp.NewCache()
		keyIP := func(k int, f16 bool) net.IP {
			if f16 {
				return net.IPv4(10, 9, 0, byte(k+1))
			}
			return net.IP{10, 9, 0, byte(k + 1)}
		}
		var mu sync.Mutex
		var ops []porcupine.Operation
		var wg sync.WaitGroup
		start := make(chan struct{})
		for c := 0; c < clients; c++ {
			wg.Add(1)
			go func(c int) {
				defer wg.Done()
				r := rand.New(rand.NewSource(seed + int64(c)))
				local := make([]porcupine.Operation, 0, opsPer)
				<-start
				for i := 0; i < opsPer; i++ {
					k := r.Intn(keys)
					f16 := r.Intn(2) == 0
					var in c11op
					var out uint64
					call := int64(time.Since(t0))
					switch r.Intn(10) {
					case 0, 1, 2, 3:
						v := uint64(c+1)<<32 | uint64(i+1) // unique value
						mac := make(net.HardwareAddr, 6)
						binary.BigEndian.PutUint16(mac[0:2], uint16(v>>32))
						binary.BigEndian.PutUint32(mac[2:6], uint32(v))
						in = c11op{kind: "put", key: k, val: v}
						cache.Put(keyIP(k, f16), mac)
					case 4:
						in = c11op{kind: "del", key: k}
						cache.Delete(keyIP(k, f16))
					default:
						in = c11op{kind: "get", key: k}
						if mac := cache.Get(keyIP(k, f16)); mac != nil {
							if len(mac) != 6 {
								out = ^uint64(0)
							} else {
								out = uint64(binary.BigEndian.Uint16(mac[0:2]))<<32 | uint64(binary.BigEndian.Uint32(mac[2:6]))
							}
						}
					}
					ret := int64(time.Since(t0))
					local = append(local, porcupine.Operation{ClientId: c, Input: in, Call: call, Output: out, Return: ret})
					if r.Intn(4) == 0 {
						time.Sleep(time.Duration(r.Intn(20)) * time.Microsecond)
					}
				}
				mu.Lock()
				ops = append(ops, local...)
				mu.Unlock()
			}(c)
		}
		close(start)
		wg.Wait()
		res, info := porcupine.CheckOperationsVerbose(model, ops, 10*time.Second)
		run.Eval(len(ops))
		switch res {
		case porcupine.Ok:
			run.Count("histories_linearizable", 1)
			run.Count("history_operations", int64(len(ops)))
		case porcupine.Unknown:
			run.Inconclusive(fmt.Sprintf("history %d: linearizability checker timed out (%d operations)", h, len(ops)))
		default:
			var sb strings.Builder
			for i, o := range ops {
				if i > 200 {
					break
				}
				fmt.Fprintf(&sb, "c%d [%d,%d] %s\n", o.ClientId, o.Call, o.Return, model.DescribeOperation(o.Input, o.Output))
			}
			_ = info
			run.Violation("history:not-linearizable", fmt.Sprintf("a concurrent Put/Get/Delete history of the ARP cache (%d clients, %d keys) is not linearizable with respect to a per-address register", clients, keys), sb.String())
		}
		run.Distinct(fmt.Sprintf("%d/%d/%d/%d", clients, keys, opsPer, seed))
	}
}
