//go:build verif

package command

// C12 — cancellation at any moment ends the scan cleanly and promptly.
//
// The C08 rig (generic engine) and the C07 rig (packet engine behind SetupPacketEngine and
// a real tcp.ScanMethod) are run by the real startScanEngine; the PARENT context – the one
// Ctrl-C cancels – is cancelled from inside a boundary object at the k-th event of a chosen
// kind. Small runs enumerate every k.

import (
	"context"
	"fmt"
	"net"
	"os"
	"path/filepath"
	"runtime"
	"sync/atomic"
	"syscall"
	"testing"
	"time"

	"github.com/google/gopacket/layers"
	"github.com/v-byte-cpu/sx/command/log"
	"github.com/v-byte-cpu/sx/pkg/scan"
	"github.com/v-byte-cpu/sx/pkg/scan/tcp"
	"verif.local/v/oracle"
	"verif.local/v/vlab"
)

type c12case struct {
	Engine      string `json:"engine"` // generic | packet
	N           int    `json:"targets"`
	Workers     int    `json:"workers"`
	PosPermille int    `json:"positive_permille"`
	ErrPermille int    `json:"error_permille"`
	Kind        string `json:"cancel_at_event_kind"`
	K           int    `json:"cancel_at_k"`
	Buffer      string `json:"buffer_state"` // empty | slow-out | slow-err
	HonourCtx   bool   `json:"probe_honours_ctx"`
	LatencyUs   int    `json:"max_probe_latency_us"`
	ExitDelayMs int    `json:"exit_delay_ms"`
	Seed        uint64 `json:"seed"`
}

type c12obs struct {
	returned   bool
	latency    time.Duration
	cancelled  bool
	leftover   int
}

func c12drainClosed(run *vlab.Run, ch <-chan scan.Result, what string, c c12case) {
	_, finished, parked := run.Watch(10*time.Second, "v-byte-cpu/sx/", func() {
		for range ch {
		}
	})
	if !finished {
		if parked {
			run.Violation("stream-not-closed:"+what, fmt.Sprintf("after the cancelled scan returned, the %s stream never came to an end: %+v", what, c), c)
		} else {
			run.Inconclusive(fmt.Sprintf("%s stream still open after 10 s but goroutines not parked: %+v", what, c))
		}
	}
}

func c12generic(run *vlab.Run, dir string, c c12case) (obs c12obs) {
	ctx, cancel := context.WithCancel(context.Background())
	defer cancel()
	cc := c08case{N: c.N, Workers: c.Workers, PosPermille: c.PosPermille, ErrPermille: c.ErrPermille, LatencyUs: c.LatencyUs, ExitDelayMs: c.ExitDelayMs, Seed: c.Seed}
	switch c.Buffer {
	case "slow-out":
		cc.SlowOutUs = 300
	}
	g := newGenericRig(ctx, dir, cc)
	g.scanner.honourCtx = c.HonourCtx
	var cancelT atomic.Value
	var did int32
	doCancel := func() {
		if atomic.CompareAndSwapInt32(&did, 0, 1) {
			cancelT.Store(time.Now())
			cancel()
		}
	}
	if c.Buffer == "slow-err" {
		g.logger.onError = func(int) { time.Sleep(300 * time.Microsecond) }
	}
	switch c.Kind {
	case "before-start":
		doCancel()
	case "probe-start":
		g.scanner.onStart = func(k int, _ context.Context) {
			if k == c.K {
				doCancel()
			}
		}
	case "probe-end":
		g.scanner.onEnd = func(k int) {
			if k == c.K {
				doCancel()
			}
		}
	case "line":
		g.out.onWrite = func(k int) {
			if k == c.K {
				doCancel()
			}
		}
	case "error":
		prev := g.logger.onError
		g.logger.onError = func(k int) {
			if prev != nil {
				prev(k)
			}
			if k == c.K {
				doCancel()
			}
		}
	case "exit-delay":
		go func() {
			<-g.spy.sig
			time.Sleep(time.Duration(c.K) * time.Millisecond)
			doCancel()
		}()
	}
	var retT time.Time
	var inflightAtReturn int32
	dump, finished, parked := run.Watch(40*time.Second, "v-byte-cpu/sx/", func() {
		_ = startScanEngine(ctx, g.spy, g.conf)
		inflightAtReturn = atomic.LoadInt32(&g.out.inflight)
		retT = time.Now()
	})
	run.Eval(1)
	if finished && inflightAtReturn != 0 {
		run.Violation("returned-while-a-record-was-being-written:"+c.Kind, fmt.Sprintf("startScanEngine returned after cancellation while %d write(s) of a record were still in progress: the process exits next and leaves that record cut short: %+v", inflightAtReturn, c), c)
	}
	if !finished {
		if parked {
			run.Violation("cancel-deadlock:"+c.Kind, fmt.Sprintf("startScanEngine did not return after cancellation; all sx goroutines parked: %+v", c), map[string]interface{}{"case": c, "stacks": dump})
		} else {
			run.Inconclusive(fmt.Sprintf("scan still running 40 s after start, goroutines not parked: %+v", c))
		}
		return
	}
	obs.returned = true
	if t, ok := cancelT.Load().(time.Time); ok {
		obs.cancelled = true
		obs.latency = retT.Sub(t)
	}
	// the result stream the logger was draining must come to an end (the parent context is cancelled)
	if obs.cancelled {
		c12drainClosed(run, g.spy.Results(), "result", c)
	}
	// everything written is complete records
	parseLines(run, "C12", g.out.snapshot(), c)
	time.Sleep(2 * time.Millisecond)
	runtime.Gosched()
	obs.leftover = len(vlab.GoroutineCensus("v-byte-cpu/sx/pkg"))
	return
}

// c12packet: packet engine; the wire answers every probe with a SYN-ACK so that results flow too.
func c12packet(run *vlab.Run, c c12case) (obs c12obs) {
	ctx, cancel := context.WithCancel(context.Background())
	defer cancel()
	clock := &rigClock{}
	gen := &streamGen{n: c.N, base: 0x0a000000, seed: c.Seed, errPermille: c.ErrPermille, burstAt: -1,
		port: 443, srcIP: net.IPv4(192, 168, 7, 7).To4(), srcMAC: net.HardwareAddr{2, 0, 0, 0, 0, 7}}
	wrap := newWrapFiller(tcp.NewPacketFiller(tcp.WithSYN()), c.Seed, 0, 1, clock)
	psrc := scan.NewPacketSource(gen, scan.NewPacketMultiGenerator(wrap, c.Workers))
	results := scan.NewResultChan(ctx, 1000)
	method := tcp.NewScanMethod(tcp.SYNScanType, psrc, results,
		tcp.WithPacketFilterFunc(func(pkt *layers.TCP) bool { return pkt.SYN && pkt.ACK }),
		tcp.WithPacketFlagsFunc(tcp.EmptyFlags))
	rw := newRecRW(oracle.LinkEthernet, c.Seed, 0, 1, clock)
	rw.readMode = 2
	rw.frames = make(chan []byte, c.N+8)
	out := &recOut{clock: clock}
	if c.Buffer == "slow-out" {
		out.delay = 300 * time.Microsecond
	}
	real, err := log.NewLogger(out, "rig", log.JSON())
	if err != nil {
		panic(err)
	}
	logger := &recLogger{inner: real, clock: clock}
	if c.Buffer == "slow-err" {
		logger.onError = func(int) { time.Sleep(300 * time.Microsecond) }
	}
	var cancelT atomic.Value
	var did int32
	doCancel := func() {
		if atomic.CompareAndSwapInt32(&did, 0, 1) {
			cancelT.Store(time.Now())
			cancel()
		}
	}
	reply := func(probe []byte) {
		d := oracle.Decode(probe, oracle.LinkEthernet)
		if d.IP == nil || d.TCP == nil || c.PosPermille == 0 {
			return
		}
		if int(rigHash(c.Seed, oracle.IPToU32(d.IP.Dst), 31)%1000) >= c.PosPermille {
			return
		}
		seg := oracle.BuildTCP(d.IP.Dst, d.IP.Src, oracle.TCPSpec{SrcPort: d.TCP.DstPort, DstPort: d.TCP.SrcPort, Flags: oracle.FlagSYN | oracle.FlagACK, Window: 1000, DataOff: -1})
		ipb := oracle.BuildIPv4(oracle.NewIPSpec(d.IP.Dst, d.IP.Src, oracle.ProtoTCP), seg)
		f := oracle.BuildEth(d.Eth.Src, d.Eth.Dst, oracle.EtherTypeIPv4, ipb)
		select {
		case rw.frames <- f:
		default:
		}
	}
	rw.onWrite = func(k int) {
		if c.Kind == "write" && k == c.K {
			doCancel()
		}
	}
	// reactive peer: answer probes as they are written (reads the recorded events)
	stopPeer := make(chan struct{})
	go func() {
		seen := 0
		for {
			select {
			case <-stopPeer:
				return
			default:
			}
			evs := rw.snapshot()
			for ; seen < len(evs); seen++ {
				reply(evs[seen].data)
			}
			time.Sleep(50 * time.Microsecond)
		}
	}()
	defer close(stopPeer)
	switch c.Kind {
	case "before-start":
		doCancel()
	case "line":
		out.onWrite = func(k int) {
			if k == c.K {
				doCancel()
			}
		}
	case "error":
		prev := logger.onError
		logger.onError = func(k int) {
			if prev != nil {
				prev(k)
			}
			if k == c.K {
				doCancel()
			}
		}
	}
	engine := scan.SetupPacketEngine(rw, method)
	spy := newEngineSpy(engine, clock, func() int32 { return rw.inflight })
	if c.Kind == "exit-delay" {
		go func() {
			<-spy.sig
			time.Sleep(time.Duration(c.K) * time.Millisecond)
			doCancel()
		}()
	}
	conf := newEngineConfig(withLogger(logger), withScanRange(&scan.Range{}), withExitDelay(time.Duration(c.ExitDelayMs)*time.Millisecond))
	var retT time.Time
	var inflightAtReturn int32
	dump, finished, parked := run.Watch(40*time.Second, "v-byte-cpu/sx/", func() {
		_ = startScanEngine(ctx, spy, conf)
		inflightAtReturn = atomic.LoadInt32(&out.inflight)
		retT = time.Now()
	})
	run.Eval(1)
	if finished && inflightAtReturn != 0 {
		run.Violation("returned-while-a-record-was-being-written:"+c.Kind, fmt.Sprintf("startScanEngine (packet engine) returned after cancellation while %d write(s) of a record were still in progress: %+v", inflightAtReturn, c), c)
	}
	rw.closeRead() // the program closes the socket after the scan call returns
	if !finished {
		if parked {
			run.Violation("cancel-deadlock:"+c.Kind, fmt.Sprintf("startScanEngine (packet engine) did not return after cancellation; all sx goroutines parked: %+v", c), map[string]interface{}{"case": c, "stacks": dump})
		} else {
			run.Inconclusive(fmt.Sprintf("packet scan still running 40 s after start, goroutines not parked: %+v", c))
		}
		return
	}
	obs.returned = true
	if t, ok := cancelT.Load().(time.Time); ok {
		obs.cancelled = true
		obs.latency = retT.Sub(t)
		c12drainClosed(run, spy.Results(), "result", c)
	}
	for i, w := range out.snapshot() {
		if len(w) == 0 || w[len(w)-1] != '\n' || w[0] != '{' || w[len(w)-2] != '}' {
			run.Violation("output-incomplete-record", fmt.Sprintf("C12: output write #%d is not a complete record: %q: %+v", i, truncate(w, 200), c), c)
		}
	}
	return
}

func c12cases(run *vlab.Run) []c12case {
	var cases []c12case
	rng := run.Rand("cases")
	// ---- exhaustive over k for small runs (fault_enumeration)
	smallN := []int{1, 5, 16}
	if run.Thorough() {
		smallN = []int{1, 2, 5, 16, 64}
	}
	for _, n := range smallN {
		for _, buf := range []string{"empty", "slow-out", "slow-err"} {
			for _, w := range []int{1, 3, 100} {
				if w > 1 && buf != "empty" && n < 16 {
					continue
				}
				base := c12case{Engine: "generic", N: n, Workers: w, PosPermille: 500, ErrPermille: 400, Buffer: buf, HonourCtx: true, LatencyUs: 200, ExitDelayMs: 30, Seed: uint64(n*1000 + w)}
				cases = append(cases, with(base, "before-start", 0))
				for k := 1; k <= n; k++ {
					cases = append(cases, with(base, "probe-start", k), with(base, "probe-end", k))
					cases = append(cases, with(base, "line", k), with(base, "error", k)) // k beyond the count: never fires = normal exit
				}
				for _, off := range []int{0, 1, 10, 29, 31} {
					cases = append(cases, with(base, "exit-delay", off))
				}
				pb := base
				pb.Engine, pb.PosPermille, pb.ErrPermille = "packet", 700, 200
				cases = append(cases, with(pb, "before-start", 0))
				for k := 1; k <= n; k++ {
					cases = append(cases, with(pb, "write", k), with(pb, "line", k), with(pb, "error", k))
				}
				for _, off := range []int{0, 5, 29} {
					cases = append(cases, with(pb, "exit-delay", off))
				}
			}
		}
	}
	// ---- large runs with full buffers, sampled k
	m := run.Pick(500, 20000)
	kinds := []string{"probe-start", "probe-end", "line", "error", "exit-delay", "write"}
	for i := 0; i < m; i++ {
		c := c12case{Engine: "generic", N: []int{150, 1000, 3000}[rng.Intn(3)], Workers: []int{1, 7, 100, 1000}[rng.Intn(4)],
			Buffer: []string{"empty", "slow-out", "slow-err"}[rng.Intn(3)], HonourCtx: rng.Intn(4) != 0, LatencyUs: []int{0, 100, 1000}[rng.Intn(3)],
			ExitDelayMs: 30, Seed: rng.Uint64()}
		switch c.Buffer {
		case "slow-out":
			c.PosPermille, c.ErrPermille = 1000, 0 // > 2000 results pile up behind a slow writer
		case "slow-err":
			c.PosPermille, c.ErrPermille = 0, 1000 // > 100 errors pile up behind a slow error sink
		default:
			c.PosPermille, c.ErrPermille = rng.Intn(600), rng.Intn(400)
		}
		c.Kind = kinds[rng.Intn(len(kinds))]
		if rng.Intn(3) == 0 {
			c.Engine = "packet"
			if c.N > 1000 {
				c.N = 1000
			}
			c.Workers = []int{1, 2, 16}[rng.Intn(3)]
			if c.Kind == "probe-start" || c.Kind == "probe-end" {
				c.Kind = "write"
			}
		} else if c.Kind == "write" {
			c.Kind = "probe-start"
		}
		c.K = 1 + rng.Intn(c.N)
		if c.Kind == "exit-delay" {
			c.K = rng.Intn(35)
		}
		if (c.Kind == "line" || c.Kind == "error") && rng.Intn(2) == 0 {
			c.K = 1 + rng.Intn(1+c.N/4)
		}
		cases = append(cases, c)
	}
	return cases
}

func with(c c12case, kind string, k int) c12case {
	c.Kind, c.K = kind, k
	return c
}

func TestVerifC12(t *testing.T) {
	run := vlab.Begin(t, "C12", "cancel")
	defer run.End()
	dir := t.TempDir()
	var maxLat time.Duration
	for i, c := range c12cases(run) {
		if !run.Mine(i) {
			continue
		}
		run.Case(fmt.Sprintf("case%05d", i), c)
		var obs c12obs
		if c.Engine == "packet" {
			obs = c12packet(run, c)
		} else {
			obs = c12generic(run, dir, c)
		}
		if obs.cancelled {
			run.Count("cancellations_delivered", 1)
			run.Count("cancel:"+c.Engine+":"+c.Kind, 1)
			if obs.latency > maxLat {
				maxLat = obs.latency
			}
		} else if obs.returned {
			run.Count("runs_that_finished_before_cancel_point", 1)
		}
		run.Max("max_goroutines_left_after_return", int64(obs.leftover))
		run.Distinct(fmt.Sprintf("%+v", c))
		if run.WantSample() && obs.cancelled && c.N >= 16 {
			run.Sample(map[string]interface{}{"case": c, "return_latency_after_cancel_us": obs.latency.Microseconds()})
		}
	}
	run.Max("max_return_latency_after_cancel_us", maxLat.Microseconds())
}

// ---------------------------------------------------------------------------
// Cancellation while the request source itself is blocked: the target list comes from a FIFO
// or from stdin whose writer has stalled after m lines. Ctrl-C must still end the scan (the
// stuck reader may be left behind, the scan call may not wait for it).

type c12stallCase struct {
	Engine string `json:"engine"`  // generic | packet
	Input  string `json:"input"`   // fifo-ipport | fifo-addr | stdin-addr
	M      int    `json:"lines_before_the_writer_stalls"`
	Seed   int64  `json:"seed"`
}

func c12stalled(run *vlab.Run, dir string, idx int, c c12stallCase) {
	ctx, cancel := context.WithCancel(context.Background())
	defer cancel()
	clock := &rigClock{}
	var lines []string
	for i := 0; i < c.M; i++ {
		if c.Input == "fifo-ipport" {
			lines = append(lines, fmt.Sprintf("{\"ip\":\"10.7.0.%d\",\"port\":%d}\n", 1+i, 1000+i))
		} else {
			lines = append(lines, fmt.Sprintf("{\"ip\":\"10.7.0.%d\"}\n", 1+i))
		}
	}
	release := make(chan struct{})
	restore := func() {}
	ipFile := ""
	switch c.Input {
	case "stdin-addr":
		pr, pw, _ := os.Pipe()
		old := os.Stdin
		os.Stdin = pr
		restore = func() { os.Stdin = old; pw.Close(); pr.Close() }
		ipFile = "-"
		go func() {
			for _, l := range lines {
				pw.Write([]byte(l))
			}
			<-release // the writer stalls: no more data, no EOF
		}()
	default:
		ipFile = filepath.Join(dir, fmt.Sprintf("targets-%d.fifo", idx))
		if err := syscall.Mkfifo(ipFile, 0o600); err != nil {
			run.Inconclusive("mkfifo: " + err.Error())
			return
		}
		defer os.Remove(ipFile)
		go func() {
			w, err := os.OpenFile(ipFile, os.O_WRONLY, 0)
			if err != nil {
				return
			}
			for _, l := range lines {
				w.Write([]byte(l))
			}
			<-release
			w.Close()
		}()
	}
	defer restore()
	defer close(release)
	ports := ""
	if c.Input != "fifo-ipport" {
		ports = "80,81"
	}
	var did int32
	doCancel := func() {
		if atomic.CompareAndSwapInt32(&did, 0, 1) {
			cancel()
		}
	}
	out := &recOut{clock: clock}
	real, _ := log.NewLogger(out, "rig", log.JSON())
	logger := &recLogger{inner: real, clock: clock}
	var engine scan.EngineResulter
	rng := &scan.Range{SrcIP: rigSrcIP, SrcMAC: rigSrcMAC}
	if c.Engine == "generic" {
		o := &genericScanCmdOpts{ipFile: ipFile, workers: 4, json: true, rawPortRanges: ports}
		if err := o.parseRawOptions(); err != nil {
			run.Inconclusive("options: " + err.Error())
			return
		}
		rng.Ports = o.portRanges
		sc := newRecScanner(uint64(c.Seed), 300, 100, 0, clock)
		sc.onStart = func(k int, _ context.Context) {
			if k == c.M {
				doCancel()
			}
		}
		engine = o.newScanEngine(ctx, sc)
	} else {
		o := &tcpCmdOpts{}
		o.ipFile, o.rawPortRanges = ipFile, ports
		if err := o.parseRawOptions(); err != nil {
			run.Inconclusive("options: " + err.Error())
			return
		}
		o.scanRange = rng
		rng.Ports = o.portRanges
		o.vpnMode = true
		rw := newRecRW(oracle.LinkRawIP, uint64(c.Seed), 0, 0, clock)
		rw.readMode = 1
		defer rw.closeRead()
		rw.onWrite = func(k int) {
			if k == c.M {
				doCancel()
			}
		}
		m := o.newTCPScanMethod(ctx, withTCPScanName("tcpsyn"), withTCPPacketFillerOptions(tcp.WithSYN()), withTCPPacketFilterFunc(tcp.TrueFilter), withTCPPacketFlags(tcp.EmptyFlags))
		engine = scan.SetupPacketEngine(rw, m)
	}
	if c.M == 0 {
		go func() { time.Sleep(50 * time.Millisecond); doCancel() }()
	} else {
		// safety net: if the m-th event never comes (e.g. the whole input is awaited first), cancel anyway
		go func() { time.Sleep(500 * time.Millisecond); doCancel() }()
	}
	conf := newEngineConfig(withLogger(logger), withScanRange(rng), withExitDelay(20*time.Millisecond))
	dump, finished, parked := run.Watch(8*time.Second, "v-byte-cpu/sx/", func() {
		_ = startScanEngine(ctx, engine, conf)
	})
	run.Eval(1)
	if !finished {
		if parked {
			run.Violation("cancel-deadlock:stalled-input:"+c.Input, fmt.Sprintf("startScanEngine did not return after cancellation while the target list (%s) was stalled after %d lines; all sx goroutines parked: %+v", c.Input, c.M, c), map[string]interface{}{"case": c, "stacks": dump})
		} else {
			run.Inconclusive(fmt.Sprintf("scan still running, goroutines not parked: %+v", c))
		}
		return
	}
	run.Count("cancel:stalled-input", 1)
	run.Count("cancellations_delivered", 1)
}

func TestVerifC12Stalled(t *testing.T) {
	run := vlab.Begin(t, "C12", "stalled")
	defer run.End()
	dir := t.TempDir()
	var cases []c12stallCase
	for r := 0; r < run.Pick(2, 12); r++ {
		for _, e := range []string{"generic", "packet"} {
			for _, in := range []string{"fifo-ipport", "fifo-addr", "stdin-addr"} {
				for _, m := range []int{0, 1, 5, 40} {
					cases = append(cases, c12stallCase{Engine: e, Input: in, M: m, Seed: int64(r*1000 + m)})
				}
			}
		}
	}
	for i, c := range cases {
		if !run.Mine(i) {
			continue
		}
		run.Case(fmt.Sprintf("stall%04d", i), c)
		c12stalled(run, dir, i, c)
		run.Distinct(fmt.Sprintf("%+v", c))
	}
}
