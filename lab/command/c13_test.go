//go:build verif

package command

// C13 — bad target-list entries become one faithful error each, never a probe.
//
// Target files are built from a line-class table with the bad line at every position of
// files of length <= 6 (exhaustive class x position), through the real wiring of each
// command (file generators, exclusion filter, ARP-cache stage with and without gateway MAC),
// observed at the generator chain and behind the packet / generic engine.

import (
	"bufio"
	"context"
	"errors"
	"fmt"
	"math/rand"
	"sort"
	"strings"
	"testing"
	"time"

	"github.com/v-byte-cpu/sx/pkg/scan"
	"verif.local/v/oracle"
	"verif.local/v/vlab"
)

type c13class struct {
	Name   string
	Line   func(ipStr string, port int) string
	Causes []string // acceptable cause labels
	ModeOK string   // "ipport", "addr", "both"
}

var c13long = strings.Repeat("x", 70000)

var c13classes = []c13class{
	{"no-ip", func(ip string, p int) string { return fmt.Sprintf(`{"port":%d}`, p) }, []string{"ip"}, "both"},
	{"empty-ip", func(ip string, p int) string { return fmt.Sprintf(`{"ip":"","port":%d}`, p) }, []string{"ip"}, "both"},
	{"bad-addr-256", func(ip string, p int) string { return fmt.Sprintf(`{"ip":"10.0.0.256","port":%d}`, p) }, []string{"ip"}, "both"},
	{"bad-addr-text", func(ip string, p int) string { return fmt.Sprintf(`{"ip":"not-an-address","port":%d}`, p) }, []string{"ip"}, "both"},
	{"no-port", func(ip string, p int) string { return fmt.Sprintf(`{"ip":"%s"}`, ip) }, []string{"port"}, "ipport"},
	{"port-0", func(ip string, p int) string { return fmt.Sprintf(`{"ip":"%s","port":0}`, ip) }, []string{"port"}, "ipport"},
	{"port-65536", func(ip string, p int) string { return fmt.Sprintf(`{"ip":"%s","port":65536}`, ip) }, []string{"port"}, "ipport"},
	{"port-negative", func(ip string, p int) string { return fmt.Sprintf(`{"ip":"%s","port":-1}`, ip) }, []string{"port"}, "ipport"},
	{"port-huge", func(ip string, p int) string { return fmt.Sprintf(`{"ip":"%s","port":4294967376}`, ip) }, []string{"port", "json"}, "ipport"},
	{"ip-wrong-type", func(ip string, p int) string { return fmt.Sprintf(`{"ip":5,"port":%d}`, p) }, []string{"json", "ip"}, "both"},
	{"port-wrong-type", func(ip string, p int) string { return fmt.Sprintf(`{"ip":"%s","port":"80"}`, ip) }, []string{"json", "port"}, "ipport"},
	{"invalid-json", func(ip string, p int) string { return `{"ip":"10.0.` }, []string{"json"}, "both"},
	{"not-an-object", func(ip string, p int) string { return `["10.0.0.1",80]` }, []string{"json"}, "both"},
	{"blank-line", func(ip string, p int) string { return `` }, []string{"json"}, "both"},
	// address spellings that only a more liberal parser accepts (IPv6 zones, a zone on an IPv4-mapped address)
	{"addr-v6-zone", func(ip string, p int) string { return fmt.Sprintf(`{"ip":"fe80::1%%eth0","port":%d}`, p) }, []string{"ip"}, "both"},
	{"addr-mapped-zone", func(ip string, p int) string { return fmt.Sprintf(`{"ip":"::ffff:%s%%eth0","port":%d}`, ip, p) }, []string{"ip"}, "both"},
	{"addr-trailing-dot", func(ip string, p int) string { return fmt.Sprintf(`{"ip":"%s.","port":%d}`, ip, p) }, []string{"ip"}, "both"},
	{"addr-leading-zero", func(ip string, p int) string { return fmt.Sprintf(`{"ip":"010.1.2.3","port":%d}`, p) }, []string{"ip"}, "both"},
	// a genuine IPv6 address: well-formed, but this scanner probes IPv4 only - whichever stage refuses it, it is one
	// error and never a probe (least of all to the IPv4 address that its last four bytes happen to spell)
	{"addr-ipv6", func(ip string, p int) string { return fmt.Sprintf(`{"ip":"2001:db8::a00:1","port":%d}`, p) }, []string{"ip", "mac:2001:db8::a00:1"}, "both"},
	{"addr-ipv6-linklocal", func(ip string, p int) string { return fmt.Sprintf(`{"ip":"fe80::c0a8:1","port":%d}`, p) }, []string{"ip", "mac:fe80::c0a8:1"}, "both"},
	// two defects in one line are still one entry: one error record (either cause may be stated)
	{"empty-object", func(ip string, p int) string { return `{}` }, []string{"ip", "port"}, "ipport"},
	{"both-bad", func(ip string, p int) string { return `{"ip":"10.0.0.300","port":65536}` }, []string{"ip", "port"}, "ipport"},
	{"both-empty", func(ip string, p int) string { return `{"ip":"","port":0}` }, []string{"ip", "port"}, "ipport"},
	{"unknown-fields-only", func(ip string, p int) string { return `{"host":"10.0.0.1","dport":80}` }, []string{"ip", "port"}, "ipport"},
	{"over-long-line", func(ip string, p int) string {
		return fmt.Sprintf(`{"ip":"%s","port":%d,"pad":"%s"}`, ip, p, c13long)
	}, []string{"toolong"}, "both"},
}

type c13line struct {
	Class string // "valid" or a class name
	Addr  uint32
	Port  int
	text  string
}

type c13case struct {
	Scan      string    `json:"scan"`
	Layer     string    `json:"layer"`
	Mode      string    `json:"mode"` // ipport | addr
	Ports     string    `json:"ports,omitempty"`
	Lines     []c13line `json:"lines"`
	Exclude   bool      `json:"with_exclude"`
	NoGateway bool      `json:"no_gateway_mac"`
	VPN       bool      `json:"vpn"`
	SlowErrUs int       `json:"error_sink_delay_us,omitempty"`
	RandSeed  int64     `json:"rand_seed"`
}

func c13cause(e error) string {
	switch {
	case e == scan.ErrIP:
		return "ip"
	case e == scan.ErrPort:
		return "port"
	case e == scan.ErrJSON:
		return "json"
	case errors.Is(e, bufio.ErrTooLong):
		return "toolong"
	}
	s := strings.ToLower(e.Error())
	switch {
	case strings.Contains(s, "too long"):
		return "toolong"
	case strings.Contains(s, "no destination mac"):
		i := strings.LastIndex(s, " ")
		return "mac:" + s[i+1:]
	case strings.Contains(s, "port range"):
		return "portrange"
	case strings.Contains(s, "invalid ip") || strings.Contains(s, "invalid address") || strings.Contains(s, "invalid destination ipv4 address") || strings.Contains(s, "address is ipv6"):
		return "ip"
	case strings.Contains(s, "invalid port"):
		return "port"
	case strings.Contains(s, "json"):
		return "json"
	}
	return "other:" + e.Error()
}

type c13expect struct {
	probes map[string]int // "ip:port:mac"
	errs   [][]string     // each: acceptable labels
}

// c13reference: reference semantics of one consumption of the file, stopping after bad line
// number stopAfter (index into Lines; -1 = never stop).
func c13reference(c *c13case, ports []oracle.PortRange, ex []oracle.CIDR, cache map[uint32]string, stopAfter int) c13expect {
	exp := c13expect{probes: map[string]int{}}
	classBy := map[string]c13class{}
	for _, k := range c13classes {
		classBy[k.Name] = k
	}
	onePass := func(port int) {
		for i, l := range c.Lines {
			if l.Class != "valid" {
				exp.errs = append(exp.errs, classBy[l.Class].Causes)
				if i == stopAfter {
					return
				}
				continue
			}
			p := l.Port
			if port >= 0 {
				p = port
			}
			if oracle.Excluded(l.Addr, ex) {
				continue
			}
			mac := ""
			if !c.VPN && c.Scan != "generic" {
				mac = cache[l.Addr]
				if mac == "" && !c.NoGateway {
					mac = oracle.MACString(rigGwMAC)
				}
				if mac == "" {
					exp.errs = append(exp.errs, []string{"mac:" + oracle.IPString(oracle.U32ToIP(l.Addr))})
					continue
				}
			}
			if c.Scan == "icmp" {
				p = 0
			}
			exp.probes[fmt.Sprintf("%s:%d:%s", oracle.IPString(oracle.U32ToIP(l.Addr)), p, mac)]++
		}
	}
	if c.Mode == "ipport" || c.Scan == "icmp" {
		onePass(-1)
	} else {
		for _, r := range ports {
			for p := int(r.Start); p <= int(r.End); p++ {
				onePass(p)
			}
		}
	}
	return exp
}

func c13match(exp c13expect, probes map[string]int, causes []string) (string, bool) {
	for k, n := range exp.probes {
		if probes[k] != n {
			return fmt.Sprintf("probe %s: expected x%d, seen x%d", k, n, probes[k]), false
		}
	}
	for k, n := range probes {
		if exp.probes[k] == 0 {
			return fmt.Sprintf("unexpected probe %s (x%d)", k, n), false
		}
	}
	// errors: a maximum matching between the expectations (each with its acceptable causes) and the error records
	// (greedy assignment can starve a later expectation that had only one acceptable cause left)
	es := append([][]string(nil), exp.errs...)
	sort.SliceStable(es, func(i, j int) bool { return len(es[i]) < len(es[j]) })
	owner := make([]int, len(causes)) // error record -> expectation
	for k := range owner {
		owner[k] = -1
	}
	var try func(e int, seen []bool) bool
	try = func(e int, seen []bool) bool {
		for k, c := range causes {
			if seen[k] {
				continue
			}
			fits := false
			for _, a := range es[e] {
				if a == c {
					fits = true
				}
			}
			if !fits {
				continue
			}
			seen[k] = true
			if owner[k] < 0 || try(owner[k], seen) {
				owner[k] = e
				return true
			}
		}
		return false
	}
	have := map[string]int{}
	for _, c := range causes {
		have[c]++
	}
	for e, alts := range es {
		if !try(e, make([]bool, len(causes))) {
			return fmt.Sprintf("no error record stating the cause %v (errors seen: %v)", alts, causes), false
		}
	}
	for k, c := range causes {
		if owner[k] >= 0 {
			have[c]--
		}
	}
	for k, n := range have {
		if n > 0 {
			return fmt.Sprintf("%d extra error record(s) with cause %q (errors seen: %v)", n, k, causes), false
		}
	}
	return "", true
}

func c13run(run *vlab.Run, dir string, c *c13case) {
	ctx, cancel := context.WithCancel(context.Background())
	defer cancel()
	rand.Seed(c.RandSeed)
	var fb strings.Builder
	for _, l := range c.Lines {
		fb.WriteString(l.text)
		fb.WriteByte('\n')
	}
	spec := &scanSpec{Scan: c.Scan, Layer: c.Layer, Ports: c.Ports, HasFile: true, FileContent: fb.String(), VPN: c.VPN, NoGateway: c.NoGateway, RandSeed: c.RandSeed, Workers: 3, SlowErrUs: c.SlowErrUs}
	// stack: exclusion covers the first valid entry's /31; cache knows every second valid address
	var ex []oracle.CIDR
	cache := map[uint32]string{}
	spec.Cache = map[string]string{}
	nv := 0
	for _, l := range c.Lines {
		if l.Class != "valid" {
			continue
		}
		if nv == 0 && c.Exclude {
			spec.Exclude = fmt.Sprintf("# excluded\n%s/31\n198.51.100.0/24\n", oracle.IPString(oracle.U32ToIP(l.Addr&^1)))
			ex, _ = oracle.RefExcludeFile(spec.Exclude)
		}
		if nv%2 == 1 {
			mac := fmt.Sprintf("02:aa:00:00:%02x:%02x", byte(l.Addr>>8), byte(l.Addr))
			cache[l.Addr] = mac
			spec.Cache[oracle.IPString(oracle.U32ToIP(l.Addr))] = mac
		}
		nv++
	}
	var ports []oracle.PortRange
	if c.Ports != "" {
		ports, _ = oracle.RefPortList(c.Ports)
	}
	b, err := buildScan(ctx, dir, spec)
	if err != nil {
		run.Violation("spec-rejected", fmt.Sprintf("%v: %+v", err, c), c)
		return
	}
	exitDelay := 100 * time.Millisecond
	if c.SlowErrUs > 0 {
		exitDelay = 500 * time.Millisecond // up to ~200 queued records x the sink's delay must drain
	}
	obs := runScanDelay(run, ctx, b, 120*time.Second, exitDelay)
	run.Eval(1)
	if obs.parked {
		run.Violation("scan-parked", fmt.Sprintf("scan over a file with a bad entry did not complete: %+v", c), c)
		return
	}
	if obs.timeout {
		run.Inconclusive("timeout")
		return
	}
	probes := map[string]int{}
	for _, p := range obs.probes {
		probes[fmt.Sprintf("%s:%d:%s", oracle.IPString(oracle.U32ToIP(p.Addr)), p.Port, p.DstMAC)]++
	}
	var causes []string
	for _, e := range obs.errs {
		causes = append(causes, c13cause(e))
	}
	sort.Strings(causes)
	// acceptable: stop after any bad line, or never
	stops := []int{-1}
	for i, l := range c.Lines {
		if l.Class != "valid" {
			stops = append(stops, i)
		}
	}
	why := ""
	for _, s := range stops {
		w, ok := c13match(c13reference(c, ports, ex, cache, s), probes, causes)
		if ok {
			run.Count("files_checked", 1)
			run.Count("error_records_matched", int64(len(causes)))
			run.Count("probes_matched", int64(len(obs.probes)))
			return
		}
		if s == -1 {
			why = w
		}
	}
	if obs.stall > 30*time.Millisecond && c.Layer == "engine" {
		run.Inconclusive(fmt.Sprintf("mismatch (%s) but the monitor was stalled for %v, comparable to the 100 ms exit delay", why, obs.stall))
		return
	}
	// classify for the key
	bad := "none"
	for _, l := range c.Lines {
		if l.Class != "valid" {
			bad = l.Class
			break
		}
	}
	stack := ""
	if c.Exclude {
		stack += "+exclude"
	}
	if c.NoGateway {
		stack += "+nogw"
	}
	var lines []string
	for _, l := range c.Lines {
		t := l.text
		if len(t) > 80 {
			t = t[:80] + "…"
		}
		lines = append(lines, t)
	}
	run.Violation(fmt.Sprintf("bad-entry:%s:%s%s", bad, c.Mode, stack),
		fmt.Sprintf("%s/%s/%s%s file %q: %s; probes seen %v; error causes seen %v", c.Scan, c.Layer, c.Mode, stack, lines, why, probes, causes),
		map[string]interface{}{"scan": c.Scan, "layer": c.Layer, "mode": c.Mode, "ports": c.Ports, "file": lines, "exclude": spec.Exclude, "cache": spec.Cache, "no_gateway": c.NoGateway, "vpn": c.VPN})
}

func c13cases(run *vlab.Run) []*c13case {
	rng := run.Rand("cases")
	var cases []*c13case
	type variant struct {
		scan, layer, mode, ports string
	}
	variants := []variant{
		{"tcpsyn", "gen", "ipport", ""}, {"tcpsyn", "engine", "ipport", ""}, {"udp", "engine", "ipport", ""},
		{"generic", "gen", "ipport", ""}, {"generic", "engine", "ipport", ""},
		{"icmp", "engine", "addr", ""}, {"tcpfin", "gen", "addr", "80,443"}, {"tcpfin", "engine", "addr", "80,443"},
		{"generic", "engine", "addr", "22,8080-8081"}, {"udp", "gen", "addr", "53"},
	}
	mkLine := func(class string, n int) c13line {
		addr := uint32(0x0a000000) + uint32(2*n+2)
		port := 1000 + n
		l := c13line{Class: class, Addr: addr, Port: port}
		ipStr := oracle.IPString(oracle.U32ToIP(addr))
		if class == "valid" {
			l.text = fmt.Sprintf(`{"ip":"%s","port":%d}`, ipStr, port)
			return l
		}
		for _, k := range c13classes {
			if k.Name == class {
				l.text = k.Line(ipStr, port)
			}
		}
		return l
	}
	// ---- exhaustive: class x position x file length <= maxLen
	maxLen := run.Pick(4, 6)
	for _, v := range variants {
		for _, k := range c13classes {
			if k.ModeOK != "both" && k.ModeOK != v.mode {
				continue
			}
			if strings.HasPrefix(k.Name, "addr-ipv6") && (v.layer != "engine" || v.scan == "generic") {
				continue // refused where the frame is built: only a run through the whole engine shows the error
			}
			for L := 1; L <= maxLen; L++ {
				for pos := 0; pos < L; pos++ {
					if k.Name == "over-long-line" && (L+pos)%3 != 0 {
						continue // 70 KB lines: every third (length,position) cell
					}
					for stack := 0; stack < 4; stack++ {
						c := &c13case{Scan: v.scan, Layer: v.layer, Mode: v.mode, Ports: v.ports, Exclude: stack&1 != 0, NoGateway: stack&2 != 0, RandSeed: int64(L*100 + pos)}
						if c.NoGateway && v.scan == "generic" {
							continue
						}
						for i := 0; i < L; i++ {
							if i == pos {
								c.Lines = append(c.Lines, mkLine(k.Name, i))
							} else {
								c.Lines = append(c.Lines, mkLine("valid", i))
							}
						}
						cases = append(cases, c)
					}
				}
			}
		}
	}
	// ---- random longer files with several bad lines
	for i := 0; i < run.Pick(300, 6000); i++ {
		v := variants[rng.Intn(len(variants))]
		c := &c13case{Scan: v.scan, Layer: v.layer, Mode: v.mode, Ports: v.ports, Exclude: rng.Intn(2) == 0, NoGateway: rng.Intn(3) == 0 && v.scan != "generic", VPN: rng.Intn(6) == 0 && v.scan != "generic", RandSeed: rng.Int63()}
		if c.VPN {
			c.NoGateway = false
		}
		n := 7 + rng.Intn(60)
		for j := 0; j < n; j++ {
			class := "valid"
			if rng.Intn(6) == 0 {
				for {
					k := c13classes[rng.Intn(len(c13classes))]
					if (k.ModeOK == "both" || k.ModeOK == v.mode) && k.Name != "over-long-line" && !(strings.HasPrefix(k.Name, "addr-ipv6") && (v.layer != "engine" || v.scan == "generic")) {
						class = k.Name
						break
					}
				}
			}
			c.Lines = append(c.Lines, mkLine(class, j))
		}
		cases = append(cases, c)
	}
	// ---- bursts of bad lines larger than every error buffer (100 slots), read by a slow error sink:
	// one error per bad entry still, none dropped, neighbours unaffected
	for i := 0; i < run.Pick(40, 400); i++ {
		v := variants[rng.Intn(len(variants))]
		if v.layer != "engine" {
			continue
		}
		c := &c13case{Scan: v.scan, Layer: v.layer, Mode: v.mode, Ports: v.ports, Exclude: rng.Intn(2) == 0, RandSeed: rng.Int63(), SlowErrUs: []int{200, 1000, 2000}[rng.Intn(3)]}
		n := 150 + rng.Intn(250)
		for j := 0; j < n; j++ {
			class := "valid"
			if rng.Intn(3) != 0 {
				for {
					k := c13classes[rng.Intn(len(c13classes))]
					if (k.ModeOK == "both" || k.ModeOK == v.mode) && k.Name != "over-long-line" && len(k.Causes) == 1 && (k.Causes[0] == "ip" || k.Causes[0] == "port") {
						class = k.Name
						break
					}
				}
			}
			c.Lines = append(c.Lines, mkLine(class, j))
		}
		cases = append(cases, c)
	}
	return cases
}

func TestVerifC13(t *testing.T) {
	run := vlab.Begin(t, "C13", "badlines")
	defer run.End()
	dir := t.TempDir()
	for i, c := range c13cases(run) {
		if !run.Mine(i) {
			continue
		}
		run.Case(fmt.Sprintf("case%05d", i), map[string]interface{}{"scan": c.Scan, "layer": c.Layer, "mode": c.Mode, "exclude": c.Exclude, "nogw": c.NoGateway, "n": len(c.Lines), "seed": c.RandSeed})
		c13run(run, dir, c)
		var cls []string
		for _, l := range c.Lines {
			cls = append(cls, l.Class)
		}
		run.Distinct(fmt.Sprintf("%s/%s/%s/%v/%v/%v/%v", c.Scan, c.Layer, c.Mode, c.Exclude, c.NoGateway, c.VPN, cls))
		if run.WantSample() && len(c.Lines) >= 4 && len(c.Lines) <= 6 && c.Exclude && c.NoGateway {
			var lines []string
			for _, l := range c.Lines {
				t := l.text
				if len(t) > 60 {
					t = t[:60] + "…"
				}
				lines = append(lines, t)
			}
			run.Sample(map[string]interface{}{"scan": c.Scan, "layer": c.Layer, "mode": c.Mode, "ports": c.Ports, "file": lines, "stack": "exclude+arp-cache-without-gateway"})
		}
	}
	// unsupported port range (start > end): exactly one error, no probe
	if run.Batch() == 0 {
		for _, sc := range []string{"tcpsyn", "udp", "generic"} {
			for _, layer := range []string{"gen", "engine"} {
				ctx, cancel := context.WithCancel(context.Background())
				spec := &scanSpec{Scan: sc, Layer: layer, Subnet: "10.1.2.0/30", Ports: "80,9-3", RandSeed: 1, Workers: 2}
				run.Case("unsupported-range/"+sc+"/"+layer, spec)
				b, err := buildScan(ctx, dir, spec)
				if err != nil {
					cancel()
					run.Count("unsupported_range_rejected_at_parse", 1)
					continue
				}
				obs := runScanDelay(run, ctx, b, 60*time.Second, 100*time.Millisecond)
				cancel()
				run.Eval(1)
				if len(obs.probes) != 0 || len(obs.errs) != 1 || c13cause(obs.errs[0]) != "portrange" {
					run.Violation("unsupported-range", fmt.Sprintf("%s/%s with -p 80,9-3: expected exactly one 'invalid port range' error and no probe; got %d probes, errors %v", sc, layer, len(obs.probes), obs.errs), spec)
				}
				run.Count("unsupported_range_checked", 1)
			}
		}
	}
}
