//go:build verif

package command

// C14 — JSON output: one complete, faithful JSON object per result, in order.
//
// The real logger (log.NewLogger(w, label, log.JSON()), log.NewUniqueLogger) is fed with
// results of all seven result types whose fields carry hostile data, through a writer that
// records every Write call separately and notices overlapping Write calls.
//
//	values: every Write is exactly one line = one JSON object, no duplicate or unknown keys,
//	        the documented key set, and every value decodes back to the result's field
//	        (invalid UTF-8 modulo U+FFFD, the only faithful JSON rendering); docker/elastic
//	        results are populated reflectively / with nested server-supplied maps.
//	        Every entry of the OUI vendor table is pushed through the real ARP processor.
//	sequences: order of lines = order of production (one producer), per-producer order and
//	        completeness (many producers), de-duplication = first sightings, against a set model.

import (
	"bytes"
	"context"
	"encoding/json"
	"fmt"
	"io"
	"math"
	"math/rand"
	"reflect"
	"sort"
	"strings"
	"sync"
	"sync/atomic"
	"testing"
	"time"
	"unicode/utf8"

	"github.com/google/gopacket"
	"github.com/google/gopacket/macs"
	"github.com/v-byte-cpu/sx/command/log"
	"github.com/v-byte-cpu/sx/pkg/scan"
	"github.com/v-byte-cpu/sx/pkg/scan/arp"
	"github.com/v-byte-cpu/sx/pkg/scan/docker"
	"github.com/v-byte-cpu/sx/pkg/scan/elastic"
	"github.com/v-byte-cpu/sx/pkg/scan/icmp"
	"github.com/v-byte-cpu/sx/pkg/scan/socks5"
	"github.com/v-byte-cpu/sx/pkg/scan/tcp"
	"verif.local/v/oracle"
	"verif.local/v/vlab"
)

// c14out records each Write call and whether two Write calls ever overlapped.
type c14out struct {
	inflight int32
	overlap  int32
	delay    time.Duration
	stallFirst time.Duration
	mu       sync.Mutex
	writes   [][]byte
}

func (o *c14out) Write(p []byte) (int, error) {
	if atomic.AddInt32(&o.inflight, 1) > 1 {
		atomic.StoreInt32(&o.overlap, 1)
	}
	cp := append([]byte(nil), p...)
	if o.stallFirst > 0 {
		o.mu.Lock()
		first := len(o.writes) == 0
		o.mu.Unlock()
		if first {
			time.Sleep(o.stallFirst)
		}
	}
	if o.delay > 0 {
		time.Sleep(o.delay)
	}
	o.mu.Lock()
	o.writes = append(o.writes, cp)
	o.mu.Unlock()
	atomic.AddInt32(&o.inflight, -1)
	return len(p), nil
}

// c14san: what a faithful JSON rendering of s decodes to (each invalid byte -> U+FFFD).
func c14san(s string) string {
	if utf8.ValidString(s) {
		return s
	}
	var sb strings.Builder
	for i := 0; i < len(s); {
		r, n := utf8.DecodeRuneInString(s[i:])
		if r == utf8.RuneError && n == 1 {
			sb.WriteString("\ufffd")
		} else {
			sb.WriteString(s[i : i+n])
		}
		i += n
	}
	return sb.String()
}

var c14pieces = []string{`"`, `\`, `\"`, `\\`, `\n`, "\n", "\r", "\r\n", "\t", "\x00", "\x01", "\x1f", "\x7f", "\u2028", "\u2029", "<", ">", "&", "</script>", "'", "`",
	`","ip":"6.6.6.6`, `"}` + "\n" + `{"ip":"6.6.6.6"`, `\u0000`, `\ud800`, "é", "日本語", "😀", "\xff", "\xc0\xaf", "\xed\xa0\x80", "\xf4\x90\x80\x80", "\xe2\x82", "\x80", "\xc3", "\ufffd", "\ufeff",
	"{", "}", "[", "]", ":", ",", "null", "true", "1e999", " ", "  ", "/", `\/`, "%s", "%d", "%!s(MISSING)", "{{.}}", "$(id)",
	// literal text that looks like an escape sequence the encoder itself emits (a server can send these six characters)
	`\u0026`, `\u003c`, `\u003e`, `\\u0026`, `u0026`, `\u003C`, `&amp;`, `\u2028`, `\x3c`}

// very long values: up to 1 MiB in the thorough tier, 150 kB in the quick one (a 1 MiB string of hostile bytes
// costs seconds under the race detector, several of them per round)
var c14longSizes = []int{1000, 70000, 1 << 20}

func c14str(rng *rand.Rand, valid bool) string {
	switch rng.Intn(12) {
	case 0:
		return ""
	case 1:
		return fmt.Sprintf("host-%d", rng.Intn(1000))
	case 2: // long
		n := c14longSizes[rng.Intn(3)]
		if rng.Intn(4) != 0 {
			n = 1000
		}
		b := make([]byte, n)
		for i := range b {
			b[i] = "ab\"\\\n<é"[rng.Intn(7)]
		}
		s := string(b)
		if valid {
			s = c14san(s)
		}
		return s
	case 3: // random bytes
		b := make([]byte, rng.Intn(24))
		rng.Read(b)
		if valid {
			return c14san(string(b))
		}
		return string(b)
	}
	var sb strings.Builder
	for n := 1 + rng.Intn(6); n > 0; n-- {
		if rng.Intn(3) == 0 {
			sb.WriteString(fmt.Sprintf("x%d", rng.Intn(100)))
		} else {
			sb.WriteString(c14pieces[rng.Intn(len(c14pieces))])
		}
	}
	if valid {
		return c14san(sb.String())
	}
	return sb.String()
}

// ---- mirror structures (independent of the result packages)

type c14mARP struct {
	IP     string `json:"ip"`
	MAC    string `json:"mac"`
	Vendor string `json:"vendor"`
}
type c14mICMP struct {
	Scan string `json:"scan"`
	IP   string `json:"ip"`
	TTL  uint8  `json:"ttl"`
	ICMP *struct {
		Type uint8 `json:"type"`
		Code uint8 `json:"code"`
	} `json:"icmp"`
}
type c14mTCP struct {
	Scan  string `json:"scan"`
	IP    string `json:"ip"`
	Port  uint16 `json:"port"`
	Flags string `json:"flags"`
}
type c14mSocks struct {
	Scan    string `json:"scan"`
	Version int    `json:"version"`
	IP      string `json:"ip"`
	Port    uint16 `json:"port"`
	Auth    bool   `json:"auth"`
}
type c14mGeneric struct {
	Scan    string          `json:"scan"`
	Proto   string          `json:"proto"`
	Host    string          `json:"host"`
	Info    json.RawMessage `json:"info"`
	Indexes json.RawMessage `json:"indexes"`
	Version json.RawMessage `json:"version"`
}

// c14topKeys returns the top-level keys of a JSON object in order (duplicates kept).
func c14topKeys(line []byte) ([]string, error) {
	dec := json.NewDecoder(bytes.NewReader(line))
	tok, err := dec.Token()
	if err != nil {
		return nil, err
	}
	if d, ok := tok.(json.Delim); !ok || d != '{' {
		return nil, fmt.Errorf("not a JSON object (starts with %v)", tok)
	}
	var keys []string
	for dec.More() {
		tok, err := dec.Token()
		if err != nil {
			return nil, err
		}
		k, ok := tok.(string)
		if !ok {
			return nil, fmt.Errorf("key token %v", tok)
		}
		keys = append(keys, k)
		var raw json.RawMessage
		if err := dec.Decode(&raw); err != nil {
			return nil, err
		}
	}
	if _, err := dec.Token(); err != nil {
		return nil, err
	}
	if _, err := dec.Token(); err != io.EOF {
		return nil, fmt.Errorf("data after the object")
	}
	return keys, nil
}

type c14item struct {
	kind   string
	res    scan.Result
	keys   []string                 // expected key set
	verify func(line []byte) string // "" ok, else description
	desc   string
}

func c14strict(line []byte, v interface{}) error {
	dec := json.NewDecoder(bytes.NewReader(line))
	dec.DisallowUnknownFields()
	return dec.Decode(v)
}

func c14randIPish(rng *rand.Rand, hostile bool) string {
	if hostile && rng.Intn(3) == 0 {
		return c14str(rng, false)
	}
	return oracle.IPString(oracle.U32ToIP(rng.Uint32()))
}

// ---- reflective population (docker types.Info / types.Version)

func c14fill(v reflect.Value, rng *rand.Rand, depth int) {
	switch v.Kind() {
	case reflect.String:
		v.SetString(c14str(rng, true))
	case reflect.Bool:
		v.SetBool(rng.Intn(2) == 0)
	case reflect.Int, reflect.Int8, reflect.Int16, reflect.Int32, reflect.Int64:
		x := []int64{0, 1, -1, math.MaxInt64, math.MinInt64, rng.Int63()}[rng.Intn(6)]
		if v.OverflowInt(x) {
			x = int64(rng.Intn(100))
		}
		v.SetInt(x)
	case reflect.Uint, reflect.Uint8, reflect.Uint16, reflect.Uint32, reflect.Uint64:
		x := []uint64{0, 1, math.MaxUint64, uint64(rng.Int63())}[rng.Intn(4)]
		if v.OverflowUint(x) {
			x = uint64(rng.Intn(100))
		}
		v.SetUint(x)
	case reflect.Float32, reflect.Float64:
		v.SetFloat([]float64{0, 1.5, -2.25, 1e20, 1e-7, float64(rng.Intn(1000))}[rng.Intn(6)])
	case reflect.Ptr:
		if depth < 4 && rng.Intn(3) != 0 {
			p := reflect.New(v.Type().Elem())
			c14fill(p.Elem(), rng, depth+1)
			v.Set(p)
		}
	case reflect.Struct:
		if v.Type() == reflect.TypeOf(time.Time{}) {
			v.Set(reflect.ValueOf(time.Unix(int64(rng.Intn(2000000000)), int64(rng.Intn(1000))*1000000).UTC()))
			return
		}
		for i := 0; i < v.NumField(); i++ {
			f := v.Field(i)
			if tag := v.Type().Field(i).Tag.Get("json"); tag == "-" || strings.HasPrefix(tag, "-,") {
				continue // not part of the JSON rendering
			}
			if f.CanSet() {
				c14fill(f, rng, depth+1)
			}
		}
	case reflect.Slice:
		if depth >= 5 || rng.Intn(3) == 0 {
			return // nil
		}
		if v.Type().Elem().Kind() == reflect.Uint8 {
			b := make([]byte, 1+rng.Intn(8))
			rng.Read(b)
			v.SetBytes(b)
			return
		}
		n := 1 + rng.Intn(3)
		s := reflect.MakeSlice(v.Type(), n, n)
		for i := 0; i < n; i++ {
			c14fill(s.Index(i), rng, depth+1)
		}
		v.Set(s)
	case reflect.Array:
		for i := 0; i < v.Len(); i++ {
			c14fill(v.Index(i), rng, depth+1)
		}
	case reflect.Map:
		if depth >= 5 || rng.Intn(3) == 0 || v.Type().Key().Kind() != reflect.String {
			return
		}
		m := reflect.MakeMap(v.Type())
		for n := 1 + rng.Intn(3); n > 0; n-- {
			k := reflect.New(v.Type().Key()).Elem()
			k.SetString(fmt.Sprintf("k%d%s", rng.Intn(1000), c14str(rng, true)))
			e := reflect.New(v.Type().Elem()).Elem()
			c14fill(e, rng, depth+1)
			m.SetMapIndex(k, e)
		}
		v.Set(m)
	case reflect.Interface:
		// left nil
	}
}

// c14tree: random JSON-like tree as a server could send it (what encoding/json decodes into).
func c14tree(rng *rand.Rand, depth int) interface{} {
	if depth > 5 {
		return c14str(rng, true)
	}
	switch rng.Intn(9) {
	case 0:
		return nil
	case 1:
		return rng.Intn(2) == 0
	case 2:
		return []float64{0, -1, 1.5, 1e21, 123456789, 1e-9, float64(rng.Int63n(1 << 53))}[rng.Intn(7)]
	case 3, 4:
		return c14str(rng, true)
	case 5:
		n := rng.Intn(4)
		a := make([]interface{}, n)
		for i := range a {
			a[i] = c14tree(rng, depth+1)
		}
		return a
	}
	return c14obj(rng, depth+1)
}

func c14obj(rng *rand.Rand, depth int) map[string]interface{} {
	m := map[string]interface{}{}
	for n := rng.Intn(5); n > 0; n-- {
		m[c14str(rng, true)] = c14tree(rng, depth+1)
	}
	return m
}

func c14deep(n int) map[string]interface{} {
	root := map[string]interface{}{}
	cur := root
	for i := 0; i < n; i++ {
		next := map[string]interface{}{}
		cur["d"] = next
		cur = next
	}
	cur["leaf"] = "x\"y"
	return root
}

// c14make builds one result of the given kind with hostile content and its verifier.
func c14make(rng *rand.Rand, kind string, uid int) *c14item {
	tag := fmt.Sprintf("#%d#", uid) // unique marker placed in a string field: identifies the line
	it := &c14item{kind: kind}
	mismatch := func(field string, got, want interface{}) string {
		return fmt.Sprintf("field %s decodes to %.200q, the result holds %.200q", field, fmt.Sprint(got), fmt.Sprint(want))
	}
	switch kind {
	case "arp":
		r := &arp.ScanResult{IP: tag + c14randIPish(rng, true), MAC: c14str(rng, false), Vendor: c14str(rng, false)}
		it.res, it.keys = r, []string{"ip", "mac", "vendor"}
		it.verify = func(line []byte) string {
			var m c14mARP
			if err := c14strict(line, &m); err != nil {
				return "decode: " + err.Error()
			}
			switch {
			case m.IP != c14san(r.IP):
				return mismatch("ip", m.IP, r.IP)
			case m.MAC != c14san(r.MAC):
				return mismatch("mac", m.MAC, r.MAC)
			case m.Vendor != c14san(r.Vendor):
				return mismatch("vendor", m.Vendor, r.Vendor)
			}
			return ""
		}
	case "icmp", "udp":
		r := &icmp.ScanResult{ScanType: kind, IP: tag + c14randIPish(rng, true), TTL: uint8(rng.Intn(256)), ICMP: &icmp.Response{Type: uint8(rng.Intn(256)), Code: uint8(rng.Intn(256))}}
		if rng.Intn(4) == 0 {
			r.ScanType = c14str(rng, false)
		}
		it.res, it.keys = r, []string{"scan", "ip", "ttl", "icmp"}
		it.verify = func(line []byte) string {
			var m c14mICMP
			if err := c14strict(line, &m); err != nil {
				return "decode: " + err.Error()
			}
			switch {
			case m.Scan != c14san(r.ScanType):
				return mismatch("scan", m.Scan, r.ScanType)
			case m.IP != c14san(r.IP):
				return mismatch("ip", m.IP, r.IP)
			case m.TTL != r.TTL:
				return mismatch("ttl", m.TTL, r.TTL)
			case m.ICMP == nil:
				return "icmp object missing"
			case m.ICMP.Type != r.ICMP.Type || m.ICMP.Code != r.ICMP.Code:
				return mismatch("icmp", *m.ICMP, *r.ICMP)
			}
			return ""
		}
	case "tcp":
		r := &tcp.ScanResult{ScanType: []string{"tcpsyn", "tcpfin", "tcpflags", c14str(rng, false)}[rng.Intn(4)], IP: tag + c14randIPish(rng, true), Port: uint16(rng.Intn(65536))}
		switch rng.Intn(3) {
		case 0:
			r.Flags = oracle.FlagString(uint16(1 + rng.Intn(511)))
		case 1:
			r.Flags = c14str(rng, false)
		}
		it.res = r
		it.keys = []string{"scan", "ip", "port"}
		if r.Flags != "" {
			it.keys = append(it.keys, "flags")
		}
		it.verify = func(line []byte) string {
			var m c14mTCP
			if err := c14strict(line, &m); err != nil {
				return "decode: " + err.Error()
			}
			switch {
			case m.Scan != c14san(r.ScanType):
				return mismatch("scan", m.Scan, r.ScanType)
			case m.IP != c14san(r.IP):
				return mismatch("ip", m.IP, r.IP)
			case m.Port != r.Port:
				return mismatch("port", m.Port, r.Port)
			case m.Flags != c14san(r.Flags):
				return mismatch("flags", m.Flags, r.Flags)
			}
			return ""
		}
	case "socks":
		r := &socks5.ScanResult{ScanType: "socks", Version: []int{5, 4, 0, -1, 255, rng.Int()}[rng.Intn(6)], IP: tag + c14randIPish(rng, true), Port: uint16(rng.Intn(65536)), Auth: rng.Intn(2) == 0}
		it.res = r
		it.keys = []string{"scan", "version", "ip", "port"}
		if r.Auth {
			it.keys = append(it.keys, "auth")
		}
		it.verify = func(line []byte) string {
			var m c14mSocks
			if err := c14strict(line, &m); err != nil {
				return "decode: " + err.Error()
			}
			switch {
			case m.Scan != r.ScanType:
				return mismatch("scan", m.Scan, r.ScanType)
			case m.Version != r.Version:
				return mismatch("version", m.Version, r.Version)
			case m.IP != c14san(r.IP):
				return mismatch("ip", m.IP, r.IP)
			case m.Port != r.Port:
				return mismatch("port", m.Port, r.Port)
			case m.Auth != r.Auth:
				return mismatch("auth", m.Auth, r.Auth)
			}
			return ""
		}
	case "elastic":
		r := &elastic.ScanResult{ScanType: "elastic", Proto: []string{"http", "https"}[rng.Intn(2)], Host: tag + c14randIPish(rng, false) + ":9200", Info: c14obj(rng, 0), Indexes: c14obj(rng, 0)}
		switch rng.Intn(8) {
		case 0:
			r.Indexes = nil // secondary request failed
		case 1:
			r.Info = c14deep(300)
		case 2:
			r.Info["version"] = map[string]interface{}{"number": c14str(rng, true), "build": c14str(rng, true)}
			r.Info["cluster_name"] = c14str(rng, true)
		}
		it.res, it.keys = r, []string{"scan", "proto", "host", "info", "indexes"}
		it.verify = func(line []byte) string {
			var m c14mGeneric
			if err := c14strict(line, &m); err != nil {
				return "decode: " + err.Error()
			}
			if m.Scan != r.ScanType || m.Proto != r.Proto || m.Host != r.Host {
				return mismatch("scan/proto/host", []string{m.Scan, m.Proto, m.Host}, []string{r.ScanType, r.Proto, r.Host})
			}
			var info, idx map[string]interface{}
			if err := json.Unmarshal(m.Info, &info); err != nil {
				return "info: " + err.Error()
			}
			if err := json.Unmarshal(m.Indexes, &idx); err != nil {
				return "indexes: " + err.Error()
			}
			if !reflect.DeepEqual(info, r.Info) {
				return mismatch("info", info, r.Info)
			}
			if !(reflect.DeepEqual(idx, r.Indexes) || (len(idx) == 0 && len(r.Indexes) == 0)) {
				return mismatch("indexes", idx, r.Indexes)
			}
			return ""
		}
	case "docker":
		r := &docker.ScanResult{ScanType: "docker", Proto: []string{"http", "https"}[rng.Intn(2)], Host: tag + c14randIPish(rng, false) + ":2375"}
		c14fill(reflect.ValueOf(&r.Info).Elem(), rng, 0)
		if rng.Intn(4) != 0 {
			c14fill(reflect.ValueOf(&r.Version).Elem(), rng, 0)
		}
		it.res, it.keys = r, []string{"scan", "proto", "host", "info", "version"}
		it.verify = func(line []byte) string {
			var m c14mGeneric
			if err := c14strict(line, &m); err != nil {
				return "decode: " + err.Error()
			}
			if m.Scan != r.ScanType || m.Proto != r.Proto || m.Host != r.Host {
				return mismatch("scan/proto/host", []string{m.Scan, m.Proto, m.Host}, []string{r.ScanType, r.Proto, r.Host})
			}
			back := &docker.ScanResult{}
			if err := json.Unmarshal(m.Info, &back.Info); err != nil {
				return "info: " + err.Error()
			}
			if err := json.Unmarshal(m.Version, &back.Version); err != nil {
				return "version: " + err.Error()
			}
			if !reflect.DeepEqual(back.Info, r.Info) {
				return "docker info does not decode back to the result's Info: " + c14firstDiff(reflect.ValueOf(back.Info), reflect.ValueOf(r.Info), "info")
			}
			if !reflect.DeepEqual(back.Version, r.Version) {
				return "docker version does not decode back: " + c14firstDiff(reflect.ValueOf(back.Version), reflect.ValueOf(r.Version), "version")
			}
			return ""
		}
	}
	it.desc = kind + " " + tag
	return it
}

func c14firstDiff(a, b reflect.Value, path string) string {
	if a.Kind() == reflect.Struct && a.Type() != reflect.TypeOf(time.Time{}) {
		for i := 0; i < a.NumField(); i++ {
			if !reflect.DeepEqual(a.Field(i).Interface(), b.Field(i).Interface()) {
				return c14firstDiff(a.Field(i), b.Field(i), path+"."+a.Type().Field(i).Name)
			}
		}
	}
	return fmt.Sprintf("%s: %.150q vs %.150q", path, fmt.Sprint(a.Interface()), fmt.Sprint(b.Interface()))
}

// c14checkLine applies the per-line oracle.
func c14checkLine(run *vlab.Run, w []byte, it *c14item) bool {
	wit := map[string]interface{}{"result": it.desc, "write": fmt.Sprintf("%.600q", w)}
	bad := func(key, format string, a ...interface{}) bool {
		run.Violation(it.kind+":"+key, fmt.Sprintf("[%s] ", it.kind)+fmt.Sprintf(format, a...), wit)
		return false
	}
	if len(w) == 0 || w[len(w)-1] != '\n' {
		return bad("no-newline", "output chunk does not end with a newline: %.120q", w)
	}
	body := w[:len(w)-1]
	if bytes.IndexByte(body, '\n') >= 0 || bytes.IndexByte(body, '\r') >= 0 {
		return bad("line-split", "one result was written as more than one line: %.200q", w)
	}
	if !json.Valid(body) {
		return bad("invalid-json", "line is not valid JSON: %.200q", w)
	}
	keys, err := c14topKeys(body)
	if err != nil {
		return bad("not-one-object", "line is not exactly one JSON object: %v: %.200q", err, w)
	}
	got := append([]string(nil), keys...)
	sort.Strings(got)
	want := append([]string(nil), it.keys...)
	sort.Strings(want)
	if strings.Join(got, ",") != strings.Join(want, ",") {
		return bad("key-set", "keys %v, documented keys for this result are %v", keys, it.keys)
	}
	if msg := it.verify(body); msg != "" {
		return bad("value", "%s", msg)
	}
	return true
}

func c14logger(out io.Writer, unique bool) log.Logger {
	l, err := log.NewLogger(out, "c14", log.JSON())
	if err != nil {
		panic(err)
	}
	if unique {
		return log.NewUniqueLogger(l)
	}
	return l
}

// c14feed pushes items through the logger from one producer and waits for LogResults to return.
func c14feed(run *vlab.Run, l log.Logger, items []scan.Result, chanCap int) bool {
	ch := make(chan scan.Result, chanCap)
	go func() {
		for _, r := range items {
			ch <- r
		}
		close(ch)
	}()
	_, finished, _ := run.Watch(120*time.Second, "v-byte-cpu/sx/", func() { l.LogResults(context.Background(), ch) })
	return finished
}

var c14kinds = []string{"arp", "icmp", "udp", "tcp", "socks", "elastic", "docker"}

func TestVerifC14Values(t *testing.T) {
	run := vlab.Begin(t, "C14", "values")
	defer run.End()
	rng := run.Rand(fmt.Sprintf("values/%d", run.Batch()))
	if !run.Thorough() {
		c14longSizes = []int{1000, 70000, 150000}
	}
	rounds := run.Pick(60, 900) / run.NBatch()
	if rounds < 2 {
		rounds = 2
	}
	uid := 0
	for round := 0; round < rounds; round++ {
		n := 20 + rng.Intn(120)
		items := make([]*c14item, n)
		results := make([]scan.Result, n)
		for i := range items {
			uid++
			kind := c14kinds[rng.Intn(len(c14kinds))]
			if round%7 == 3 {
				kind = c14kinds[round/7%len(c14kinds)] // homogeneous rounds too
			}
			items[i] = c14make(rng, kind, uid)
			results[i] = items[i].res
		}
		run.Case(fmt.Sprintf("round%04d", round), map[string]interface{}{"results": n, "first": items[0].desc})
		out := &c14out{}
		if !c14feed(run, c14logger(out, false), results, []int{0, 1, 1000}[rng.Intn(3)]) {
			run.Inconclusive(fmt.Sprintf("round %d: logger did not return", round))
			continue
		}
		run.Eval(n)
		if atomic.LoadInt32(&out.overlap) != 0 {
			run.Violation("concurrent-writes", "two Write calls on the output overlapped (lines can interleave)", nil)
		}
		if len(out.writes) != n {
			run.Violation("line-count", fmt.Sprintf("%d results produced %d output chunks (merged, split or lost)", n, len(out.writes)), map[string]interface{}{"first_write": fmt.Sprintf("%.300q", firstOr(out.writes))})
			continue
		}
		for i, w := range out.writes {
			if c14checkLine(run, w, items[i]) {
				run.Count("lines_ok:"+items[i].kind, 1)
				run.Count("lines_verified", 1)
			}
			run.Distinct(items[i].kind + "/" + vlab.HashStr(string(w)))
		}
		if run.WantSample() {
			run.Sample(map[string]interface{}{"kind": items[0].kind, "line": fmt.Sprintf("%.300s", out.writes[0])})
		}
	}
	// ---- every vendor of the OUI table through the real ARP processor and the real logger
	var prefixes [][3]byte
	for p := range macs.ValidMACPrefixMap {
		prefixes = append(prefixes, p)
	}
	sort.Slice(prefixes, func(a, b int) bool { return bytes.Compare(prefixes[a][:], prefixes[b][:]) < 0 })
	var mine [][3]byte
	for i, p := range prefixes {
		if run.Mine(i) {
			mine = append(mine, p)
		}
	}
	for start := 0; start < len(mine); start += 500 {
		end := start + 500
		if end > len(mine) {
			end = len(mine)
		}
		sink := &syncResults{}
		proc := arp.NewScanMethod(nil, sink)
		type exp struct{ ip, mac, vendor string }
		var exps []exp
		for _, p := range mine[start:end] {
			sha := [6]byte{p[0], p[1], p[2], byte(rng.Intn(256)), byte(rng.Intn(256)), byte(rng.Intn(256))}
			spa := oracle.U32ToIP(rng.Uint32())
			frame := oracle.BuildEth(c06macA, sha, oracle.EtherTypeARP, oracle.BuildARP(2, sha, spa, c06macA, [4]byte{10, 0, 0, 1}))
			run.Case("oui", fmt.Sprintf("%x", frame))
			before := len(sink.items)
			if err := proc.ProcessPacketData(exact(frame), nil); err != nil || len(sink.items) != before+1 {
				run.Violation("arp:oui-not-reported", fmt.Sprintf("valid ARP reply from %s not reported (err %v)", oracle.MACString(sha[:]), err), fmt.Sprintf("%x", frame))
				continue
			}
			exps = append(exps, exp{oracle.IPString(spa), oracle.MACString(sha[:]), macs.ValidMACPrefixMap[p]})
		}
		out := &c14out{}
		if !c14feed(run, c14logger(out, false), sink.items, 100) || len(out.writes) != len(exps) {
			run.Violation("line-count", fmt.Sprintf("%d ARP results produced %d lines", len(exps), len(out.writes)), nil)
			continue
		}
		for i, w := range out.writes {
			e := exps[i]
			it := &c14item{kind: "arp", keys: []string{"ip", "mac", "vendor"}, desc: fmt.Sprintf("arp %+v", e), verify: func(line []byte) string {
				var m c14mARP
				if err := c14strict(line, &m); err != nil {
					return "decode: " + err.Error()
				}
				if m.IP != e.ip || m.MAC != e.mac || m.Vendor != c14san(e.vendor) {
					return fmt.Sprintf("decodes to %+v, the frame/vendor table say %+v", m, e)
				}
				return ""
			}}
			if c14checkLine(run, w, it) {
				run.Count("oui_vendors_verified", 1)
			}
		}
		run.Eval(len(exps))
	}
}

func firstOr(w [][]byte) []byte {
	if len(w) == 0 {
		return nil
	}
	return w[0]
}

// ---- sequences

type c14seqCase struct {
	Kind      string `json:"kind"` // fifo | producers | dedup
	N         int    `json:"results"`
	IDs       int    `json:"distinct_ids"`
	Pattern   string `json:"pattern"`
	ChanCap   int    `json:"chan_cap"`
	Producers int    `json:"producers"`
	SlowOut   bool   `json:"slow_output"`
	Seed      int64  `json:"seed"`
}

func c14idOf(line []byte) (host string, seq int, ok bool) {
	var m c14mARP
	if c14strict(bytes.TrimRight(line, "\n"), &m) != nil {
		return "", 0, false
	}
	if _, err := fmt.Sscanf(m.MAC, "seq-%d", &seq); err != nil {
		return "", 0, false
	}
	return m.IP, seq, true
}

func c14runSeq(run *vlab.Run, c c14seqCase) {
	rng := rand.New(rand.NewSource(c.Seed))
	out := &c14out{}
	if c.SlowOut {
		out.delay = 20 * time.Microsecond
	}
	// the id sequence
	ids := make([]int, c.N)
	switch c.Pattern {
	case "unique":
		for i := range ids {
			ids[i] = i
		}
	case "uniform":
		for i := range ids {
			ids[i] = rng.Intn(c.IDs)
		}
	case "bursts":
		for i := 0; i < c.N; {
			id, l := rng.Intn(c.IDs), 1+rng.Intn(40)
			for k := 0; k < l && i < c.N; k++ {
				ids[i] = id
				i++
			}
		}
	case "passes": // live ARP: the same hosts in a new random order every pass, a few hosts appear late
		perm := rng.Perm(c.IDs)
		for i := 0; i < c.N; {
			rng.Shuffle(len(perm), func(a, b int) { perm[a], perm[b] = perm[b], perm[a] })
			pass := i / c.IDs
			for _, id := range perm {
				if i >= c.N {
					break
				}
				if id%5 == 4 && pass < id%7 { // host not yet up
					continue
				}
				ids[i] = id
				i++
			}
		}
	case "aba":
		for i := range ids {
			ids[i] = []int{0, 1, 0, 2, 1, 0, 3}[i%7] % c.IDs
		}
	}
	mk := func(i int) scan.Result {
		// MAC carries the production index: the printed line identifies which sighting was printed
		return &arp.ScanResult{IP: fmt.Sprintf("10.%d.%d.%d", ids[i]>>16&255, ids[i]>>8&255, ids[i]&255), MAC: fmt.Sprintf("seq-%d", i), Vendor: "v\"\n"}
	}
	if c.Kind == "icmppipe" || c.Kind == "tcppipe" {
		// the whole receive side: frames -> the scan's own processor -> the engine's result channel -> the JSON
		// logger, while the output stalls at its first line: line i must carry the values of frame i (results that
		// are queued must not share state with the ones produced after them)
		ctx, cancel := context.WithCancel(context.Background())
		defer cancel()
		out.stallFirst = 200 * time.Millisecond
		rc := scan.NewResultChan(ctx, 1000)
		var proc interface {
			ProcessPacketData(data []byte, ci *gopacket.CaptureInfo) error
		}
		if c.Kind == "icmppipe" {
			proc = icmp.NewPacketProcessor("icmp", rc, true)
		} else {
			proc = tcp.NewScanMethod("tcpflags", nil, rc, tcp.WithScanVPNmode(true))
		}
		l := c14logger(out, false)
		done := make(chan struct{})
		go func() { defer close(done); l.LogResults(ctx, rc.Chan()) }()
		type want struct {
			ip          string
			a, b, third int
		}
		wants := make([]want, c.N)
		dst := [4]byte{192, 0, 2, 1}
		_, finished, parked := run.Watch(120*time.Second, "v-byte-cpu/sx/", func() {
			for i := 0; i < c.N; i++ {
				src := [4]byte{10, byte(i >> 16), byte(i >> 8), byte(i)}
				var fr []byte
				if c.Kind == "icmppipe" {
					typ, code := uint8(i%7*3), uint8(i%251)
					if typ == 8 {
						typ = 11
					}
					sp := oracle.NewIPSpec(src, dst, oracle.ProtoICMP)
					sp.TTL = uint8(1 + i%250)
					fr = oracle.BuildIPv4(sp, oracle.BuildICMP(typ, code, 1, 1, []byte("12345678")))
					wants[i] = want{oracle.IPString(src), int(typ), int(code), int(sp.TTL)}
				} else {
					flags := uint16(1 + i%511)
					port := uint16(1 + i%65535)
					fr = oracle.BuildIPv4(oracle.NewIPSpec(src, dst, oracle.ProtoTCP), oracle.BuildTCP(src, dst, oracle.TCPSpec{SrcPort: port, DstPort: 40000, Flags: flags, DataOff: -1}))
					wants[i] = want{oracle.IPString(src), int(port), int(flags), 0}
				}
				if err := proc.ProcessPacketData(fr, &gopacket.CaptureInfo{CaptureLength: len(fr), Length: len(fr)}); err != nil {
					run.Violation("pipe:processor-error", fmt.Sprintf("well-formed frame %d rejected: %v", i, err), c)
					return
				}
			}
			for w := 0; w < 6000; w++ {
				out.mu.Lock()
				n := len(out.writes)
				out.mu.Unlock()
				if n >= c.N {
					break
				}
				time.Sleep(5 * time.Millisecond)
			}
			cancel()
			<-done
		})
		run.Eval(c.N)
		if !finished {
			if parked {
				run.Violation("logger-stuck", fmt.Sprintf("receive pipeline did not finish: %+v", c), c)
			} else {
				run.Inconclusive(fmt.Sprintf("receive pipeline still going: %+v", c))
			}
			return
		}
		out.mu.Lock()
		writes := out.writes
		out.mu.Unlock()
		if len(writes) != c.N {
			run.Violation("seq:count", fmt.Sprintf("%d frames processed, %d lines printed: %+v", c.N, len(writes), c), c)
			return
		}
		for i, w := range writes {
			var m struct {
				IP    string `json:"ip"`
				TTL   int    `json:"ttl"`
				Port  int    `json:"port"`
				Flags string `json:"flags"`
				ICMP  struct {
					Type int `json:"type"`
					Code int `json:"code"`
				} `json:"icmp"`
			}
			if json.Unmarshal(bytes.TrimRight(w, "\n"), &m) != nil {
				run.Violation("seq:line-unparseable", fmt.Sprintf("line %d is not a JSON object: %.200q", i, w), c)
				return
			}
			wt := wants[i]
			ok := m.IP == wt.ip
			if c.Kind == "icmppipe" {
				ok = ok && m.ICMP.Type == wt.a && m.ICMP.Code == wt.b && m.TTL == wt.third
			} else {
				ok = ok && m.Port == wt.a && m.Flags == oracle.FlagString(uint16(wt.b))
			}
			if !ok {
				run.Violation("pipe:line-carries-values-of-another-frame", fmt.Sprintf("line %d (%.160q) does not carry the values of frame %d (%+v): results that wait behind a stalled output share state with later ones: %+v", i, w, i, wt, c), c)
				return
			}
		}
		run.Count("receive_pipeline_runs", 1)
		run.Count("sequence_lines", int64(len(writes)))
		return
	}
	if c.Kind == "enginechan" {
		// the engines' own result channel (two chained buffers) between one producer - the receiver - and the logger,
		// with an output that stalls at its first line while thousands of results pile up behind it
		ctx, cancel := context.WithCancel(context.Background())
		defer cancel()
		out.stallFirst = 250 * time.Millisecond
		rc := scan.NewResultChan(ctx, 1000)
		l := c14logger(out, false)
		done := make(chan struct{})
		go func() { defer close(done); l.LogResults(ctx, rc.Chan()) }()
		_, finished, parked := run.Watch(120*time.Second, "v-byte-cpu/sx/", func() {
			for i := 0; i < c.N; i++ {
				rc.Put(mk(i))
			}
			for w := 0; w < 6000; w++ { // everything that was put is printed in the end
				out.mu.Lock()
				n := len(out.writes)
				out.mu.Unlock()
				if n >= c.N {
					break
				}
				time.Sleep(5 * time.Millisecond)
			}
			cancel()
			<-done
		})
		run.Eval(c.N)
		if !finished {
			if parked {
				run.Violation("logger-stuck", fmt.Sprintf("producer/logger did not finish: %+v", c), c)
			} else {
				run.Inconclusive(fmt.Sprintf("engine-channel run still going: %+v", c))
			}
			return
		}
		out.mu.Lock()
		writes := out.writes
		out.mu.Unlock()
		if len(writes) != c.N {
			run.Violation("seq:count", fmt.Sprintf("%d results were put into the engine's result channel, %d lines were printed within 30 s: %+v", c.N, len(writes), c), c)
			return
		}
		for i, w := range writes {
			_, sq, ok := c14idOf(w)
			if !ok || sq != i {
				run.Violation("seq:order", fmt.Sprintf("line %d is result #%d: a stalled output made results overtake each other in the engine's result channel: %+v", i, sq, c), c)
				return
			}
		}
		run.Count("engine_channel_runs", 1)
		run.Count("sequence_lines", int64(len(writes)))
		return
	}
	ctx := context.Background()
	ch := make(chan scan.Result, c.ChanCap)
	l := c14logger(out, c.Kind == "dedup")
	var wg sync.WaitGroup
	prod := c.Producers
	if prod < 1 {
		prod = 1
	}
	for p := 0; p < prod; p++ {
		wg.Add(1)
		go func(p int) {
			defer wg.Done()
			for i := p; i < c.N; i += prod {
				ch <- mk(i)
			}
		}(p)
	}
	go func() { wg.Wait(); close(ch) }()
	_, finished, parked := run.Watch(180*time.Second, "v-byte-cpu/sx/", func() { l.LogResults(ctx, ch) })
	if !finished {
		if parked {
			run.Violation("logger-stuck", fmt.Sprintf("LogResults did not return after the result stream was closed: %+v", c), c)
		} else {
			run.Inconclusive(fmt.Sprintf("logger still running: %+v", c))
		}
		return
	}
	run.Eval(c.N)
	if atomic.LoadInt32(&out.overlap) != 0 {
		run.Violation("concurrent-writes", fmt.Sprintf("two Write calls on the output overlapped: %+v", c), c)
	}
	type seen struct {
		host string
		seq  int
	}
	var lines []seen
	for _, w := range out.writes {
		if len(w) == 0 || w[len(w)-1] != '\n' || bytes.Count(w, []byte("\n")) != 1 {
			run.Violation("seq:not-one-line", fmt.Sprintf("output chunk is not exactly one line: %.200q (%+v)", w, c), c)
			return
		}
		h, s, ok := c14idOf(w)
		if !ok || s < 0 || s >= c.N {
			run.Violation("seq:line-unparseable", fmt.Sprintf("output line does not decode to a produced result: %.200q (%+v)", w, c), c)
			return
		}
		lines = append(lines, seen{h, s})
	}
	run.Count("sequence_lines", int64(len(lines)))
	switch c.Kind {
	case "fifo":
		if len(lines) != c.N {
			run.Violation("seq:count", fmt.Sprintf("%d results, %d lines: %+v", c.N, len(lines), c), c)
			return
		}
		for i, s := range lines {
			if s.seq != i {
				run.Violation("seq:order", fmt.Sprintf("line %d is result #%d: lines are not in production order: %+v", i, s.seq, c), c)
				return
			}
		}
		run.Count("fifo_runs", 1)
	case "producers":
		if len(lines) != c.N {
			run.Violation("seq:count", fmt.Sprintf("%d results, %d lines: %+v", c.N, len(lines), c), c)
			return
		}
		last := make([]int, prod)
		for i := range last {
			last[i] = -1
		}
		got := make([]bool, c.N)
		for _, s := range lines {
			p := s.seq % prod
			if s.seq <= last[p] {
				run.Violation("seq:order", fmt.Sprintf("results of producer %d printed out of order (#%d after #%d): %+v", p, s.seq, last[p], c), c)
				return
			}
			last[p] = s.seq
			if got[s.seq] {
				run.Violation("seq:duplicate", fmt.Sprintf("result #%d printed twice: %+v", s.seq, c), c)
				return
			}
			got[s.seq] = true
		}
		run.Count("producer_runs", 1)
	case "dedup":
		// set model: expected = first sighting of each host, in order (single producer)
		first := map[int]int{}
		var order []int
		for i, id := range ids {
			if _, ok := first[id]; !ok {
				first[id] = i
				order = append(order, i)
			}
		}
		if len(lines) != len(order) {
			run.Violation("dedup:count", fmt.Sprintf("%d distinct hosts in the stream, %d lines printed: %+v", len(order), len(lines), c), c)
			return
		}
		for i, s := range lines {
			if s.seq != order[i] {
				kind := "dedup:not-first-sighting"
				if ids[s.seq] != ids[order[i]] {
					kind = "dedup:order"
				}
				run.Violation(kind, fmt.Sprintf("line %d is sighting #%d of %s; expected the first sighting #%d: %+v", i, s.seq, s.host, order[i], c), c)
				return
			}
		}
		run.Count("dedup_runs", 1)
		run.Count("dedup_hosts", int64(len(order)))
		run.Count("dedup_repeats_suppressed", int64(c.N-len(order)))
	}
	run.Distinct(fmt.Sprintf("%+v", c))
	if run.WantSample() {
		run.Sample(map[string]interface{}{"case": c, "lines": len(lines)})
	}
}

func TestVerifC14Sequences(t *testing.T) {
	run := vlab.Begin(t, "C14", "sequences")
	defer run.End()
	rng := run.Rand("sequences")
	var cases []c14seqCase
	reps := run.Pick(2, 20)
	for r := 0; r < reps; r++ {
		for _, n := range []int{0, 1, 2, 99, 1000, 1001, 5000, 100000} {
			if n == 100000 && r > 0 {
				continue
			}
			for _, cc := range []int{0, 1, 1000} {
				cases = append(cases, c14seqCase{Kind: "fifo", N: n, Pattern: "unique", ChanCap: cc, SlowOut: n <= 5000 && r%2 == 1, Seed: rng.Int63()})
			}
			if n >= 99 {
				for _, p := range []int{2, 8, 64} {
					cases = append(cases, c14seqCase{Kind: "producers", N: n, Pattern: "unique", ChanCap: []int{0, 1000}[r%2], Producers: p, Seed: rng.Int63()})
				}
			}
		}
		if r < 2 {
			cases = append(cases, c14seqCase{Kind: "icmppipe", N: []int{1500, 3000}[r], Pattern: "unique", Seed: rng.Int63()})
			cases = append(cases, c14seqCase{Kind: "tcppipe", N: []int{1500, 3000}[r], Pattern: "unique", Seed: rng.Int63()})
		}
		if r < 3 {
			cases = append(cases, c14seqCase{Kind: "enginechan", N: []int{6000, 2500, 12000}[r], Pattern: "unique", Seed: rng.Int63()})
		}
		if r == 0 {
			// 300 000 distinct hosts: a "seen" set that is keyed by anything shorter than the id (a 32-bit hash...)
			// merges some of them (birthday bound: ~10 expected collisions)
			cases = append(cases, c14seqCase{Kind: "dedup", N: 300000, IDs: 300000, Pattern: "unique", ChanCap: 1000, Seed: rng.Int63()})
		}
		for _, pat := range []string{"uniform", "bursts", "passes", "aba"} {
			for _, idn := range []int{1, 2, 3, 7, 254, 5000} {
				for _, n := range []int{1, 10, 1000, 20000} {
					if n == 20000 && (r > 1 || idn == 1) {
						continue
					}
					cases = append(cases, c14seqCase{Kind: "dedup", N: n, IDs: idn, Pattern: pat, ChanCap: []int{0, 1, 1000}[rng.Intn(3)], SlowOut: n <= 1000 && rng.Intn(3) == 0, Seed: rng.Int63()})
				}
			}
		}
	}
	for i, c := range cases {
		if !run.Mine(i) {
			continue
		}
		run.Case(fmt.Sprintf("seq%05d", i), c)
		c14runSeq(run, c)
	}
}
