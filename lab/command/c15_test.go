//go:build verif

package command

// C15 (level 1) — every probe is charged to the limiter exactly once, before it leaves;
// receiving is never charged; the CLI rate reaches a real limiter (whole-run lower bound).

import (
	"context"
	"fmt"
	"net"
	"sort"
	"testing"
	"time"

	"github.com/v-byte-cpu/sx/pkg/packet"
	"github.com/v-byte-cpu/sx/pkg/scan"
	"github.com/v-byte-cpu/sx/pkg/scan/tcp"
	"verif.local/v/oracle"
	"verif.local/v/vlab"
)

type c15case struct {
	Mode    string `json:"mode"` // packet | scanner | cli
	N       int    `json:"probes"`
	Workers int    `json:"workers"`
	RxFrames int   `json:"frames_received_meanwhile"`
	Rate    string `json:"rate_flag,omitempty"`
	Seed    uint64 `json:"seed"`
}

func c15packet(run *vlab.Run, c c15case) {
	clock := &rigClock{}
	lim := &countingLimiter{clock: clock}
	gen := &streamGen{n: c.N, base: 0x0a000000, seed: c.Seed, burstAt: -1, port: 80, srcIP: net.IPv4(192, 168, 7, 7).To4(), srcMAC: net.HardwareAddr{2, 0, 0, 0, 0, 7}}
	wrap := newWrapFiller(tcp.NewPacketFiller(tcp.WithSYN()), c.Seed, 0, 1, clock)
	rw := newRecRW(oracle.LinkEthernet, c.Seed, 0, 1, clock)
	rw.readMode = 2
	rw.frames = make(chan []byte, c.RxFrames+1)
	for i := 0; i < c.RxFrames; i++ {
		rw.frames <- []byte{0, 1, 2, 3, 4, 5, 6, 7, 8, 9, 10, 11, 12, 13, 14, 15}
	}
	limited := packet.NewRateLimitReadWriter(rw, lim)
	src := scan.NewPacketSource(gen, scan.NewPacketMultiGenerator(wrap, c.Workers))
	engine := scan.NewPacketEngine(src, packet.NewSender(limited), packet.NewReceiver(limited, nopProcessor{}))
	ctx, cancel := context.WithCancel(context.Background())
	defer cancel()
	_, finished, _ := run.Watch(60*time.Second, "v-byte-cpu/sx/", func() {
		done, errc := engine.Start(ctx, &scan.Range{})
		<-done
		// let the receiver consume all queued frames, then end it
		for i := 0; i < 2000 && len(rw.frames) > 0; i++ {
			time.Sleep(time.Millisecond)
		}
		rw.closeRead()
		for range errc {
		}
	})
	run.Eval(1)
	if !finished {
		run.Inconclusive(fmt.Sprintf("C15 packet rig did not finish: %+v", c))
		return
	}
	evs := rw.snapshot()
	sort.Slice(evs, func(i, j int) bool { return evs[i].seqCall < evs[j].seqCall })
	lim.mu.Lock()
	takes := append([]int64(nil), lim.takes...)
	lim.mu.Unlock()
	if len(takes) != len(evs) {
		key := "probe-not-charged"
		if len(takes) > len(evs) {
			key = "charged-without-probe"
		}
		run.Violation(key, fmt.Sprintf("%d frames written, %d limiter charges, %d frames received meanwhile (receiving must not be charged): %+v", len(evs), len(takes), atomicReads(rw), c), c)
	} else {
		for i := range evs {
			if takes[i] > evs[i].seqCall || (i+1 < len(takes) && takes[i+1] < evs[i].seqCall) {
				run.Violation("charge-order", fmt.Sprintf("write #%d (logical time %d) is not preceded by exactly its own limiter charge (charges at %d, next %v): %+v", i, evs[i].seqCall, takes[i], takes[min(i+1, len(takes)-1)], c), c)
				break
			}
		}
	}
	run.Count("writes_checked", int64(len(evs)))
	run.Count("takes_seen", int64(len(takes)))
	run.Count("reads_during_limit", int64(atomicReads(rw)))
}

func atomicReads(rw *recRW) int32 { return rw.reads }

func min(a, b int) int {
	if a < b {
		return a
	}
	return b
}

func c15scanner(run *vlab.Run, c c15case) {
	clock := &rigClock{}
	lim := &countingLimiter{clock: clock}
	gen := &streamGen{n: c.N, base: 0x0a000000, seed: c.Seed, burstAt: -1, port: 80}
	sc := newRecScanner(c.Seed, 300, 100, 200*time.Microsecond, clock)
	ctx, cancel := context.WithCancel(context.Background())
	defer cancel()
	results := scan.NewResultChan(ctx, 1000)
	engine := scan.NewScanEngine(gen, scan.NewRateLimitScanner(sc, lim), results, scan.WithScanWorkerCount(c.Workers))
	_, finished, _ := run.Watch(60*time.Second, "v-byte-cpu/sx/", func() {
		go func() {
			for range engine.Results() {
			}
		}()
		done, errc := engine.Start(ctx, &scan.Range{})
		for range errc {
		}
		<-done
	})
	run.Eval(1)
	if !finished {
		run.Inconclusive(fmt.Sprintf("C15 scanner rig did not finish: %+v", c))
		return
	}
	sc.mu.Lock()
	starts := append([]int64(nil), sc.startSeq...)
	sc.mu.Unlock()
	lim.mu.Lock()
	takes := append([]int64(nil), lim.takes...)
	lim.mu.Unlock()
	sort.Slice(starts, func(i, j int) bool { return starts[i] < starts[j] })
	sort.Slice(takes, func(i, j int) bool { return takes[i] < takes[j] })
	if len(takes) != len(starts) {
		key := "probe-not-charged"
		if len(takes) > len(starts) {
			key = "charged-without-probe"
		}
		run.Violation(key, fmt.Sprintf("%d probes started, %d limiter charges: %+v", len(starts), len(takes), c), c)
	} else {
		// prefix condition: the i-th probe start is preceded by at least i charges
		for i := range starts {
			if takes[i] > starts[i] {
				run.Violation("charge-order", fmt.Sprintf("probe start #%d at logical time %d but only %d limiter charges had happened before it: %+v", i+1, starts[i], i, c), c)
				break
			}
		}
	}
	run.Count("probes_checked", int64(len(starts)))
	run.Count("takes_seen", int64(len(takes)))
}

// c15cli: --rate string -> parseRawOptions -> newScanEngine: the probes cannot all have started
// earlier than (n-1-b)*W/N after the scan was started (whole-run bound; t0 is taken before the
// call, so scheduling can only make the observed span longer).
func c15cli(run *vlab.Run, dir string, c c15case) {
	ctx, cancel := context.WithCancel(context.Background())
	defer cancel()
	clock := &rigClock{}
	file, ids, _ := rigTargetFile(dir, c.N, c.Seed, 0)
	opts := &genericScanCmdOpts{ipFile: file, workers: c.Workers, rawRateLimit: c.Rate}
	if err := opts.parseRawOptions(); err != nil {
		run.Violation("rate-flag-rejected", fmt.Sprintf("--rate %q rejected: %v", c.Rate, err), c)
		return
	}
	refN, refW, ok := oracle.RefRate(c.Rate)
	if !ok {
		run.Inconclusive("reference parser rejects " + c.Rate)
		return
	}
	sc := newRecScanner(c.Seed, 0, 0, 0, clock)
	engine := opts.newScanEngine(ctx, sc)
	go func() {
		for range engine.Results() {
		}
	}()
	t0 := time.Now()
	done, errc := engine.Start(ctx, &scan.Range{})
	for range errc {
	}
	<-done
	sc.mu.Lock()
	var last time.Time
	for _, t := range sc.startT {
		if t.After(last) {
			last = t
		}
	}
	n := len(sc.startT)
	sc.mu.Unlock()
	run.Eval(1)
	if n != len(ids) {
		run.Inconclusive(fmt.Sprintf("probe count %d != %d", n, len(ids)))
		return
	}
	const burst = 10
	per := refW / time.Duration(refN)
	bound := time.Duration(n-1-burst) * per
	span := last.Sub(t0)
	if span < bound {
		run.Violation("rate-not-enforced", fmt.Sprintf("--rate %s: %d probes started within %v of the scan start; at least (n-1-%d)*W/N = %v required: %+v", c.Rate, n, span, burst, bound, c), c)
	}
	run.Count("cli_rate_runs", 1)
	run.Count("probes_checked", int64(n))
	if run.WantSample() {
		run.Sample(map[string]interface{}{"case": c, "span_ms": span.Milliseconds(), "lower_bound_ms": bound.Milliseconds()})
	}
}

func TestVerifC15(t *testing.T) {
	run := vlab.Begin(t, "C15", "charge")
	defer run.End()
	dir := t.TempDir()
	rng := run.Rand("cases")
	var cases []c15case
	for i := 0; i < run.Pick(120, 2000); i++ {
		cases = append(cases, c15case{Mode: "packet", N: []int{1, 2, 50, 500, 3000}[rng.Intn(5)], Workers: []int{1, 2, 16}[rng.Intn(3)], RxFrames: []int{0, 200, 2000}[rng.Intn(3)], Seed: rng.Uint64()})
		cases = append(cases, c15case{Mode: "scanner", N: []int{1, 2, 50, 500, 3000}[rng.Intn(5)], Workers: []int{1, 2, 7, 100, 1000}[rng.Intn(5)], Seed: rng.Uint64()})
	}
	rates := []string{"1000/s", "500", "50/100ms", "200/250ms", "3000/3s", "20/10ms", "100/ms", "400/s", "150/1.5s", "30/0.3s", "20/.2s", "5/2.5ms", "300/0.05m"}
	for i := 0; i < run.Pick(32, 200); i++ {
		r := rates[i%len(rates)]
		cases = append(cases, c15case{Mode: "cli", N: 60 + rng.Intn(140), Workers: []int{1, 7, 100}[rng.Intn(3)], Rate: r, Seed: rng.Uint64()})
	}
	for i, c := range cases {
		if !run.Mine(i) {
			continue
		}
		run.Case(fmt.Sprintf("case%05d", i), c)
		switch c.Mode {
		case "packet":
			c15packet(run, c)
		case "scanner":
			c15scanner(run, c)
		case "cli":
			c15cli(run, dir, c)
		}
		if c.N >= 2 {
			run.Distinct(fmt.Sprintf("%+v", c))
		}
	}
}

// ---------------------------------------------------------------------------
// burst: sliding-window bound after a stall. The limiter may let b probes go at once (its
// fixed allowance); it must not let more go because the scan was idle for a while: the
// first `workers` probes block for longer than workers*W/N, then every target answers at once.
// All windows of k consecutive probe starts (timestamps taken at probe entry, i.e. after the
// limiter released the probe) must span at least (k-1-b)*W/N - eps.

type c15burstCase struct {
	Rate    string `json:"rate"`
	Workers int    `json:"workers"`
	N       int    `json:"targets"`
	StallMs int    `json:"first_probes_block_for_ms"`
	Seed    uint64 `json:"seed"`
}

func c15burst(run *vlab.Run, dir string, c c15burstCase) {
	ctx, cancel := context.WithCancel(context.Background())
	defer cancel()
	clock := &rigClock{}
	file, ids, _ := rigTargetFile(dir, c.N, c.Seed, 0)
	opts := &genericScanCmdOpts{ipFile: file, workers: c.Workers, rawRateLimit: c.Rate}
	if err := opts.parseRawOptions(); err != nil {
		run.Violation("rate-flag-rejected", fmt.Sprintf("--rate %q rejected: %v", c.Rate, err), c)
		return
	}
	refN, refW, _ := oracle.RefRate(c.Rate)
	sc := newRecScanner(c.Seed, 0, 0, 0, clock)
	release := time.Now().Add(time.Duration(c.StallMs) * time.Millisecond)
	sc.onStart = func(k int, _ context.Context) {
		if k <= c.Workers {
			time.Sleep(time.Until(release))
		}
	}
	engine := opts.newScanEngine(ctx, sc)
	go func() {
		for range engine.Results() {
		}
	}()
	health := startHealth()
	done, errc := engine.Start(ctx, &scan.Range{})
	for range errc {
	}
	<-done
	stall := health.end()
	run.Eval(1)
	sc.mu.Lock()
	starts := append([]time.Time(nil), sc.startT...)
	sc.mu.Unlock()
	if len(starts) != len(ids) {
		run.Inconclusive(fmt.Sprintf("probe count %d != %d", len(starts), len(ids)))
		return
	}
	sort.Slice(starts, func(a, b int) bool { return starts[a].Before(starts[b]) })
	if stall > 25*time.Millisecond {
		run.Inconclusive(fmt.Sprintf("monitor stalled %v during a timing run: %+v", stall, c))
		return
	}
	const burst = 10
	per := refW / time.Duration(refN)
	eps := 15*time.Millisecond + 2*stall
	worstK, worstSpan, worstNeed := 0, time.Duration(0), time.Duration(0)
	for i := 0; i < len(starts); i++ {
		for j := i + burst + 2; j < len(starts); j++ {
			k := j - i + 1
			need := time.Duration(k-1-burst)*per - eps
			span := starts[j].Sub(starts[i])
			if span < need && need-span > worstNeed-worstSpan {
				worstK, worstSpan, worstNeed = k, span, need
			}
		}
	}
	if worstK > 0 {
		run.Violation("burst-after-stall", fmt.Sprintf("--rate %s, %d workers: %d consecutive probes started within %v; (k-1-%d)*W/N - eps = %v is the least the limit allows (the scan had been idle for %d ms before): %+v", c.Rate, c.Workers, worstK, worstSpan, burst, worstNeed, c.StallMs, c), c)
	}
	run.Count("burst_runs", 1)
	run.Count("burst_windows_checked", int64(len(starts)*(len(starts)-burst-1)/2))
	run.Count("probes_checked", int64(len(starts)))
	if run.WantSample() {
		run.Sample(map[string]interface{}{"case": c, "monitor_stall_us": stall.Microseconds(), "first_start_to_last_ms": starts[len(starts)-1].Sub(starts[0]).Milliseconds()})
	}
}

func TestVerifC15Burst(t *testing.T) {
	run := vlab.Begin(t, "C15", "burst")
	defer run.End()
	dir := t.TempDir()
	rng := run.Rand("burst")
	var cases []c15burstCase
	for i := 0; i < run.Pick(16, 96); i++ {
		w := []int{30, 50, 100, 200}[i%4]
		rate := []string{"500/s", "1000/s", "100/200ms", "250/500ms"}[(i/4)%4]
		n, wd, _ := oracle.RefRate(rate)
		per := wd / time.Duration(n)
		cases = append(cases, c15burstCase{Rate: rate, Workers: w, N: w*2 + rng.Intn(w), StallMs: int((time.Duration(2*w)*per)/time.Millisecond) + 100, Seed: rng.Uint64()})
	}
	for i, c := range cases {
		if !run.Mine(i) {
			continue
		}
		run.Case(fmt.Sprintf("burst%03d", i), c)
		c15burst(run, dir, c)
		run.Distinct(fmt.Sprintf("%+v", c))
	}
}
