//go:build verif

package command

// C16 (level 1) — the exit delay is honoured by startScanEngine: it does not return before
// completion + delay (same-clock lower bound), a result arriving inside the delay is still
// logged, and it does return afterwards.

import (
	"context"
	"fmt"
	"sync"
	"sync/atomic"
	"testing"
	"time"

	"github.com/v-byte-cpu/sx/command/log"
	"github.com/v-byte-cpu/sx/pkg/scan"
	"verif.local/v/vlab"
)

type c16case struct {
	DelayMs      int     `json:"exit_delay_ms"`
	DoneAfterMs  int     `json:"engine_completes_after_ms"`
	LateFraction float64 `json:"late_result_at_fraction_of_delay"`
	LateResults  int     `json:"late_results"`
	ErrEveryMs   int     `json:"engine_keeps_reporting_an_error_every_ms,omitempty"` // after completion, until the scan is cancelled
	SlowOutMs    int     `json:"output_write_takes_ms,omitempty"`                     // a slow consumer: records are still being written when the delay ends
}

// fakeEngine: completion and results fully scripted.
type fakeEngine struct {
	results   scan.ResultChan
	doneAfter time.Duration
	lateAt    time.Duration
	late      int
	errEvery  time.Duration
	mu        sync.Mutex
	doneT     time.Time
	putT      []time.Time
}

func (e *fakeEngine) Results() <-chan scan.Result { return e.results.Chan() }

func (e *fakeEngine) Start(ctx context.Context, r *scan.Range) (<-chan interface{}, <-chan error) {
	done := make(chan interface{})
	errc := make(chan error)
	go func() {
		time.Sleep(e.doneAfter)
		e.mu.Lock()
		e.doneT = time.Now()
		e.mu.Unlock()
		close(done)
		if e.errEvery > 0 {
			// e.g. the link went down after the last probe: the receiver reports a read error every few ms
			// for as long as the scan is alive
			go func() {
				defer close(errc)
				for i := 0; ; i++ {
					select {
					case <-ctx.Done():
						return
					case <-time.After(e.errEvery):
					}
					select {
					case <-ctx.Done():
						return
					case errc <- fmt.Errorf("scripted read error #%d after completion", i):
					}
				}
			}()
		} else {
			close(errc)
		}
		if e.late > 0 {
			time.Sleep(e.lateAt)
			for i := 0; i < e.late; i++ {
				e.results.Put(&rigResult{id: uint32(1000 + i)})
			}
			e.mu.Lock()
			e.putT = append(e.putT, time.Now())
			e.mu.Unlock()
		}
	}()
	return done, errc
}

func c16run(run *vlab.Run, c c16case) {
	ctx, cancel := context.WithCancel(context.Background())
	defer cancel()
	clock := &rigClock{}
	out := &recOut{clock: clock, delay: time.Duration(c.SlowOutMs) * time.Millisecond}
	real, err := log.NewLogger(out, "rig", log.JSON())
	if err != nil {
		panic(err)
	}
	delay := time.Duration(c.DelayMs) * time.Millisecond
	eng := &fakeEngine{results: scan.NewResultChan(ctx, 1000), doneAfter: time.Duration(c.DoneAfterMs) * time.Millisecond,
		lateAt: time.Duration(float64(delay) * c.LateFraction), late: c.LateResults, errEvery: time.Duration(c.ErrEveryMs) * time.Millisecond}
	conf := newEngineConfig(withLogger(&recLogger{inner: real, clock: clock}), withScanRange(&scan.Range{}), withExitDelay(delay))
	health := startHealth()
	var retT time.Time
	var inflightAtReturn int32
	dump, finished, parked := run.Watch(delay+30*time.Second, "v-byte-cpu/sx/", func() {
		_ = startScanEngine(ctx, eng, conf)
		inflightAtReturn = atomic.LoadInt32(&out.inflight)
		retT = time.Now()
	})
	stall := health.end()
	run.Eval(1)
	if !finished {
		if parked {
			run.Violation("no-exit-after-delay", fmt.Sprintf("startScanEngine did not return after completion + exit delay; goroutines parked: %+v", c), map[string]interface{}{"case": c, "stacks": dump})
		} else {
			run.Inconclusive(fmt.Sprintf("still running: %+v", c))
		}
		return
	}
	if inflightAtReturn != 0 {
		run.Violation("returned-while-a-record-was-being-written", fmt.Sprintf("startScanEngine returned while %d write(s) of a record to the output were still in progress: the process exits next and leaves that record cut short: %+v", inflightAtReturn, c), c)
	}
	if c.SlowOutMs > 0 {
		run.Count("returns_checked_against_writes_in_progress", 1)
		// with a slow consumer only what was written is judged (complete lines), not how much of the backlog made it
		for _, w := range out.snapshot() {
			if len(w) == 0 || w[len(w)-1] != '\n' {
				run.Violation("incomplete-record", fmt.Sprintf("output write is not a complete line: %q: %+v", truncate(w, 100), c), c)
			}
		}
		run.Count("delays_checked", 1)
		return
	}
	eng.mu.Lock()
	doneT := eng.doneT
	var putT time.Time
	if len(eng.putT) > 0 {
		putT = eng.putT[0]
	}
	eng.mu.Unlock()
	waited := retT.Sub(doneT)
	if c.ErrEveryMs > 0 {
		// "when the delay is over it does exit, within bounded time" although errors keep arriving
		if over := waited - delay; over > 3*time.Second {
			if stall > 300*time.Millisecond {
				run.Inconclusive(fmt.Sprintf("late return but the monitor stalled %v: %+v", stall, c))
			} else {
				run.Violation("no-exit-while-errors-arrive", fmt.Sprintf("errors kept arriving every %d ms after completion; startScanEngine returned %v after the exit delay %v was over: %+v", c.ErrEveryMs, over, delay, c), c)
			}
		} else {
			run.Count("exits_despite_continuing_errors", 1)
		}
	}
	// doneT is taken BEFORE close(done), retT AFTER the return: scheduling can only lengthen `waited`
	if waited < delay {
		run.Violation("exit-before-delay", fmt.Sprintf("scan returned %v after the engine completed; the exit delay is %v: %+v", waited, delay, c), c)
	}
	if c.LateResults > 0 {
		lines := parseLines(run, "C16", out.snapshot(), c)
		if len(lines) != c.LateResults {
			margin := doneT.Add(delay).Sub(putT)
			switch {
			case putT.IsZero() || margin < delay/3 || stall > 20*time.Millisecond:
				run.Inconclusive(fmt.Sprintf("late results reached the engine only %v before the deadline (monitor stall %v): %+v", margin, stall, c))
			default:
				run.Violation("late-result-not-reported", fmt.Sprintf("%d of %d results that arrived %v before the end of the exit delay were not printed: %+v", c.LateResults-len(lines), c.LateResults, margin, c), c)
			}
		} else {
			run.Count("late_results_reported", int64(len(lines)))
		}
	}
	run.Count("delays_checked", 1)
	run.Max("max_overshoot_us", (waited - delay).Microseconds())
	if run.WantSample() {
		run.Sample(map[string]interface{}{"case": c, "returned_after_completion_us": waited.Microseconds()})
	}
}

func TestVerifC16(t *testing.T) {
	run := vlab.Begin(t, "C16", "delay")
	defer run.End()
	var cases []c16case
	delays := []int{0, 1, 50, 300, 1000}
	reps := run.Pick(3, 30)
	for r := 0; r < reps; r++ {
		for _, d := range delays {
			for _, after := range []int{0, 5} {
				cases = append(cases, c16case{DelayMs: d, DoneAfterMs: after})
				if d >= 50 && d <= 300 && after == 0 {
					cases = append(cases, c16case{DelayMs: d, ErrEveryMs: d / 5})
				}
				if d >= 50 {
					cases = append(cases, c16case{DelayMs: d, DoneAfterMs: after, LateFraction: 0.33, LateResults: 1 + r%5})
					cases = append(cases, c16case{DelayMs: d, DoneAfterMs: after, LateFraction: 0.1, LateResults: 50})
				}
			}
		}
	}
	// records that are still being written to a slow consumer when the delay ends: 40 results arrive at 60 % of the
	// delay, every write takes delay/10: the delay expires in the middle of a write
	for r := 0; r < reps; r++ {
		for _, d := range []int{50, 100, 300} {
			cases = append(cases, c16case{DelayMs: d, LateFraction: 0.6, LateResults: 40, SlowOutMs: d/10 + r%3})
		}
	}
	for i, c := range cases {
		if !run.Mine(i) {
			continue
		}
		run.Case(fmt.Sprintf("case%05d", i), c)
		c16run(run, c)
		if c.DelayMs > 0 {
			run.Distinct(fmt.Sprintf("%+v/%d", c, i))
		}
	}
}
