//go:build verif

package command

// C18 — option parsing is total, and exact on everything it accepts.
//
// Two monitors over the real parsers (parsePortRanges, parsePortsFile, parseRateLimit,
// parseTCPFlags + tcpPacketFlagOptions -> filler, parseIPFlags, parsePacketPayload,
// parseExcludeFile, and the "start > end is refused before scanning" gate of the generators):
//
//	strings: hostile strings (fixed corpus + seeded grammar mutations of valid inputs).
//	         accepted  => the string has a liberal denotation and the returned value equals it
//	         canonical => must be accepted
//	         a panic kills the child process and is attributed to the logged string
//	round:   generated values -> canonical rendering -> parser -> same value (all 512 TCP flag
//	         subsets x shuffles x letter case down to the bits of a built frame; all 8 IP flag
//	         subsets; every byte value as payload; random port lists, rates, files).

import (
	"bytes"
	"context"
	"fmt"
	"io"
	"math/rand"
	"net"
	"strings"
	"testing"
	"time"

	"github.com/google/gopacket"
	"github.com/v-byte-cpu/sx/pkg/scan"
	"github.com/v-byte-cpu/sx/pkg/scan/tcp"
	"verif.local/v/oracle"
	"verif.local/v/vlab"
)

func c18open(content string) openFileFunc {
	return func() (io.ReadCloser, error) { return io.NopCloser(strings.NewReader(content)), nil }
}

func c18q(s string) string {
	if len(s) > 120 {
		return fmt.Sprintf("%q…(%d bytes)", s[:120], len(s))
	}
	return fmt.Sprintf("%q", s)
}

var c18tokens = []string{
	"0", "1", "7", "9", "00", "10", "80", "443", "65535", "65536", "65534", "99999", "4294967296", "4294967297", "2147483647", "2147483648",
	"18446744073709551616", "99999999999999999999999", "-", ",", "/", " ", "\t", "\n", "\r", "+", ".", "_", "x", "e", "E", "0x", "0b", "0o", "\x00",
	"٣", "６", "①", "s", "ms", "us", "µs", "μs", "ns", "m", "h", "d", "1s", ".5", "1.5", "1e3", "-1", "--", ",,", "//", "#", "\\", "\"", "'", "\\x", "\\u", "\\0",
	"syn", "ack", "fin", "rst", "psh", "urg", "ece", "cwr", "ns", "SYN", "Ack", "df", "mf", "evil", "DF", "all", "none", "sy", "synn", "ſyn", "ＳＹＮ", "K", "İ",
}

// c18mutate applies 1..4 token-level edits to base.
func c18mutate(rng *rand.Rand, base string) string {
	b := []byte(base)
	for n := 1 + rng.Intn(4); n > 0; n-- {
		tok := c18tokens[rng.Intn(len(c18tokens))]
		pos := 0
		if len(b) > 0 {
			pos = rng.Intn(len(b) + 1)
		}
		switch rng.Intn(5) {
		case 0, 1: // insert
			b = append(b[:pos:pos], append([]byte(tok), b[pos:]...)...)
		case 2: // delete a byte
			if len(b) > 0 && pos < len(b) {
				b = append(b[:pos:pos], b[pos+1:]...)
			}
		case 3: // replace a byte with a token
			if pos < len(b) {
				b = append(b[:pos:pos], append([]byte(tok), b[pos+1:]...)...)
			}
		case 4: // random byte
			if pos < len(b) {
				b[pos] = byte(rng.Intn(256))
			} else {
				b = append(b, byte(rng.Intn(256)))
			}
		}
	}
	return string(b)
}

type c18stats struct {
	accepted, rejected, dontcare int64
}

// ---- judges: each runs one real parser on one string and compares with the reference reading.

func c18samePorts(got []*scan.PortRange, want []oracle.PortRange) bool {
	if len(got) != len(want) {
		return false
	}
	for i := range got {
		if got[i] == nil || got[i].StartPort != want[i].Start || got[i].EndPort != want[i].End {
			return false
		}
	}
	return true
}

func c18portsStr(p []*scan.PortRange) string {
	var sb strings.Builder
	for i, r := range p {
		if i > 8 {
			sb.WriteString("…")
			break
		}
		if r == nil {
			sb.WriteString("<nil> ")
			continue
		}
		fmt.Fprintf(&sb, "%d-%d ", r.StartPort, r.EndPort)
	}
	return sb.String()
}

// the gate that must refuse start > end before any request is generated
func c18gateRefuses(ports []*scan.PortRange) (refused bool, probes int) {
	o := &ipPortScanCmdOpts{}
	o.portRanges = ports
	_, dst, _ := net.ParseCIDR("10.1.2.3/32")
	ctx, cancel := context.WithCancel(context.Background())
	defer cancel()
	reqs, err := o.newIPPortGenerator().GenerateRequests(ctx, &scan.Range{DstSubnet: dst, SrcIP: rigSrcIP, SrcMAC: rigSrcMAC, Ports: ports})
	if err != nil {
		return true, 0
	}
	for r := range reqs {
		if r.Err == nil {
			probes++
			if probes > 70000 {
				break
			}
		}
	}
	return false, probes
}

func c18judgePorts(run *vlab.Run, s string, st *c18stats) {
	got, err := parsePortRanges(s)
	want, ok, strict := oracle.LibPortList(s)
	c18portVerdict(run, "ports", s, got, err, want, ok, strict, st)
}

func c18portVerdict(run *vlab.Run, what, s string, got []*scan.PortRange, err error, want []oracle.PortRange, ok, strict bool, st *c18stats) {
	strict = strict && ok
	switch {
	case err == nil && !ok:
		st.accepted++
		run.Violation(what+":accepted-garbage", fmt.Sprintf("%s %s accepted as [%s] although it does not denote a port list", what, c18q(s), c18portsStr(got)), s)
	case err == nil && !c18samePorts(got, want):
		st.accepted++
		run.Violation(what+":wrong-value", fmt.Sprintf("%s %s parsed as [%s], the written value is %v", what, c18q(s), c18portsStr(got), truncPorts(want)), s)
	case err != nil && strict:
		st.rejected++
		run.Violation(what+":rejected-canonical", fmt.Sprintf("%s %s (canonical rendering of %v) rejected: %v", what, c18q(s), truncPorts(want), err), s)
	case err == nil:
		st.accepted++
		if !strict {
			st.dontcare++
		}
		// start > end must be refused before scanning
		inverted := false
		for _, r := range want {
			if r.Start > r.End {
				inverted = true
			}
		}
		if inverted {
			refused, probes := c18gateRefuses(got)
			run.Count("inverted_ranges_gated", 1)
			if !refused {
				run.Violation(what+":inverted-range-scanned", fmt.Sprintf("%s %s has start > end but the generator started a scan (%d probes)", what, c18q(s), probes), s)
			}
		}
	default:
		st.rejected++
	}
}

func truncPorts(p []oracle.PortRange) []oracle.PortRange {
	if len(p) > 8 {
		return p[:8]
	}
	return p
}

func c18judgePortsFile(run *vlab.Run, content string, st *c18stats) {
	got, err := parsePortsFile(c18open(content))
	lines, long := oracle.LibLines(content)
	var want []oracle.PortRange
	ok, strict := true, !long
	for _, l := range lines {
		r, lok, lst := oracle.LibPortRange(l)
		if !lok {
			ok = false
			break
		}
		strict = strict && lst
		want = append(want, r)
	}
	if strings.Contains(content, "\r") || strings.Contains(content, "\t") {
		strict = false
	}
	if ok && len(want) == 0 {
		// empty list: nothing to compare beyond "no ranges"
		if err == nil && len(got) != 0 {
			run.Violation("portsfile:wrong-value", fmt.Sprintf("ports file %s has no entries but parsed as [%s]", c18q(content), c18portsStr(got)), content)
		}
		st.dontcare++
		return
	}
	c18portVerdict(run, "portsfile", content, got, err, want, ok, strict, st)
}

func c18judgeRate(run *vlab.Run, s string, st *c18stats) {
	n, w, err := parseRateLimit(s)
	wn, ww, ok, strict, precise := oracle.LibRate(s)
	switch {
	case err == nil && !ok:
		st.accepted++
		run.Violation("rate:accepted-garbage", fmt.Sprintf("rate %s accepted as %d per %v although it does not denote a rate", c18q(s), n, w), s)
	case err == nil && (uint64(n) != wn || n < 0):
		st.accepted++
		run.Violation("rate:wrong-count", fmt.Sprintf("rate %s parsed as %d per %v, the written count is %d", c18q(s), n, w, wn), s)
	case err == nil && precise && w != ww:
		st.accepted++
		run.Violation("rate:wrong-window", fmt.Sprintf("rate %s parsed as %d per %v, the written window is %v", c18q(s), n, w, ww), s)
	case err == nil && !precise && (w-ww > time.Microsecond || ww-w > time.Microsecond):
		st.accepted++
		run.Violation("rate:wrong-window", fmt.Sprintf("rate %s parsed as %d per %v, the written window is %v", c18q(s), n, w, ww), s)
	case err != nil && strict:
		st.rejected++
		run.Violation("rate:rejected-canonical", fmt.Sprintf("rate %s (canonical: %d per %v) rejected: %v", c18q(s), wn, ww, err), s)
	case err == nil:
		st.accepted++
		if !strict {
			st.dontcare++
		}
	default:
		st.rejected++
	}
}

var c18flagBit = map[string]uint16{"syn": oracle.FlagSYN, "ack": oracle.FlagACK, "fin": oracle.FlagFIN, "rst": oracle.FlagRST, "psh": oracle.FlagPSH,
	"urg": oracle.FlagURG, "ece": oracle.FlagECE, "cwr": oracle.FlagCWR, "ns": oracle.FlagNS}

// c18libFlags: items separated by ',', ASCII case-insensitive, blanks around items and empty
// items tolerated (liberal); strict = no blanks, no empty items.
func c18libFlags(s string, table map[string]uint16) (bits uint16, ok, strict bool) {
	strict = true
	if s == "" {
		return 0, true, true
	}
	for _, it := range strings.Split(s, ",") {
		t := strings.Trim(it, " \t")
		if t != it || t == "" {
			strict = false
		}
		if t == "" {
			continue
		}
		// case folding: ASCII, plus the two non-ASCII letters whose simple lower-case mapping is an
		// ASCII letter (U+0130 -> i, U+212A -> k): a parser that folds them is not wrong (don't-care)
		if strings.Contains(t, "İ") || strings.Contains(t, "K") {
			t = strings.ReplaceAll(strings.ReplaceAll(t, "İ", "i"), "K", "k")
			strict = false
		}
		lb := []byte(t)
		for i, c := range lb {
			if c >= 'A' && c <= 'Z' {
				lb[i] = c + 32
			}
		}
		b, known := table[string(lb)]
		if !known {
			return 0, false, false
		}
		bits |= b
	}
	return bits, true, strict
}

// c18frameFlags builds one frame with the options the parsed names select and returns its flag bits.
func c18frameFlags(names []string) (uint16, error) {
	var opts []tcp.PacketFillerOption
	for _, f := range names {
		o, ok := tcpPacketFlagOptions[f]
		if !ok {
			return 0, fmt.Errorf("parsed name %q has no entry in the option table", f)
		}
		opts = append(opts, o)
	}
	buf := gopacket.NewSerializeBuffer()
	req := &scan.Request{SrcIP: rigSrcIP, SrcMAC: rigSrcMAC, DstMAC: rigGwMAC, DstIP: net.IPv4(10, 0, 0, 9).To4(), DstPort: 80}
	if err := tcp.NewPacketFiller(opts...).Fill(buf, req); err != nil {
		return 0, err
	}
	d := oracle.Decode(buf.Bytes(), oracle.LinkEthernet)
	if d.TCP == nil {
		return 0, fmt.Errorf("frame does not decode as TCP: %v", d.Problems)
	}
	return d.TCP.Flags, nil
}

func c18judgeTCPFlags(run *vlab.Run, s string, st *c18stats) {
	names, err := parseTCPFlags(s)
	want, ok, strict := c18libFlags(s, c18flagBit)
	switch {
	case err == nil && !ok:
		st.accepted++
		run.Violation("tcpflags:accepted-garbage", fmt.Sprintf("--flags %s accepted as %v although it names no flag set", c18q(s), names), s)
	case err != nil && strict:
		st.rejected++
		run.Violation("tcpflags:rejected-canonical", fmt.Sprintf("--flags %s rejected: %v", c18q(s), err), s)
	case err == nil:
		st.accepted++
		if !strict {
			st.dontcare++
		}
		got, ferr := c18frameFlags(names)
		if ferr != nil {
			run.Violation("tcpflags:wrong-bits", fmt.Sprintf("--flags %s -> %v: %v", c18q(s), names, ferr), s)
		} else if got != want {
			run.Violation("tcpflags:wrong-bits", fmt.Sprintf("--flags %s -> %v sets %s (%09b), the named flags are %s (%09b)", c18q(s), names, oracle.FlagString(got), got, oracle.FlagString(want), want), s)
		}
	default:
		st.rejected++
	}
}

var c18ipFlagBit = map[string]uint16{"df": 2, "mf": 1, "evil": 4}

func c18judgeIPFlags(run *vlab.Run, s string, st *c18stats) {
	got, err := parseIPFlags(s)
	want, ok, strict := c18libFlags(s, c18ipFlagBit)
	switch {
	case err == nil && !ok:
		st.accepted++
		run.Violation("ipflags:accepted-garbage", fmt.Sprintf("--ipflags %s accepted as %03b although it names no flag set", c18q(s), got), s)
	case err == nil && uint16(got) != want:
		st.accepted++
		run.Violation("ipflags:wrong-bits", fmt.Sprintf("--ipflags %s parsed as %03b, the named flags are %03b (evil=4 df=2 mf=1)", c18q(s), got, want), s)
	case err != nil && strict:
		st.rejected++
		run.Violation("ipflags:rejected-canonical", fmt.Sprintf("--ipflags %s rejected: %v", c18q(s), err), s)
	case err == nil:
		st.accepted++
		if !strict {
			st.dontcare++
		}
	default:
		st.rejected++
	}
}

func c18judgePayload(run *vlab.Run, s string, canonical bool, st *c18stats) {
	got, err := parsePacketPayload(s)
	want, ok, rawInvalid := oracle.LibUnquote(s)
	liberal := strings.Contains(s, `\'`)
	if liberal && !ok {
		// \' : a parser may read it as ' ; re-read with that rule to get the denotation
		want, ok, rawInvalid = oracle.LibUnquote(strings.ReplaceAll(s, `\'`, `'`))
		if strings.Contains(s, `\\'`) {
			ok = false
			if err == nil {
				st.dontcare++
				return
			}
		}
	}
	switch {
	case rawInvalid:
		st.dontcare++ // raw non-UTF-8 bytes in the argument: the statement is silent
	case err == nil && !ok:
		st.accepted++
		run.Violation("payload:accepted-garbage", fmt.Sprintf("--payload %s accepted as %x although it is not a valid escaped string", c18q(s), truncate(got, 64)), s)
	case err == nil && !bytes.Equal(got, want):
		st.accepted++
		run.Violation("payload:wrong-value", fmt.Sprintf("--payload %s parsed as %x, the unescaped bytes are %x", c18q(s), truncate(got, 64), truncate(want, 64)), s)
	case err != nil && ok && !liberal && canonical:
		st.rejected++
		run.Violation("payload:rejected-canonical", fmt.Sprintf("--payload %s (= %x) rejected: %v", c18q(s), truncate(want, 64), err), s)
	case err != nil && ok && !liberal:
		// valid by the reference reading of Go escapes but not generated as canonical: still must parse
		st.rejected++
		run.Violation("payload:rejected-valid", fmt.Sprintf("--payload %s (= %x) rejected: %v", c18q(s), truncate(want, 64), err), s)
	case err == nil:
		st.accepted++
	default:
		st.rejected++
	}
}

func c18judgeExclude(run *vlab.Run, content string, st *c18stats) {
	got, err := parseExcludeFile(c18open(content))
	lines, long := oracle.LibLines(content)
	var want []oracle.CIDR
	cls := oracle.TargetValid
	for _, l := range lines {
		c, k := oracle.RefTarget(l)
		if k == oracle.TargetInvalid {
			cls = oracle.TargetInvalid
			break
		}
		if k == oracle.TargetDontCare {
			cls = oracle.TargetDontCare
		}
		want = append(want, c)
	}
	if long || strings.Contains(content, "\r") {
		if cls == oracle.TargetValid {
			cls = oracle.TargetDontCare
		}
	}
	switch {
	case err == nil && cls == oracle.TargetInvalid:
		st.accepted++
		run.Violation("exclude:accepted-garbage", fmt.Sprintf("exclusion file %s accepted although a line is not an IPv4 address or CIDR", c18q(content)), content)
	case err != nil && cls == oracle.TargetValid:
		st.rejected++
		run.Violation("exclude:rejected-canonical", fmt.Sprintf("exclusion file %s rejected: %v", c18q(content), err), content)
	case err == nil && cls == oracle.TargetValid:
		st.accepted++
		// membership at the edges of every listed network
		for _, c := range want {
			last := c.Base + uint32(c.Size()-1)
			for _, a := range []uint32{c.Base, last, c.Base - 1, last + 1, c.Base + uint32(c.Size()/2)} {
				ip4 := oracle.U32ToIP(a)
				in, cerr := got.Contains(net.IP(ip4[:]))
				exp := oracle.Excluded(a, want)
				if cerr != nil || in != exp {
					run.Violation("exclude:wrong-value", fmt.Sprintf("exclusion file %s: Contains(%s) = %v (%v), the listed networks say %v", c18q(content), oracle.IPString(ip4), in, cerr, exp), content)
					return
				}
				run.Count("exclude_membership_probes", 1)
			}
		}
	case err == nil:
		st.accepted++
		st.dontcare++
	default:
		st.rejected++
	}
}

// ---- generators of valid values (canonical renderings)

func c18randPortList(rng *rand.Rand, maxItems int) string {
	n := 1 + rng.Intn(maxItems)
	var items []string
	edge := []int{0, 1, 2, 79, 80, 443, 1023, 1024, 32767, 32768, 65534, 65535}
	pick := func() int {
		if rng.Intn(3) == 0 {
			return edge[rng.Intn(len(edge))]
		}
		return rng.Intn(65536)
	}
	for i := 0; i < n; i++ {
		a := pick()
		switch rng.Intn(4) {
		case 0:
			items = append(items, fmt.Sprint(a))
		case 1:
			items = append(items, fmt.Sprintf("%d-%d", a, a))
		default:
			b := pick()
			if a > b && rng.Intn(8) != 0 { // keep a few inverted ranges: they must parse exactly and be refused later
				a, b = b, a
			}
			items = append(items, fmt.Sprintf("%d-%d", a, b))
		}
	}
	return strings.Join(items, ",")
}

func c18randRate(rng *rand.Rand) string {
	counts := []int64{1, 2, 9, 10, 99, 100, 1000, 65535, 65536, 1000000, 1<<31 - 1, 1 + rng.Int63n(1<<31-1), 1 + rng.Int63n(5000)}
	n := counts[rng.Intn(len(counts))]
	units := []string{"ns", "us", "µs", "ms", "s", "m", "h"}
	u := units[rng.Intn(len(units))]
	switch rng.Intn(6) {
	case 0:
		return fmt.Sprint(n)
	case 1:
		return fmt.Sprintf("%d/%s", n, u)
	case 2:
		return fmt.Sprintf("%d/%d%s", n, 1+rng.Intn(999), u)
	case 3:
		return fmt.Sprintf("%d/%d.%d%s", n, rng.Intn(100), 1+rng.Intn(9), []string{"ms", "s", "m", "h", "us"}[rng.Intn(5)])
	case 4:
		return fmt.Sprintf("%d/%dm%ds", n, 1+rng.Intn(59), 1+rng.Intn(59))
	}
	return fmt.Sprintf("%d/%dh%dm%d.%03ds", n, 1+rng.Intn(23), rng.Intn(60), rng.Intn(60), 1+rng.Intn(998))
}

func c18randPayload(rng *rand.Rand) (arg string, want []byte) {
	n := []int{0, 1, 2, 3, 16, 64, 255, 1400}[rng.Intn(8)]
	want = make([]byte, n)
	rng.Read(want)
	var sb strings.Builder
	style := rng.Intn(4)
	for _, b := range want {
		switch {
		case style == 0:
			fmt.Fprintf(&sb, "\\x%02x", b)
		case style == 1:
			fmt.Fprintf(&sb, "\\x%02X", b)
		case style == 2:
			fmt.Fprintf(&sb, "\\%03o", b)
		default: // printable ASCII raw, the rest escaped
			switch {
			case b == '\\':
				sb.WriteString(`\\`)
			case b == '"':
				sb.WriteString(`\"`)
			case b == '\n':
				sb.WriteString(`\n`)
			case b == '\t':
				sb.WriteString(`\t`)
			case b >= 0x20 && b < 0x7f:
				sb.WriteByte(b)
			default:
				fmt.Fprintf(&sb, "\\x%02x", b)
			}
		}
	}
	return sb.String(), want
}

func c18randFileOf(rng *rand.Rand, entry func() string) string {
	var sb strings.Builder
	n := rng.Intn(12)
	if rng.Intn(20) == 0 {
		n = 200 + rng.Intn(2000)
	}
	for i := 0; i < n; i++ {
		switch rng.Intn(8) {
		case 0:
			sb.WriteString("# comment " + entry() + "\n")
		case 1:
			sb.WriteString("\n")
		case 2:
			sb.WriteString("   " + entry() + "   \n")
		case 3:
			sb.WriteString(entry() + " # trailing comment\n")
		case 4:
			sb.WriteString(entry() + "#c\n")
		default:
			sb.WriteString(entry() + "\n")
		}
	}
	if rng.Intn(2) == 0 {
		sb.WriteString(entry()) // no final newline
	}
	return sb.String()
}

func c18randCIDR(rng *rand.Rand) string {
	a := rng.Uint32()
	if rng.Intn(4) == 0 {
		return oracle.IPString(oracle.U32ToIP(a))
	}
	bits := []int{0, 1, 7, 8, 15, 16, 23, 24, 25, 30, 31, 32, rng.Intn(33)}[rng.Intn(13)]
	return fmt.Sprintf("%s/%d", oracle.IPString(oracle.U32ToIP(a)), bits)
}

func c18randPortEntry(rng *rand.Rand) string {
	a, b := rng.Intn(65536), rng.Intn(65536)
	if rng.Intn(2) == 0 {
		return fmt.Sprint(a)
	}
	if a > b {
		a, b = b, a
	}
	return fmt.Sprintf("%d-%d", a, b)
}

// ---- fixed hostile corpora

var c18portCorpus = []string{"", " ", ",", "-", "--", "1-", "-1", "1--2", "1-2-3", "1,,2", ",1", "1,", "65536", "65535", "0", "0-0", "0-65535", "65535-0", "2-1", "1 - 2", " 1", "1 ", "+1", "-0",
	"0x50", "0b1", "0o7", "1_000", "1e3", "1.0", "８０", "٨٠", "80\x00", "\x0080", "80\n", "80\r\n", "80;443", "80 443", "80:443", "1–2", "99999999999999999999", "18446744073709551616",
	"4294967376", "65616", "0065535", "00000000000000000000000080", "1-65536", "65536-1", "a", "http", "1-a", "a-1", "1,a", strings.Repeat("1,", 5000) + "1", strings.Repeat("9", 100000)}

var c18rateCorpus = []string{"", "/", "1/", "/s", "1/s", "1/1s", "1/ s", "1 /s", " 1/s", "1/s ", "0", "0/s", "-1", "-1/s", "+1/s", "1/-1s", "1/+1s", "1/0", "1/0s", "1/s/s", "1//s", "1/1", "1/5", "1/.5s", "1/0.5s", "1/1.5s", "1/1.s", "1/.s",
	"1/1e3s", "1/1_0s", "1/1 s", "1/１s", "1/1S", "1/1Ms", "1/d", "1/w", "1/1d", "1/1h1", "1/1h1m", "1/1m1h", "2147483647/s", "2147483648/s", "4294967297/s", "4294967296", "99999999999999999999/s", "1/99999999999h", "1/9223372036854775807ns",
	"1/9223372036854775808ns", "1/2562047h48m", "1.5/s", "1e3/s", "0x10/s", "1k/s", "1000/s", "500/7s", "1/µs", "1/μs", "1/us", "1/\xb5s", "1/ns", "1/1.9999999999ns", "10/0.000001ms", "\x001/s", "1\x00/s", "1/s\x00", "1/\n", "1\n"}

var c18flagCorpus = []string{"", ",", "syn", "SYN", "Syn", "sYn", "syn,ack", "syn,syn", "syn,", ",syn", "syn,,ack", " syn", "syn ", "syn, ack", "syn;ack", "syn ack", "syn|ack", "synack", "sa", "s", "all", "none", "0", "0x12", "18", "ſyn", "ＳＹＮ", "syn\x00", "\x00", "ns", "NS", "n", "cwr,ece,urg,ack,psh,rst,syn,fin,ns", "cwr,ece,urg,ack,psh,rst,syn,fin,ns,xx", "ec", "ecn", "push", "reset", "final", "urgent", "ack\n", "ACK\t", "İ", "K"}

var c18ipFlagCorpus = []string{"", ",", "df", "DF", "Df", "mf", "evil", "EVIL", "df,mf", "df,mf,evil", "df,df", "df,", ",df", " df", "df ", "d", "dff", "rf", "reserved", "0", "2", "0x2", "df|mf", "df mf", "ＤＦ", "df\x00", "dſ", "evıl", "EVİL", "MF,DF,EVIL"}

var c18payloadCorpus = []string{"", "a", "abc", `\x00`, `\x`, `\x0`, `\xg0`, `\xGG`, `\0`, `\00`, `\000`, `\377`, `\400`, `\777`, `\8`, `A`, `é`, `\ud800`, `\udfff`, `\U0001F600`, `\U00110000`, `\U0010FFFF`, `\u`, `\u12`, `\U1234`,
	`\a\b\f\n\r\t\v`, `\\`, `\"`, `\'`, `'`, `"`, `a"b`, `\`, `a\`, `\q`, `\ `, `\e`, `\N`, "\n", "a\nb", "\x00", "\x7f", "é", "日本", "\t", `\x41\x42`, `%41`, `&#65;`, `\X41`, `\x4`, `0x41`, "`", "$(id)", "\\x00\\x00\\x00\\x00", strings.Repeat(`\xff`, 5000), strings.Repeat("A", 100000)}

func TestVerifC18Strings(t *testing.T) {
	run := vlab.Begin(t, "C18", "strings")
	defer run.End()
	rng := run.Rand(fmt.Sprintf("strings/%d", run.Batch()))
	perParser := run.Pick(160000, 1600000) / run.NBatch()
	stats := map[string]*c18stats{}
	stOf := func(k string) *c18stats {
		if stats[k] == nil {
			stats[k] = &c18stats{}
		}
		return stats[k]
	}
	idx := 0
	each := func(parser string, corpus []string, gen func() string, judge func(s string, st *c18stats)) {
		st := stOf(parser)
		for _, s := range corpus {
			idx++
			if !run.Mine(idx) {
				continue
			}
			run.Case(parser, s)
			judge(s, st)
			run.Eval(1)
			if len(s) > 2 {
				run.Distinct(parser + "/" + s)
			}
		}
		for i := 0; i < perParser; i++ {
			s := gen()
			run.Case(parser, s)
			judge(s, st)
			run.Eval(1)
			if len(s) > 2 {
				run.Distinct(parser + "/" + s)
			}
		}
	}
	mut := func(valid func() string) func() string {
		return func() string {
			switch rng.Intn(10) {
			case 0:
				return valid()
			case 1: // pure noise
				b := make([]byte, rng.Intn(12))
				rng.Read(b)
				return string(b)
			}
			return c18mutate(rng, valid())
		}
	}
	each("ports", c18portCorpus, mut(func() string { return c18randPortList(rng, 4) }), func(s string, st *c18stats) { c18judgePorts(run, s, st) })
	each("rate", c18rateCorpus, mut(func() string { return c18randRate(rng) }), func(s string, st *c18stats) { c18judgeRate(run, s, st) })
	each("tcpflags", c18flagCorpus, mut(func() string {
		names := []string{"syn", "ack", "fin", "rst", "psh", "urg", "ece", "cwr", "ns"}
		rng.Shuffle(len(names), func(a, b int) { names[a], names[b] = names[b], names[a] })
		return strings.Join(names[:rng.Intn(10)], ",")
	}), func(s string, st *c18stats) { c18judgeTCPFlags(run, s, st) })
	each("ipflags", c18ipFlagCorpus, mut(func() string {
		names := []string{"df", "mf", "evil"}
		rng.Shuffle(len(names), func(a, b int) { names[a], names[b] = names[b], names[a] })
		return strings.Join(names[:rng.Intn(4)], ",")
	}), func(s string, st *c18stats) { c18judgeIPFlags(run, s, st) })
	each("payload", c18payloadCorpus, mut(func() string { a, _ := c18randPayload(rng); return a }), func(s string, st *c18stats) { c18judgePayload(run, s, false, st) })
	// files: fewer (each is a whole file)
	perParser /= 8
	longLine := strings.Repeat(" ", 70000)
	// lines longer than a reader's internal buffer (4096, 8192, 16384, 32768) but shorter than any documented limit:
	// a comment whose tail, cut at a buffer boundary, looks like an entry of its own; a value pushed across the boundary
	var midPorts, midExcl []string
	for _, b := range []int{4096, 8192, 16384, 32768, 4095, 4097} {
		midPorts = append(midPorts, "80\n#"+strings.Repeat("x", b-1)+"8080\n443\n", "80\n#"+strings.Repeat("-", b-2)+" 22\n", strings.Repeat(" ", b-2)+"8080\n", "80\n"+strings.Repeat(" ", b)+"\n443", "7#"+strings.Repeat("9", b+3)+"\n")
		midExcl = append(midExcl, "10.0.0.0/8\n#"+strings.Repeat("x", b-1)+"11.0.0.0/8\n", strings.Repeat(" ", b-3)+"10.1.2.3\n", "10.0.0.1 #"+strings.Repeat("y", b-10)+"10.0.0.2\n")
	}
	each("portsfile", append(midPorts, []string{"\t\n", " \t \n", "\t# note\n80\n", "\v\n80\n", "\f\n", "80 443\n", "80\t443\n", "80\n \t\n443\n", "", "\n", "#\n", "80", "80\n", "80\r\n", "80\n443\n", "80 # web\n", "#80\n443", "80\n\n\n443", " 80 \n", "\t80\n", "80,443\n", "1-2-3\n", "80\n" + longLine + "\n443\n", "80" + longLine + "\n443\n", "80\n# " + longLine + "\n443\n", "80\x00\n", "80\n65536\n", "1-65535\n0\n"}...),
		func() string {
			f := c18randFileOf(rng, func() string { return c18randPortEntry(rng) })
			if rng.Intn(3) == 0 {
				return c18mutate(rng, f)
			}
			if rng.Intn(40) == 0 {
				return f + "\n" + strings.Repeat("#", 66000+rng.Intn(10)) + "\n" + c18randPortEntry(rng) + "\n"
			}
			return f
		}, func(s string, st *c18stats) { c18judgePortsFile(run, s, st) })
	each("exclude", append(midExcl, []string{"\t\n", " \t \n", "\t# note\n10.0.0.0/8\n", "\v\n", "10.0.0.0/8 172.16.0.0/12\n", "10.0.0.0/8\t172.16.0.0/12\n", "10.0.0.1\n\t\n10.0.0.2\n", "", "\n", "10.0.0.0/8", "10.0.0.0/8\n", "10.0.0.1\n", "10.0.0.0/8 # rfc1918\n172.16.0.0/12\n192.168.0.0/16\n", "0.0.0.0/0\n", "255.255.255.255/32\n", "10.0.0.1/24\n", "::1\n", "::/0\n", "10.0.0.0/33\n", "10.0.0.0/-1\n",
		"10.0.0\n", "10.0.0.0.0\n", "10.0.0.256\n", "10.0.0.0/8\n" + longLine + "\n11.0.0.0/8\n", "10.0.0.0/8\n#" + longLine + "\n11.0.0.0/8\n", "10.0.0.0/8,11.0.0.0/8\n", "10.0.0.0 /8\n", "localhost\n", "10.0.0.0/8\r\n11.0.0.0/8\r\n"}...),
		func() string {
			f := c18randFileOf(rng, func() string { return c18randCIDR(rng) })
			if rng.Intn(3) == 0 {
				return c18mutate(rng, f)
			}
			if rng.Intn(40) == 0 {
				return f + "\n" + strings.Repeat("#", 66000+rng.Intn(10)) + "\n" + c18randCIDR(rng) + "\n"
			}
			return f
		}, func(s string, st *c18stats) { c18judgeExclude(run, s, st) })
	for k, st := range stats {
		run.Count("accepted:"+k, st.accepted)
		run.Count("rejected:"+k, st.rejected)
		run.Count("dontcare:"+k, st.dontcare)
		run.Count("strings_accepted", st.accepted)
		run.Count("strings_rejected", st.rejected)
	}
	run.Sample(map[string]interface{}{"parser": "rate", "string": "500/7s", "denotes": "500 per 7s"})
}

func TestVerifC18Round(t *testing.T) {
	run := vlab.Begin(t, "C18", "round")
	defer run.End()
	rng := run.Rand(fmt.Sprintf("round/%d", run.Batch()))
	st := &c18stats{}
	idx := 0
	// ---- all 512 TCP flag subsets x shuffles x letter case -> bits of a built frame
	names := []string{"syn", "ack", "fin", "rst", "psh", "urg", "ece", "cwr", "ns"}
	shuffles := run.Pick(4, 40)
	for set := 0; set < 512; set++ {
		idx++
		if !run.Mine(idx) {
			continue
		}
		var sel []string
		for i, n := range names {
			if set&(1<<uint(i)) != 0 {
				sel = append(sel, n)
			}
		}
		for k := 0; k < shuffles; k++ {
			cur := append([]string(nil), sel...)
			rng.Shuffle(len(cur), func(a, b int) { cur[a], cur[b] = cur[b], cur[a] })
			for i := range cur {
				switch (k + i) % 3 {
				case 1:
					cur[i] = strings.ToUpper(cur[i])
				case 2:
					b := []byte(cur[i])
					b[rng.Intn(len(b))] -= 32
					cur[i] = string(b)
				}
			}
			if k%5 == 4 && len(cur) > 0 { // a repeated name denotes the same set
				cur = append(cur, cur[rng.Intn(len(cur))])
			}
			arg := strings.Join(cur, ",")
			run.Case("tcpflags", arg)
			before := run.Violations()
			c18judgeTCPFlags(run, arg, st)
			run.Eval(1)
			run.Count("tcp_flag_renderings", 1)
			if run.Violations() == before && run.WantSample() && len(cur) >= 3 {
				run.Sample(map[string]interface{}{"parser": "tcpflags", "string": arg, "frame_flag_bits": fmt.Sprintf("%09b", set)})
			}
		}
		run.Count("tcp_flag_subsets", 1)
		run.Distinct(fmt.Sprintf("tcpflags/%d", set))
	}
	// ---- all 8 IP flag subsets x every order x case
	ipn := []string{"df", "mf", "evil"}
	for set := 0; set < 8; set++ {
		idx++
		if !run.Mine(idx) {
			continue
		}
		var sel []string
		for i, n := range ipn {
			if set&(1<<uint(i)) != 0 {
				sel = append(sel, n)
			}
		}
		for k := 0; k < 24; k++ {
			cur := append([]string(nil), sel...)
			rng.Shuffle(len(cur), func(a, b int) { cur[a], cur[b] = cur[b], cur[a] })
			for i := range cur {
				if (k>>uint(i))&1 == 1 {
					cur[i] = strings.ToUpper(cur[i])
				}
			}
			arg := strings.Join(cur, ",")
			run.Case("ipflags", arg)
			c18judgeIPFlags(run, arg, st)
			run.Eval(1)
		}
		run.Count("ip_flag_subsets", 1)
		run.Distinct(fmt.Sprintf("ipflags/%d", set))
	}
	// ---- every byte value as payload, in each escape style
	for b := 0; b < 256; b++ {
		idx++
		if !run.Mine(idx) {
			continue
		}
		for _, arg := range []string{fmt.Sprintf("\\x%02x", b), fmt.Sprintf("\\x%02X", b), fmt.Sprintf("\\%03o", b), fmt.Sprintf("A\\x%02xB", b)} {
			run.Case("payload", arg)
			c18judgePayload(run, arg, true, st)
			run.Eval(1)
		}
		run.Count("payload_byte_values", 1)
		run.Distinct(fmt.Sprintf("payload/%d", b))
	}
	// ---- generated values
	n := run.Pick(96000, 1200000) / run.NBatch()
	for i := 0; i < n; i++ {
		switch i % 6 {
		case 0:
			s := c18randPortList(rng, []int{1, 3, 10, 250, 600}[rng.Intn(5)])
			run.Case("ports", s)
			c18judgePorts(run, s, st)
			run.Count("port_lists", 1)
			run.Distinct("ports/" + s)
		case 1:
			s := c18randRate(rng)
			run.Case("rate", s)
			c18judgeRate(run, s, st)
			run.Count("rates", 1)
			run.Distinct("rate/" + s)
			if run.WantSample() && strings.Contains(s, ".") {
				nn, w, _ := parseRateLimit(s)
				run.Sample(map[string]interface{}{"parser": "rate", "string": s, "parsed_count": nn, "parsed_window": w.String()})
			}
		case 2:
			arg, want := c18randPayload(rng)
			run.Case("payload", arg)
			c18judgePayload(run, arg, true, st)
			got, err := parsePacketPayload(arg)
			if err == nil && !bytes.Equal(got, want) {
				run.Violation("payload:wrong-value", fmt.Sprintf("--payload %s parsed as %x, rendered from %x", c18q(arg), truncate(got, 64), truncate(want, 64)), arg)
			}
			run.Count("payloads", 1)
			run.Distinct("payload/" + vlab.HashStr(arg))
		case 3:
			f := c18randFileOf(rng, func() string { return c18randPortEntry(rng) })
			run.Case("portsfile", f)
			c18judgePortsFile(run, f, st)
			run.Count("ports_files", 1)
			run.Distinct("portsfile/" + vlab.HashStr(f))
		case 4:
			f := c18randFileOf(rng, func() string { return c18randCIDR(rng) })
			run.Case("exclude", f)
			c18judgeExclude(run, f, st)
			run.Count("exclude_files", 1)
			run.Distinct("exclude/" + vlab.HashStr(f))
		case 5:
			// the CLI path: -p and --ports-file together are concatenated in that order
			p := c18randPortList(rng, 3)
			f := c18randFileOf(rng, func() string { return c18randPortEntry(rng) })
			run.Case("ports+file", p+" | "+f)
			dir := t.TempDir()
			o := &ipPortScanCmdOpts{}
			o.rawPortRanges = p
			o.portFile = writeTemp(dir, "ports.txt", f)
			err := o.parseRawOptions()
			w1, _, _ := oracle.LibPortList(p)
			lines, _ := oracle.LibLines(f)
			for _, l := range lines {
				r, _, _ := oracle.LibPortRange(l)
				w1 = append(w1, r)
			}
			if err != nil {
				run.Violation("ports+file:rejected-canonical", fmt.Sprintf("-p %s with a valid ports file rejected: %v", p, err), p+" | "+f)
			} else if !c18samePorts(o.portRanges, w1) {
				run.Violation("ports+file:wrong-value", fmt.Sprintf("-p %s + ports file parsed as [%s], written %v", p, c18portsStr(o.portRanges), truncPorts(w1)), p+" | "+f)
			}
			run.Count("ports_plus_file", 1)
		}
		run.Eval(1)
	}
	run.Count("round_accepted", st.accepted)
}
