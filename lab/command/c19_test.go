//go:build verif

package command

// C19 — live mode: complete passes repeat until cancelled.
//
//  unit "live":  scan.NewLiveRequestGenerator(recording delegate around the REAL generators)
//  unit "wired": arpCmdOpts.newARPScanMethod with --live (and --exclude) through the packet engine

import (
	"context"
	"errors"
	"fmt"
	"io"
	"math/rand"
	"net"
	"strings"
	"sync"
	"sync/atomic"
	"testing"
	"time"

	"github.com/v-byte-cpu/sx/pkg/ip"
	"github.com/v-byte-cpu/sx/pkg/scan"
	"verif.local/v/oracle"
	"verif.local/v/vlab"
)

// liveDelegate wraps a real generator: tags every request with its pass number, records when
// each pass was requested and when its stream was closed (both on the monitor's clock, both
// erring on the safe side for a lower bound), can fail on chosen passes, can emit slowly.
type liveDelegate struct {
	inner     scan.RequestGenerator
	failOn    map[int]bool
	failFrom  int // > 0: every pass from this one on fails to start (e.g. the target file was removed)
	perReqDelay time.Duration
	emptyOn   map[int]bool // passes that legitimately yield no request at all (an empty target list at that moment)
	errEvery  int // > 0: an error request (a target that could not be resolved) precedes every errEvery-th request of a pass
	errsSent  int32
	mu        sync.Mutex
	callT     []time.Time // taken on entry (>= true call time)
	closeT    map[int]time.Time // taken just before close (<= true close time)
	calls     int32
}

func (d *liveDelegate) GenerateRequests(ctx context.Context, r *scan.Range) (<-chan *scan.Request, error) {
	now := time.Now()
	pass := int(atomic.AddInt32(&d.calls, 1))
	d.mu.Lock()
	if len(d.callT) < 100000 {
		d.callT = append(d.callT, now)
	}
	d.mu.Unlock()
	if d.failOn[pass] || d.failFrom > 0 && pass >= d.failFrom {
		return nil, errors.New("scripted: pass failed to start")
	}
	in, err := d.inner.GenerateRequests(ctx, r)
	if err != nil {
		return nil, err
	}
	out := make(chan *scan.Request, cap(in))
	go func() {
		defer func() {
			d.mu.Lock()
			d.closeT[pass] = time.Now()
			d.mu.Unlock()
			close(out)
		}()
		k := 0
		for req := range in {
			if d.emptyOn[pass] {
				continue
			}
			k++
			if d.errEvery > 0 && k%d.errEvery == 0 {
				atomic.AddInt32(&d.errsSent, 1)
				select {
				case out <- &scan.Request{Err: errors.New("scripted: target could not be resolved"), Meta: map[string]interface{}{"pass": pass}}:
				case <-ctx.Done():
					return
				}
			}
			if req.Meta == nil {
				req.Meta = map[string]interface{}{}
			}
			req.Meta["pass"] = pass
			if d.perReqDelay > 0 {
				time.Sleep(d.perReqDelay)
			}
			select {
			case out <- req:
			case <-ctx.Done():
				return
			}
		}
	}()
	return out, nil
}

type c19case struct {
	Subnet      string `json:"subnet"`
	Exclude     string `json:"exclude,omitempty"`
	IntervalMs  int    `json:"rescan_interval_ms"`
	PerReqUs    int    `json:"delegate_delay_per_request_us"`
	ConsumerUs  int    `json:"consumer_delay_per_request_us"`
	CancelAfter int    `json:"cancel_after_requests"` // -1: cancel after MinPasses complete passes, between passes
	MinPasses   int    `json:"passes_to_observe"`
	FailPass    int    `json:"delegate_fails_on_pass"` // 0 none
	FailForever bool   `json:"and_on_every_later_pass,omitempty"`
	ErrEvery    int    `json:"error_request_before_every_nth,omitempty"`
	EmptyPass   int    `json:"pass_that_yields_no_request,omitempty"`
	RandSeed    int64  `json:"rand_seed"`
}

func c19live(run *vlab.Run, c c19case) {
	ctx, cancel := context.WithCancel(context.Background())
	defer cancel()
	rand.Seed(c.RandSeed)
	dst, err := ip.ParseIPNet(c.Subnet)
	if err != nil {
		run.Inconclusive("subnet rejected")
		return
	}
	cidr, _ := oracle.RefTarget(c.Subnet)
	var ex []oracle.CIDR
	var inner scan.RequestGenerator = scan.NewIPRequestGenerator(scan.NewIPGenerator())
	if c.Exclude != "" {
		ex, _ = oracle.RefExcludeFile(c.Exclude)
		cont, err := parseExcludeFile(func() (io.ReadCloser, error) { return io.NopCloser(strings.NewReader(c.Exclude)), nil })
		if err != nil {
			run.Inconclusive("exclude rejected")
			return
		}
		inner = scan.NewFilterIPRequestGenerator(inner, cont)
	}
	exp := map[uint64]int32{}
	oracle.ExpectSubnetPorts(exp, cidr, nil, ex)
	perPass := len(exp)
	if perPass == 0 {
		c19allExcluded(run, c, inner, dst)
		return
	}
	d := &liveDelegate{inner: inner, failOn: map[int]bool{}, closeT: map[int]time.Time{}, perReqDelay: time.Duration(c.PerReqUs) * time.Microsecond, errEvery: c.ErrEvery}
	if c.EmptyPass > 0 {
		d.emptyOn = map[int]bool{c.EmptyPass: true}
	}
	if c.FailPass > 0 {
		d.failOn[c.FailPass] = true
		if c.FailForever {
			d.failFrom = c.FailPass
		}
	}
	interval := time.Duration(c.IntervalMs) * time.Millisecond
	live := scan.NewLiveRequestGenerator(d, interval)
	rng := &scan.Range{DstSubnet: dst}
	passes := map[int]map[uint64]int32{}
	received := 0
	errReqs := 0
	closed := false
	var cancelT time.Time
	afterCancel := 0
	dump, finished, parked := run.Watch(time.Duration(c.MinPasses+3)*(interval+time.Duration(perPass)*time.Duration(c.PerReqUs+c.ConsumerUs+50)*time.Microsecond)+30*time.Second, "v-byte-cpu/sx/pkg/scan", func() {
		if c.CancelAfter == 0 {
			cancelT = time.Now()
			cancel() // cancelled before the first request
		}
		out, err := live.GenerateRequests(ctx, rng)
		if err != nil {
			if c.FailPass != 1 {
				run.Violation("live-start-error", fmt.Sprintf("live generator failed to start: %v: %+v", err, c), c)
			}
			closed = true
			return
		}
		var quiet <-chan time.Time
		for {
			select {
			case req, ok := <-out:
				if !ok {
					closed = true
					return
				}
				if !cancelT.IsZero() {
					afterCancel++
					continue
				}
				if req.Err != nil && c.ErrEvery > 0 {
					errReqs++ // error requests are forwarded like any other; the pass goes on
					continue
				}
				if req.Err != nil {
					run.Violation("live-error-request", fmt.Sprintf("error request in a healthy pass: %v: %+v", req.Err, c), c)
					continue
				}
				p, _ := req.Meta["pass"].(int)
				if passes[p] == nil {
					passes[p] = map[uint64]int32{}
				}
				var a [4]byte
				copy(a[:], req.DstIP.To4())
				passes[p][oracle.Key(oracle.IPToU32(a), 0)]++
				received++
				if c.ConsumerUs > 0 {
					time.Sleep(time.Duration(c.ConsumerUs) * time.Microsecond)
				}
				if c.CancelAfter >= 0 && received == c.CancelAfter {
					cancelT = time.Now()
					cancel()
				}
				if c.CancelAfter < 0 && perPass > 0 && received == c.MinPasses*perPass {
					quiet = time.After(interval / 4) // between passes
				}
			case <-quiet:
				cancelT = time.Now()
				cancel()
				quiet = nil
			case <-time.After(interval*3 + 5*time.Second):
				// no request for a long time while not cancelled
				if cancelT.IsZero() {
					if c.FailPass > 0 && int(atomic.LoadInt32(&d.calls)) >= c.FailPass {
						cancelT = time.Now() // the statement allows live mode to stall after a failed pass
						cancel()
						continue
					}
					if perPass == 0 {
						cancelT = time.Now()
						cancel()
						continue
					}
					run.Violation("passes-stopped", fmt.Sprintf("no further pass for %v although the scan was not cancelled and the delegate is healthy (%d requests, %d delegate calls so far): %+v", interval*3+5*time.Second, received, atomic.LoadInt32(&d.calls), c), c)
					cancelT = time.Now()
					cancel()
				}
			}
		}
	})
	if n := int(atomic.LoadInt32(&d.calls)); !finished && c.FailPass > 0 && n > c.FailPass+50 {
		run.Violation("busy-loop-after-failed-pass", fmt.Sprintf("%d delegate calls after pass %d failed to start, and the stream did not end after cancellation: %+v", n-c.FailPass, c.FailPass, c), c)
		return
	}
	if !finished {
		if parked {
			run.Violation("stream-not-closed", fmt.Sprintf("the live request stream did not end after cancellation; goroutines parked: %+v", c), map[string]interface{}{"case": c, "stacks": dump})
		} else {
			run.Inconclusive(fmt.Sprintf("live run still going: %+v", c))
		}
		return
	}
	if closed && cancelT.IsZero() && c.FailPass != 1 {
		run.Violation("live-ended-without-cancel", fmt.Sprintf("the live stream ended on its own after %d requests / %d delegate calls: %+v", received, atomic.LoadInt32(&d.calls), c), c)
	}
	// ---- per-pass multisets: every pass that is complete (a later pass was started or the cancel came between passes)
	d.mu.Lock()
	defer d.mu.Unlock()
	ncalls := int(atomic.LoadInt32(&d.calls))
	if ncalls > len(d.callT) {
		ncalls = len(d.callT)
	}
	complete := 0
	for p := 1; p <= ncalls; p++ {
		got := passes[p]
		if got == nil {
			got = map[uint64]int32{}
		}
		last := p == ncalls
		if d.failOn[p] {
			continue
		}
		if d.emptyOn[p] {
			if len(got) != 0 {
				run.Violation("pass-incomplete", fmt.Sprintf("pass %d yields no request, %d came out: %+v", p, len(got), c), c)
			}
			continue
		}
		if last && c.CancelAfter >= 0 {
			// the pass in which the cancellation happened may be incomplete, but never over-complete
			for k, n := range got {
				if n > exp[k] {
					run.Violation("pass-repeats-target", fmt.Sprintf("pass %d probed %s x%d: %+v", p, oracle.KeyString(k), n, c), c)
				}
			}
			continue
		}
		missing, extra, repeated := oracle.DiffMultiset(exp, got, 3)
		if len(missing)+len(extra)+len(repeated) > 0 {
			if last {
				// cancelled "between passes" but the last pass had not delivered everything yet: only over-delivery is judged
				if len(extra)+len(repeated) == 0 {
					continue
				}
			}
			run.Violation("pass-incomplete", fmt.Sprintf("pass %d of %d: %d targets expected; missing %v extra %v repeated %v: %+v", p, ncalls, len(exp), keyStrs(missing), keyStrs(extra), keyStrs(repeated), c), c)
		} else {
			complete++
		}
	}
	// ---- interval lower bound between the end of pass i and the request for pass i+1
	for p := 1; p < ncalls; p++ {
		ct, ok := d.closeT[p]
		if !ok {
			continue // failed pass
		}
		gap := d.callT[p].Sub(ct) // callT index p = pass p+1
		if gap < interval {
			run.Violation("rescan-too-early", fmt.Sprintf("pass %d was requested %v after pass %d ended; the rescan interval is %v: %+v", p+1, gap, p, interval, c), c)
		}
		run.Max("max_gap_overshoot_us", (gap - interval).Microseconds())
	}
	// ---- no busy loop
	if c.FailPass > 0 && int(atomic.LoadInt32(&d.calls)) > c.FailPass+50 {
		run.Violation("busy-loop-after-failed-pass", fmt.Sprintf("%d delegate calls after pass %d failed to start: %+v", ncalls-c.FailPass, c.FailPass, c), c)
	}
	if afterCancel > cap1(perPass) {
		run.Violation("requests-after-cancel", fmt.Sprintf("%d requests delivered after cancellation: %+v", afterCancel, c), c)
	}
	run.Count("passes_complete", int64(complete))
	run.Count("delegate_calls", int64(ncalls))
	run.Count("requests_received", int64(received))
	if c.CancelAfter >= 0 {
		run.Count("cancel_mid_pass", 1)
	} else {
		run.Count("cancel_between_passes", 1)
	}
	if c.FailPass > 0 {
		run.Count("failed_pass_runs", 1)
	}
	if c.ErrEvery > 0 {
		run.Count("runs_with_error_requests_inside_passes", 1)
		run.Count("error_requests_inside_passes", int64(errReqs))
		if sent := int(atomic.LoadInt32(&d.errsSent)); errReqs > sent {
			run.Violation("error-request-repeated", fmt.Sprintf("%d error requests came out of live mode, the passes contained %d: %+v", errReqs, sent, c), c)
		}
	}
}

// c19allExcluded: every address of the target is excluded, so every pass is empty. Live mode still consists of
// consecutive passes: the stream stays open (it ends only on cancellation), the delegate keeps being asked, never
// earlier than the interval, never in a busy loop; cancellation ends the stream.
func c19allExcluded(run *vlab.Run, c c19case, inner scan.RequestGenerator, dst *net.IPNet) {
	ctx, cancel := context.WithCancel(context.Background())
	defer cancel()
	d := &liveDelegate{inner: inner, failOn: map[int]bool{}, closeT: map[int]time.Time{}}
	interval := time.Duration(c.IntervalMs) * time.Millisecond
	live := scan.NewLiveRequestGenerator(d, interval)
	got, closedEarly, closedAfter := 0, false, false
	_, finished, parked := run.Watch(30*time.Second, "v-byte-cpu/sx/pkg/scan", func() {
		out, err := live.GenerateRequests(ctx, &scan.Range{DstSubnet: dst})
		if err != nil {
			run.Violation("live-start-error", fmt.Sprintf("live generator failed to start: %v: %+v", err, c), c)
			return
		}
		timer := time.After(6*interval + 300*time.Millisecond)
		for {
			select {
			case _, ok := <-out:
				if !ok {
					closedEarly = true
					return
				}
				got++
			case <-timer:
				cancel()
				for range out {
				}
				closedAfter = true
				return
			}
		}
	})
	run.Eval(1)
	if !finished {
		if parked {
			run.Violation("stream-not-closed", fmt.Sprintf("the live request stream did not end after cancellation (every pass empty): %+v", c), c)
		} else {
			run.Inconclusive("live run with empty passes still going")
		}
		return
	}
	calls := int(atomic.LoadInt32(&d.calls))
	switch {
	case closedEarly:
		run.Violation("live-ended-without-cancel", fmt.Sprintf("the live stream ended on its own after a pass that yielded no request (%d delegate calls): %+v", calls, c), c)
	case got > 0:
		run.Violation("pass-incomplete", fmt.Sprintf("%d requests came out although every address is excluded: %+v", got, c), c)
	case calls < 2:
		run.Violation("passes-stopped", fmt.Sprintf("only %d pass was started in %v although the scan was not cancelled (every pass is empty, interval %v): %+v", calls, 6*interval+300*time.Millisecond, interval, c), c)
	case calls > 60+int((6*interval+300*time.Millisecond)/(interval+1)):
		run.Violation("busy-loop-after-failed-pass", fmt.Sprintf("%d passes were started in %v with interval %v: %+v", calls, 6*interval+300*time.Millisecond, interval, c), c)
	}
	_ = closedAfter
	run.Count("all_excluded_live_runs", 1)
	run.Count("delegate_calls", int64(calls))
}

func cap1(n int) int {
	if n < 200 {
		return 200
	}
	return n
}

func keyStrs(ks []uint64) []string {
	var s []string
	for _, k := range ks {
		s = append(s, oracle.KeyString(k))
	}
	return s
}

func TestVerifC19Live(t *testing.T) {
	run := vlab.Begin(t, "C19", "live")
	defer run.End()
	var cases []c19case
	rng := run.Rand("cases")
	// ---- cancellation at every request index of the first three passes (small subnets)
	for _, sn := range []string{"10.3.0.0/30", "10.3.0.5/29", "10.3.0.9"} {
		cidr, _ := oracle.RefTarget(sn)
		n := int(cidr.Size())
		for k := 0; k <= 3*n; k++ {
			cases = append(cases, c19case{Subnet: sn, IntervalMs: 5, CancelAfter: k, MinPasses: 3, RandSeed: int64(k)})
		}
	}
	// ---- complete passes, interval lower bound, slow delegate / slow consumer (pass longer than the interval)
	for i := 0; i < run.Pick(60, 600); i++ {
		c := c19case{Subnet: c01randSubnet(rng, 26+rng.Intn(5)), IntervalMs: []int{1, 5, 20, 60, 200}[rng.Intn(5)], CancelAfter: -1, MinPasses: 3 + rng.Intn(2), RandSeed: rng.Int63()}
		switch rng.Intn(4) {
		case 0:
			c.PerReqUs = 200 + rng.Intn(3000)
		case 1:
			c.ConsumerUs = 200 + rng.Intn(3000)
		}
		if rng.Intn(3) == 0 {
			cidr, _ := oracle.RefTarget(c.Subnet)
			c.Exclude = c02randExcludeFile(rng, cidr)
			if _, cls := oracle.RefExcludeFile(c.Exclude); cls != oracle.TargetValid {
				c.Exclude = ""
			}
		}
		if c.IntervalMs >= 200 {
			c.MinPasses = 3
		}
		cases = append(cases, c)
	}
	// ---- passes that contain error requests (a target of the pass could not be resolved): the pass goes on
	for _, ee := range []int{1, 2, 3, 5, 8} {
		for _, sn := range []string{"10.5.0.0/28", "10.5.1.3/29"} {
			cases = append(cases, c19case{Subnet: sn, IntervalMs: 5, CancelAfter: -1, MinPasses: 3, ErrEvery: ee, RandSeed: int64(ee)})
		}
	}
	// ---- passes that legitimately yield nothing: the whole target excluded; a target list that is empty on one pass
	for _, iv := range []int{5, 20, 100} {
		cases = append(cases, c19case{Subnet: "10.6.0.0/30", Exclude: "10.6.0.0/24\n", IntervalMs: iv, CancelAfter: -1, MinPasses: 3, RandSeed: int64(iv)})
		cases = append(cases, c19case{Subnet: "10.6.1.7", Exclude: "# all of it\n10.6.1.7\n", IntervalMs: iv, CancelAfter: -1, MinPasses: 3, RandSeed: int64(iv)})
		for _, ep := range []int{1, 2, 3} {
			cases = append(cases, c19case{Subnet: "10.6.2.0/29", IntervalMs: iv, CancelAfter: -1, MinPasses: 4, EmptyPass: ep, RandSeed: int64(iv + ep)})
		}
	}
	// ---- a pass that fails to start
	for _, fp := range []int{1, 2, 3} {
		for _, iv := range []int{1, 20} {
			cases = append(cases, c19case{Subnet: "10.4.0.0/29", IntervalMs: iv, CancelAfter: -1, MinPasses: 4, FailPass: fp, RandSeed: int64(fp)})
			cases = append(cases, c19case{Subnet: "10.4.0.0/29", IntervalMs: iv, CancelAfter: -1, MinPasses: 4, FailPass: fp, FailForever: true, RandSeed: int64(fp)})
		}
	}
	for i, c := range cases {
		if !run.Mine(i) {
			continue
		}
		run.Case(fmt.Sprintf("live%05d", i), c)
		c19live(run, c)
		run.Eval(1)
		run.Distinct(fmt.Sprintf("%+v", c))
		if run.WantSample() && c.Exclude != "" {
			run.Sample(c)
		}
	}
}

// ---------------------------------------------------------------------------
// wired: the ARP command's own method with --live (and --exclude)

func TestVerifC19Wired(t *testing.T) {
	run := vlab.Begin(t, "C19", "wired")
	defer run.End()
	dir := t.TempDir()
	rng := run.Rand("wired")
	for i := 0; i < run.Pick(32, 200); i++ {
		sn := c01randSubnet(rng, 27+rng.Intn(4))
		cidr, _ := oracle.RefTarget(sn)
		exclude := ""
		if i%2 == 1 {
			exclude = fmt.Sprintf("# keep out\n%s/31\n%s\n", oracle.IPString(oracle.U32ToIP(cidr.Base)), oracle.IPString(oracle.U32ToIP(cidr.Base+uint32(rng.Int63n(int64(cidr.Size()))))))
		}
		intervalMs := []int{10, 40}[rng.Intn(2)]
		c := map[string]interface{}{"subnet": sn, "exclude": exclude, "live_ms": intervalMs}
		if !run.Mine(i) {
			continue
		}
		run.Case(fmt.Sprintf("wired%05d", i), c)
		ex, _ := oracle.RefExcludeFile(exclude)
		exp := map[uint64]int32{}
		oracle.ExpectSubnetPorts(exp, cidr, nil, ex)
		if len(exp) == 0 {
			continue
		}
		ctx, cancel := context.WithCancel(context.Background())
		o := &arpCmdOpts{liveTimeout: time.Duration(intervalMs) * time.Millisecond}
		if exclude != "" {
			o.rawExcludeFile = writeTemp(dir, "ex.txt", exclude)
		}
		if err := o.parseRawOptions(); err != nil {
			cancel()
			run.Violation("spec-rejected", err.Error(), c)
			continue
		}
		dst, _ := ip.ParseIPNet(sn)
		method := o.newARPScanMethod(ctx)
		clock := &rigClock{}
		rw := newRecRW(oracle.LinkEthernet, 1, 0, 0, clock)
		rw.readMode = 1
		logger := &recLogger{clock: clock}
		realL, _ := o.packetScanCmdOpts.getLogger("arp", &recOut{clock: clock})
		logger.inner = realL
		conf := newEngineConfig(withLogger(logger), withScanRange(&scan.Range{DstSubnet: dst, SrcIP: rigSrcIP, SrcMAC: rigSrcMAC}), withExitDelay(20*time.Millisecond))
		const wantPasses = 3
		returned := make(chan struct{})
		go func() {
			_ = startScanEngine(ctx, scan.SetupPacketEngine(rw, method), conf)
			close(returned)
		}()
		deadline := time.After(time.Duration(wantPasses+2)*time.Duration(intervalMs)*time.Millisecond + 20*time.Second)
		endedAlone := false
	wait:
		for {
			select {
			case <-returned:
				endedAlone = true
				break wait
			case <-deadline:
				break wait
			case <-time.After(time.Millisecond):
				if len(rw.snapshot()) >= wantPasses*len(exp) {
					break wait
				}
			}
		}
		run.Eval(1)
		n := len(rw.snapshot())
		if endedAlone {
			run.Violation("live-ended-without-cancel", fmt.Sprintf("arp --live scan returned on its own after %d probes (%d targets per pass): %v", n, len(exp), c), c)
			cancel()
			rw.closeRead()
			continue
		}
		if n < wantPasses*len(exp) {
			run.Violation("passes-stopped", fmt.Sprintf("arp --live: only %d probes (%d per pass) within the observation time, no cancellation: %v", n, len(exp), c), c)
		}
		time.Sleep(time.Duration(intervalMs) * time.Millisecond / 4) // between passes
		cancel()
		select {
		case <-returned:
		case <-time.After(30 * time.Second):
			run.Violation("no-return-after-cancel", fmt.Sprintf("arp --live did not return after cancellation: %v", c), c)
		}
		rw.closeRead()
		got := map[uint64]int32{}
		for _, ev := range rw.snapshot() {
			d := oracle.Decode(ev.data, oracle.LinkEthernet)
			if d.ARP != nil && len(d.ARP.TPA) == 4 {
				var a [4]byte
				copy(a[:], d.ARP.TPA)
				got[oracle.Key(oracle.IPToU32(a), 0)]++
			}
		}
		// whole passes only: every target probed the same number of times (P or, if a pass had just begun, P and P+1 never differ by more than one)
		var lo, hi int32 = 1 << 30, 0
		for k := range exp {
			if got[k] < lo {
				lo = got[k]
			}
			if got[k] > hi {
				hi = got[k]
			}
		}
		for k := range got {
			if _, ok := exp[k]; !ok {
				run.Violation("probe-outside-target", fmt.Sprintf("arp --live probed %s which is excluded or outside %s: %v", oracle.KeyString(k), sn, c), c)
			}
		}
		if hi-lo > 1 || lo < wantPasses {
			run.Violation("pass-incomplete", fmt.Sprintf("arp --live: per-target probe counts range from %d to %d after cancelling between passes (whole passes expected): %v", lo, hi, c), c)
		}
		run.Count("wired_runs", 1)
		run.Count("wired_probes", int64(n))
		run.Distinct(fmt.Sprint(c))
	}
}
