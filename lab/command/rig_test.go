//go:build verif

package command

// Shared boundary recorders for the level-1 monitors that live in package command
// (C01 wiring, C07, C08, C12, C15, C16). Every object here sits at a boundary the
// program already has (RequestGenerator, PacketFiller, packet.ReadWriter, Scanner,
// io.Writer, Logger): delays, faults and cancellations are injected there, between the
// code's own critical sections, never inside them.

import (
	"context"
	"encoding/binary"
	"fmt"
	"io"
	"net"
	"os"
	"runtime"
	"sync"
	"sync/atomic"
	"syscall"
	"time"

	"github.com/google/gopacket"
	"github.com/v-byte-cpu/sx/pkg/scan"
	"verif.local/v/oracle"
)

// rigClock is the one logical clock of a case: every recorded event takes its
// sequence number from it, so all ordering oracles compare numbers, not wall time.
type rigClock struct{ n int64 }

func (c *rigClock) tick() int64 { return atomic.AddInt64(&c.n, 1) }
func (c *rigClock) now() int64  { return atomic.LoadInt64(&c.n) }

// splitmix: per-id deterministic decisions (fail / delay) without shared PRNG state.
func rigHash(seed uint64, id uint32, salt uint64) uint64 {
	z := seed + uint64(id)*0x9e3779b97f4a7c15 + salt*0xbf58476d1ce4e5b9
	z = (z ^ (z >> 30)) * 0xbf58476d1ce4e5b9
	z = (z ^ (z >> 27)) * 0x94d049bb133111eb
	return z ^ (z >> 31)
}

func rigIDToIP(id uint32) net.IP {
	ip := make(net.IP, 4)
	binary.BigEndian.PutUint32(ip, id)
	return ip
}

type rigErr struct {
	kind string
	id   uint32
}

func (e *rigErr) Error() string { return fmt.Sprintf("scripted %s error for request %d", e.kind, e.id) }

// rigTimeoutErr: a write that timed out (net.Error with Timeout() true), one object per failed attempt
type rigTimeoutErr struct{ id uint32 }

func (e *rigTimeoutErr) Error() string   { return fmt.Sprintf("scripted write timeout for request %d", e.id) }
func (e *rigTimeoutErr) Timeout() bool   { return true }
func (e *rigTimeoutErr) Temporary() bool { return true }

// ---------------------------------------------------------------------------
// streamGen: a RequestGenerator that emits n requests with unique ids (the id is the
// destination address, base+1 … base+n) and error requests at the marked positions.

type streamGen struct {
	n        int
	base     uint32
	seed     uint64
	errPermille int // per-mille of positions that are error requests
	burstAt  int    // position where a burst of error requests starts (-1 none)
	burstLen int
	port     uint16
	srcIP    net.IP
	srcMAC   net.HardwareAddr
	chanCap  int
	passes   int32 // how many times GenerateRequests was called

	mu      sync.Mutex
	reqErrs map[uint32]error // id -> the error value sent for it (last pass)
	openErr error
}

func (g *streamGen) isErr(i int) bool {
	if g.burstAt >= 0 && i >= g.burstAt && i < g.burstAt+g.burstLen {
		return true
	}
	return g.errPermille > 0 && int(rigHash(g.seed, uint32(i), 1)%1000) < g.errPermille
}

func (g *streamGen) GenerateRequests(ctx context.Context, r *scan.Range) (<-chan *scan.Request, error) {
	atomic.AddInt32(&g.passes, 1)
	if g.openErr != nil {
		return nil, g.openErr
	}
	out := make(chan *scan.Request, g.chanCap)
	g.mu.Lock()
	if g.reqErrs == nil {
		g.reqErrs = map[uint32]error{}
	}
	g.mu.Unlock()
	go func() {
		defer close(out)
		for i := 1; i <= g.n; i++ {
			id := g.base + uint32(i)
			req := &scan.Request{SrcIP: g.srcIP, SrcMAC: g.srcMAC, DstMAC: net.HardwareAddr{2, 0, 0, 0, 0, 9}, DstIP: rigIDToIP(id), DstPort: g.port}
			if g.isErr(i) {
				e := &rigErr{"request", id}
				g.mu.Lock()
				g.reqErrs[id] = e
				g.mu.Unlock()
				req = &scan.Request{Err: e}
			}
			select {
			case <-ctx.Done():
				return
			case out <- req:
			}
		}
	}()
	return out, nil
}

// ---------------------------------------------------------------------------
// wrapFiller: wraps a real PacketFiller; snapshots what was built, can fail, can delay.

type wrapFiller struct {
	inner       scan.PacketFiller
	seed        uint64
	failPermille int
	delayMode   int // 0 none, 1 Gosched by hash, 2 short sleeps by hash
	clock       *rigClock

	inflight    int32
	maxInflight int32

	mu       sync.Mutex
	built    map[uint32][]byte // id -> bytes as they were when Fill returned
	fillErrs map[uint32]error
	fills    map[uint32]int
}

func newWrapFiller(inner scan.PacketFiller, seed uint64, failPermille, delayMode int, clock *rigClock) *wrapFiller {
	return &wrapFiller{inner: inner, seed: seed, failPermille: failPermille, delayMode: delayMode, clock: clock,
		built: map[uint32][]byte{}, fillErrs: map[uint32]error{}, fills: map[uint32]int{}}
}

func (f *wrapFiller) Fill(buf gopacket.SerializeBuffer, r *scan.Request) error {
	cur := atomic.AddInt32(&f.inflight, 1)
	for {
		m := atomic.LoadInt32(&f.maxInflight)
		if cur <= m || atomic.CompareAndSwapInt32(&f.maxInflight, m, cur) {
			break
		}
	}
	defer atomic.AddInt32(&f.inflight, -1)
	id := uint32(0)
	if ip4 := r.DstIP.To4(); ip4 != nil {
		id = binary.BigEndian.Uint32(ip4)
	}
	h := rigHash(f.seed, id, 2)
	switch f.delayMode {
	case 1:
		if h%3 == 0 {
			runtime.Gosched()
		}
	case 2:
		if h%16 == 0 {
			time.Sleep(time.Duration(h%200) * time.Microsecond)
		}
	}
	f.mu.Lock()
	f.fills[id]++
	f.mu.Unlock()
	if f.failPermille > 0 && int(rigHash(f.seed, id, 3)%1000) < f.failPermille {
		e := &rigErr{"build", id}
		f.mu.Lock()
		f.fillErrs[id] = e
		f.mu.Unlock()
		return e
	}
	if err := f.inner.Fill(buf, r); err != nil {
		f.mu.Lock()
		f.fillErrs[id] = err
		f.mu.Unlock()
		return err
	}
	snap := append([]byte(nil), buf.Bytes()...)
	f.mu.Lock()
	f.built[id] = snap
	f.mu.Unlock()
	return nil
}

// synthFiller builds a variable-length frame that carries the id in an IPv4-looking header
// so that the same id extraction works: Ethernet-less IPv4 + payload of id-dependent length.
type synthFiller struct{ seed uint64 }

func (s *synthFiller) Fill(buf gopacket.SerializeBuffer, r *scan.Request) error {
	ip4 := r.DstIP.To4()
	id := binary.BigEndian.Uint32(ip4)
	n := int(rigHash(s.seed, id, 7) % 1400)
	pl := make([]byte, n)
	for i := range pl {
		pl[i] = byte(rigHash(s.seed, id, uint64(100+i/8)) >> (8 * uint(i%8)))
	}
	var src, dst [4]byte
	copy(src[:], r.SrcIP.To4())
	copy(dst[:], ip4)
	spec := oracle.NewIPSpec(src, dst, 253)
	b := oracle.BuildIPv4(spec, pl)
	out, err := buf.PrependBytes(len(b))
	if err != nil {
		return err
	}
	copy(out, b)
	return nil
}

// ---------------------------------------------------------------------------
// recRW: the wire. WritePacketData copies the bytes at call time, keeps the caller's
// slice and re-reads it when the call returns (a buffer recycled during the write shows
// up as a difference), can fail, can be slow. ReadPacketData blocks until released.

type wireEvent struct {
	seqCall, seqRet int64
	id              uint32
	data            []byte
	err             error
	mutated         bool
}

type recRW struct {
	link        oracle.Link
	seed        uint64
	failPermille int
	delayMode   int // 0 none, 1 Gosched, 2 sleeps
	clock       *rigClock
	onWrite     func(k int) // called inside the k-th write (1-based) before it returns; used to inject cancellation
	readMode    int         // 0: EOF at once; 1: block until closeRead, then EOF
	readCh      chan struct{}
	frames      chan []byte // frames to deliver to the receiver (readMode 2)

	inflight int32
	mu       sync.Mutex
	events   []*wireEvent
	werrs    map[uint32]error
	// tempKinds: failing writes fail the way a real socket does - EAGAIN / ENOBUFS (transmit queue full) /
	// timeout for the first 1..5 attempts on that frame, or permanently; one error object per failed attempt
	tempKinds bool
	attempts  map[uint32]int
	attErrs   map[error]uint32
	bareIDs   map[uint32]bool // frames whose writes fail with the bare (comparable) errno
	nwrites  int32
	reads    int32
}

func newRecRW(link oracle.Link, seed uint64, failPermille, delayMode int, clock *rigClock) *recRW {
	return &recRW{link: link, seed: seed, failPermille: failPermille, delayMode: delayMode, clock: clock,
		werrs: map[uint32]error{}, attempts: map[uint32]int{}, attErrs: map[error]uint32{}, bareIDs: map[uint32]bool{}, readCh: make(chan struct{})}
}

// frameID extracts the request id (destination address) from a probe frame.
func frameID(link oracle.Link, b []byte) (uint32, bool) {
	d := oracle.Decode(b, link)
	if d.ARP != nil && len(d.ARP.TPA) == 4 {
		return binary.BigEndian.Uint32(d.ARP.TPA), true
	}
	if d.IP != nil {
		return oracle.IPToU32(d.IP.Dst), true
	}
	return 0, false
}

func (w *recRW) WritePacketData(pkt []byte) error {
	ev := &wireEvent{seqCall: w.clock.tick()}
	ev.data = append([]byte(nil), pkt...)
	atomic.AddInt32(&w.inflight, 1)
	k := int(atomic.AddInt32(&w.nwrites, 1))
	id, _ := frameID(w.link, ev.data)
	ev.id = id
	h := rigHash(w.seed, id, 4)
	switch w.delayMode {
	case 1:
		runtime.Gosched()
	case 2:
		if h%8 == 0 {
			time.Sleep(time.Duration(h%300) * time.Microsecond)
		} else {
			runtime.Gosched()
		}
	}
	if w.onWrite != nil {
		w.onWrite(k)
	}
	if w.failPermille > 0 && int(rigHash(w.seed, id, 5)%1000) < w.failPermille {
		ev.err = &rigErr{"write", id}
		if w.tempKinds {
			w.mu.Lock()
			w.attempts[id]++
			att := w.attempts[id]
			w.mu.Unlock()
			h6 := rigHash(w.seed, id, 6)
			if kind := h6 % 5; kind != 0 {
				if kind == 4 {
					w.mu.Lock()
					w.bareIDs[id] = true
					w.mu.Unlock()
				}
				if att > 1+int(h6/5%5) {
					ev.err = nil
				} else {
					switch kind {
					case 1:
						ev.err = &os.SyscallError{Syscall: "sendto", Err: syscall.EAGAIN}
					case 2:
						ev.err = &rigTimeoutErr{id}
					case 3:
						ev.err = &os.SyscallError{Syscall: "sendto", Err: syscall.ENOBUFS}
					case 4:
						// the bare errno, as a raw sendto returns it: the same value for every frame that fails this way
						ev.err = syscall.ENOBUFS
					}
				}
			}
		}
	}
	// the caller's buffer must not have changed while the write was in progress
	if len(pkt) != len(ev.data) {
		ev.mutated = true
	} else {
		for i := range pkt {
			if pkt[i] != ev.data[i] {
				ev.mutated = true
				break
			}
		}
	}
	atomic.AddInt32(&w.inflight, -1)
	w.mu.Lock()
	if ev.err != nil {
		w.werrs[id] = ev.err
		if ev.err != error(syscall.ENOBUFS) {
			w.attErrs[ev.err] = id
		}
	}
	ev.seqRet = w.clock.tick()
	w.events = append(w.events, ev)
	w.mu.Unlock()
	return ev.err
}

func (w *recRW) ReadPacketData() ([]byte, *gopacket.CaptureInfo, error) {
	atomic.AddInt32(&w.reads, 1)
	switch w.readMode {
	case 1:
		<-w.readCh
		return nil, nil, io.EOF
	case 2:
		select {
		case f, ok := <-w.frames:
			if !ok {
				return nil, nil, io.EOF
			}
			return f, &gopacket.CaptureInfo{CaptureLength: len(f), Length: len(f)}, nil
		case <-w.readCh:
			return nil, nil, io.EOF
		}
	}
	return nil, nil, io.EOF
}

func (w *recRW) closeRead() {
	defer func() { recover() }()
	close(w.readCh)
}

func (w *recRW) snapshot() []*wireEvent {
	w.mu.Lock()
	defer w.mu.Unlock()
	return append([]*wireEvent(nil), w.events...)
}

type nopProcessor struct{}

func (nopProcessor) ProcessPacketData([]byte, *gopacket.CaptureInfo) error { return nil }

// countingLimiter records Take calls on the logical clock.
type countingLimiter struct {
	clock *rigClock
	mu    sync.Mutex
	takes []int64
}

func (l *countingLimiter) Take() time.Time {
	s := l.clock.tick()
	l.mu.Lock()
	l.takes = append(l.takes, s)
	l.mu.Unlock()
	return time.Time{}
}

// ---------------------------------------------------------------------------
// Generic (application) engine side: scanner, results, output writer, logger, engine spy.

type rigResult struct {
	id uint32
}

func (r *rigResult) String() string { return fmt.Sprintf("result %d", r.id) }
func (r *rigResult) ID() string     { return fmt.Sprintf("%d", r.id) }
func (r *rigResult) MarshalJSON() ([]byte, error) {
	return []byte(fmt.Sprintf(`{"scan":"rig","id":%d,"pad":"%s"}`, r.id, "xxxxxxxxxxxxxxxxxxxxxxxxxxxxxxxx"[:r.id%32])), nil
}

const (
	outNegative = 0
	outPositive = 1
	outError    = 2
)

// recScanner: outcome and latency of a probe are functions of (seed, id).
type recScanner struct {
	seed        uint64
	posPermille int
	errPermille int
	maxLatency  time.Duration
	clock       *rigClock
	onStart     func(k int, ctx context.Context) // inside the k-th probe (1-based), before the latency
	onEnd       func(k int)                      // inside the k-th probe to finish, before it returns
	honourCtx   bool                             // return early with ctx.Err() when cancelled during the latency

	inflight    int32
	maxInflight int32
	nstart      int32
	nend        int32

	mu       sync.Mutex
	calls    map[uint32]int
	calls64  map[uint64]int // keyed by address<<16|port
	outcome  map[uint32]int
	errs     map[uint32]error
	allErrs  []error // every error value returned, in order
	startSeq []int64
	endSeq   []int64
	startT   []time.Time
}

func newRecScanner(seed uint64, posPermille, errPermille int, maxLatency time.Duration, clock *rigClock) *recScanner {
	return &recScanner{seed: seed, posPermille: posPermille, errPermille: errPermille, maxLatency: maxLatency, clock: clock,
		calls: map[uint32]int{}, calls64: map[uint64]int{}, outcome: map[uint32]int{}, errs: map[uint32]error{}}
}

func (s *recScanner) decide(id uint32) int {
	h := int(rigHash(s.seed, id, 11) % 1000)
	switch {
	case h < s.posPermille:
		return outPositive
	case h < s.posPermille+s.errPermille:
		return outError
	}
	return outNegative
}

func (s *recScanner) Scan(ctx context.Context, r *scan.Request) (scan.Result, error) {
	cur := atomic.AddInt32(&s.inflight, 1)
	for {
		m := atomic.LoadInt32(&s.maxInflight)
		if cur <= m || atomic.CompareAndSwapInt32(&s.maxInflight, m, cur) {
			break
		}
	}
	k := int(atomic.AddInt32(&s.nstart, 1))
	id := uint32(0)
	if ip4 := r.DstIP.To4(); ip4 != nil {
		id = binary.BigEndian.Uint32(ip4)
	}
	now := time.Now()
	s.mu.Lock()
	s.calls[id]++
	s.calls64[uint64(id)<<16|uint64(r.DstPort)]++
	s.startSeq = append(s.startSeq, s.clock.tick())
	s.startT = append(s.startT, now)
	s.mu.Unlock()
	if s.onStart != nil {
		s.onStart(k, ctx)
	}
	if s.maxLatency > 0 {
		d := time.Duration(rigHash(s.seed, id, 12) % uint64(s.maxLatency))
		if rigHash(s.seed, id, 13)%4 == 0 {
			d = 0
			runtime.Gosched()
		}
		if d > 0 {
			if s.honourCtx {
				select {
				case <-ctx.Done():
				case <-time.After(d):
				}
			} else {
				time.Sleep(d)
			}
		}
	}
	out := s.decide(id)
	var res scan.Result
	var err error
	switch out {
	case outPositive:
		res = &rigResult{id: id}
	case outError:
		err = rigProbeError(s.seed, id)
	}
	ke := int(atomic.AddInt32(&s.nend, 1))
	if s.onEnd != nil {
		s.onEnd(ke)
	}
	s.mu.Lock()
	s.outcome[id] = out
	if err != nil {
		s.errs[id] = err
		s.allErrs = append(s.allErrs, err)
	}
	s.endSeq = append(s.endSeq, s.clock.tick())
	s.mu.Unlock()
	atomic.AddInt32(&s.inflight, -1)
	return res, err
}

// rigProbeError: the kinds of error real scanners return for a failed probe (each value has its own
// identity): plain, per-probe timeout (wraps context.DeadlineExceeded like net timeouts do),
// a cancelled per-probe sub-context, refused connection, EOF, empty message.
func rigProbeError(seed uint64, id uint32) error {
	switch rigHash(seed, id, 31) % 7 {
	case 0:
		return fmt.Errorf("probe %d: dial tcp: i/o timeout: %w", id, context.DeadlineExceeded)
	case 1:
		return &net.OpError{Op: "dial", Net: "tcp", Err: fmt.Errorf("probe %d: %w", id, context.DeadlineExceeded)}
	case 2:
		return fmt.Errorf("probe %d: request aborted: %w", id, context.Canceled)
	case 3:
		return &net.OpError{Op: "dial", Net: "tcp", Err: fmt.Errorf("probe %d: %w", id, syscall.ECONNREFUSED)}
	case 4:
		return fmt.Errorf("probe %d: %w", id, io.ErrUnexpectedEOF)
	case 5:
		return &rigErr{"", id}
	}
	return &rigErr{"probe", id}
}

// recOut records every Write call separately (merge/split detection).
type recOut struct {
	clock   *rigClock
	delay   time.Duration
	stallAt  int           // the stallAt-th write (1-based) blocks for stallFor: a momentary stall of stdout
	stallFor time.Duration
	onWrite func(k int)
	inflight int32 // Write calls in progress (a process that exits now leaves their record cut short)
	mu      sync.Mutex
	writes  [][]byte
	seqs    []int64
}

func (o *recOut) Write(p []byte) (int, error) {
	atomic.AddInt32(&o.inflight, 1)
	defer atomic.AddInt32(&o.inflight, -1)
	cp := append([]byte(nil), p...)
	if o.delay > 0 {
		time.Sleep(o.delay)
	}
	o.mu.Lock()
	if o.stallAt > 0 && len(o.writes)+1 == o.stallAt {
		o.mu.Unlock()
		time.Sleep(o.stallFor)
		o.mu.Lock()
	}
	o.writes = append(o.writes, cp)
	o.seqs = append(o.seqs, o.clock.tick())
	k := len(o.writes)
	o.mu.Unlock()
	if o.onWrite != nil {
		o.onWrite(k)
	}
	return len(p), nil
}

func (o *recOut) snapshot() [][]byte {
	o.mu.Lock()
	defer o.mu.Unlock()
	return append([][]byte(nil), o.writes...)
}

// recLogger delegates result logging to the real logger and records Error calls.
type recLogger struct {
	inner interface {
		LogResults(ctx context.Context, results <-chan scan.Result)
	}
	clock   *rigClock
	onError func(k int)
	slowErr time.Duration // the error sink (stderr) is slow
	mu      sync.Mutex
	errs    []error
}

func (l *recLogger) Error(err error) {
	if l.slowErr > 0 {
		time.Sleep(l.slowErr)
	}
	l.mu.Lock()
	l.errs = append(l.errs, err)
	k := len(l.errs)
	l.mu.Unlock()
	l.clock.tick()
	if l.onError != nil {
		l.onError(k)
	}
}

func (l *recLogger) LogResults(ctx context.Context, results <-chan scan.Result) {
	l.inner.LogResults(ctx, results)
}

func (l *recLogger) snapshot() []error {
	l.mu.Lock()
	defer l.mu.Unlock()
	return append([]error(nil), l.errs...)
}

// engineSpy tees the completion signal so that the monitor sees when the engine
// declared completion (startScanEngine keeps that channel to itself).
type engineSpy struct {
	scan.EngineResulter
	clock      *rigClock
	probe      func() int32 // in-flight probes/writes at the moment completion is observed
	doneSeq    int64
	doneT      time.Time
	inflightAt int32
	started    int32
	sig        chan struct{}
}

func newEngineSpy(e scan.EngineResulter, clock *rigClock, probe func() int32) *engineSpy {
	return &engineSpy{EngineResulter: e, clock: clock, probe: probe, sig: make(chan struct{})}
}

func (e *engineSpy) Start(ctx context.Context, r *scan.Range) (<-chan interface{}, <-chan error) {
	atomic.AddInt32(&e.started, 1)
	done, errc := e.EngineResulter.Start(ctx, r)
	out := make(chan interface{})
	go func() {
		<-done
		if e.probe != nil {
			e.inflightAt = e.probe()
		}
		e.doneT = time.Now()
		atomic.StoreInt64(&e.doneSeq, e.clock.tick())
		close(e.sig)
		close(out)
	}()
	return out, errc
}

// healthTicker measures the scheduling latency the monitor itself suffers.
type healthTicker struct {
	stop    chan struct{}
	done    chan struct{}
	maxOver time.Duration
}

func startHealth() *healthTicker {
	h := &healthTicker{stop: make(chan struct{}), done: make(chan struct{})}
	go func() {
		defer close(h.done)
		last := time.Now()
		for {
			select {
			case <-h.stop:
				return
			default:
			}
			time.Sleep(time.Millisecond)
			now := time.Now()
			if over := now.Sub(last) - time.Millisecond; over > h.maxOver {
				h.maxOver = over
			}
			last = now
		}
	}()
	return h
}

func (h *healthTicker) end() time.Duration {
	close(h.stop)
	<-h.done
	return h.maxOver
}
