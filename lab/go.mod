// Nested module marker: keeps the lab files (which are in-package tests of
// github.com/v-byte-cpu/sx, copied into a scratch copy of /repo by the driver)
// out of the verif.local/v module.
module verif.local/lab

go 1.19
