//go:build verif

package packet

// C20 — the receiver survives every sequence of read faults as specified.
//
// The real NewReceiver(...).ReceivePackets loop is driven by a scripted Reader whose
// outcomes are enumerated (all sequences up to a length bound over the fault alphabet,
// then long random ones); a recording Processor and an error-stream consumer produce the
// event log; the oracle is the reference state machine written out in c20expect.

import (
	"context"
	"errors"
	"fmt"
	"io"
	"net"
	"os"
	"strings"
	"sync"
	"sync/atomic"
	"syscall"
	"testing"
	"time"

	"github.com/google/gopacket"
	"verif.local/v/vlab"
)

type c20kind byte

const (
	c20F  c20kind = 'F' // frame, processed fine
	c20E  c20kind = 'E' // frame whose processing fails
	c20A  c20kind = 'A' // EAGAIN
	c20T  c20kind = 'T' // net.Error with Timeout()
	c20R  c20kind = 'R' // bare ECONNRESET
	c20O  c20kind = 'O' // ECONNRESET wrapped in net.OpError{os.SyscallError}
	c20U  c20kind = 'U' // unknown error
	c20I  c20kind = 'I' // bare EINTR: not one of the transient kinds, so an unknown failure (reported, reading goes on)
	c20J  c20kind = 'J' // bare EMFILE: likewise
	c20X  c20kind = 'X' // io.EOF
	c20B  c20kind = 'B' // EBADF
	c20C  c20kind = 'C' // "use of closed file"
	c20W  c20kind = 'W' // wrapped EAGAIN (os.SyscallError)
	c20P  c20kind = 'P' // io.ErrClosedPipe
	c20M  c20kind = 'M' // bare ETIMEDOUT (a syscall.Errno is a net.Error whose Timeout() is true): a timeout, transient
	c20N  c20kind = 'N' // ETIMEDOUT wrapped in net.OpError{os.SyscallError}: a timeout, transient
)

var c20alphabet = []c20kind{c20F, c20E, c20A, c20T, c20R, c20O, c20U, c20X, c20B, c20C}
var c20alphabetLong = []c20kind{c20F, c20F, c20F, c20E, c20A, c20T, c20R, c20O, c20U, c20W, c20M, c20N, c20I, c20J}

func (k c20kind) terminal() bool { return k == c20X || k == c20B || k == c20C || k == c20P }
func (k c20kind) frame() bool    { return k == c20F || k == c20E }

type c20timeoutErr struct{}

func (c20timeoutErr) Error() string   { return "i/o timeout (scripted)" }
func (c20timeoutErr) Timeout() bool   { return true }
func (c20timeoutErr) Temporary() bool { return true }

var _ net.Error = c20timeoutErr{}

// c20procError: processing errors of the kinds decoders and result sinks really return; each value
// has its own identity. Whatever its kind, a processing error is reported once and never stops the loop
// (it says something about one frame, not about the socket).
type c20procTimeout struct{ i int }

func (e *c20procTimeout) Error() string   { return fmt.Sprintf("scripted processing timeout #%d", e.i) }
func (e *c20procTimeout) Timeout() bool   { return true }
func (e *c20procTimeout) Temporary() bool { return true }

func c20procError(i int) error {
	switch i % 8 {
	case 1:
		return fmt.Errorf("scripted processing error #%d: %w", i, io.ErrUnexpectedEOF)
	case 2:
		return fmt.Errorf("scripted processing error #%d: %w", i, io.EOF)
	case 3:
		return &net.OpError{Op: "process", Err: os.NewSyscallError(fmt.Sprintf("scripted#%d", i), syscall.EBADF)}
	case 4:
		return &net.OpError{Op: "process", Err: os.NewSyscallError(fmt.Sprintf("scripted#%d", i), syscall.EAGAIN)}
	case 5:
		return &net.OpError{Op: "process", Err: os.NewSyscallError(fmt.Sprintf("scripted#%d", i), syscall.ECONNRESET)}
	case 6:
		return &c20procTimeout{i}
	case 7:
		return fmt.Errorf("scripted processing error #%d: %w", i, os.ErrClosed)
	}
	return fmt.Errorf("scripted processing error #%d", i)
}

type c20script struct {
	same bool // every frame has the same bytes and an equal capture info (a keep-alive repeated on the wire, a capture clock with coarse resolution): still one frame each
	syms     string
	cancelAt int // reader call index at which the context is cancelled (-1: never)
	slow     bool
}

type c20reader struct {
	sc      *c20script
	calls   int32
	cancel  context.CancelFunc
	frames  [][]byte
	ciIdx   map[*gopacket.CaptureInfo]int
	empty   int
	identical int
	sameText int
	cis     []*gopacket.CaptureInfo
	unknown []error
	cancelledAtCall int32
}

func (r *c20reader) ReadPacketData() ([]byte, *gopacket.CaptureInfo, error) {
	i := int(atomic.AddInt32(&r.calls, 1) - 1)
	if i == r.sc.cancelAt {
		r.cancel()
	}
	if i >= len(r.sc.syms) {
		return nil, nil, io.EOF
	}
	switch c20kind(r.sc.syms[i]) {
	case c20F, c20E:
		return r.frames[i], r.cis[i], nil
	case c20A:
		return nil, nil, syscall.EAGAIN
	case c20W:
		return nil, nil, os.NewSyscallError("recvfrom", syscall.EAGAIN)
	case c20T:
		return nil, nil, c20timeoutErr{}
	case c20M:
		return nil, nil, syscall.ETIMEDOUT
	case c20N:
		return nil, nil, &net.OpError{Op: "read", Net: "packet", Err: os.NewSyscallError("recvfrom", syscall.ETIMEDOUT)}
	case c20R:
		return nil, nil, syscall.ECONNRESET
	case c20O:
		return nil, nil, &net.OpError{Op: "read", Net: "packet", Err: os.NewSyscallError("recvfrom", syscall.ECONNRESET)}
	case c20U:
		return nil, nil, r.unknown[i]
	case c20I:
		return nil, nil, syscall.EINTR
	case c20J:
		return nil, nil, syscall.EMFILE
	case c20X:
		return nil, nil, io.EOF
	case c20B:
		return nil, nil, syscall.EBADF
	case c20C:
		return nil, nil, errors.New("read packet: use of closed file")
	case c20P:
		return nil, nil, io.ErrClosedPipe
	}
	panic("bad symbol")
}

type c20proc struct {
	mu      sync.Mutex
	sc      *c20script
	rd      *c20reader
	seen    []int // script index of each processed frame, in processing order
	bad     []string
	procErr []error
}

func (p *c20proc) ProcessPacketData(data []byte, ci *gopacket.CaptureInfo) error {
	p.mu.Lock()
	defer p.mu.Unlock()
	// the capture info object identifies the read (frames may be empty, so their bytes cannot)
	idx, ok := p.rd.ciIdx[ci]
	if !ok || !c20kind(p.sc.syms[idx]).frame() {
		p.bad = append(p.bad, fmt.Sprintf("processor got a capture info of no scripted frame (data %x)", data))
		return nil
	}
	if string(data) != string(p.rd.frames[idx]) {
		p.bad = append(p.bad, fmt.Sprintf("frame %d delivered with bytes that are not its own: %x instead of %x", idx, data, p.rd.frames[idx]))
	}
	p.seen = append(p.seen, idx)
	if c20kind(p.sc.syms[idx]) == c20E {
		return p.procErr[idx]
	}
	return nil
}

// c20run executes one script against the real receiver and applies the oracle.
func c20run(run *vlab.Run, sc c20script) {
	n := len(sc.syms)
	ctx, cancel := context.WithCancel(context.Background())
	defer cancel()
	rd := &c20reader{sc: &sc, cancel: cancel, ciIdx: map[*gopacket.CaptureInfo]int{}, frames: make([][]byte, n), cis: make([]*gopacket.CaptureInfo, n), unknown: make([]error, n)}
	pr := &c20proc{sc: &sc, rd: rd, procErr: make([]error, n)}
	for i := 0; i < n; i++ {
		switch c20kind(sc.syms[i]) {
		case c20F, c20E:
			// frames of every size a read can return, the empty one included
			switch flen := []int{8, 0, -1, 1, 60, 1514, 8, 8}[(i*7+len(sc.syms))%8]; {
			case flen < 0:
				rd.frames[i] = nil
			default:
				rd.frames[i] = make([]byte, flen)
				for j := range rd.frames[i] {
					rd.frames[i][j] = byte(i>>uint(8*(j%4))) ^ byte(j)
				}
			}
			if len(rd.frames[i]) == 0 {
				rd.empty++
			}
			rd.cis[i] = &gopacket.CaptureInfo{Length: i, CaptureLength: len(rd.frames[i])}
			if sc.same {
				rd.frames[i] = []byte{0xde, 0xad, 0xbe, 0xef}
				rd.cis[i] = &gopacket.CaptureInfo{Timestamp: time.Unix(1700000000, 0), Length: 4, CaptureLength: 4}
				rd.identical++
			}
			rd.ciIdx[rd.cis[i]] = i
			pr.procErr[i] = c20procError(i)
		case c20U:
			// one error object per failed read; in every other script all of them carry the same text
			// (a socket that keeps failing the same way, e.g. ENETDOWN while the link is down)
			if n%2 == 0 {
				rd.unknown[i] = errors.New("recvfrom: network is down")
				rd.sameText++
			} else {
				rd.unknown[i] = fmt.Errorf("scripted unknown read error #%d", i)
			}
		}
	}
	desc := func() string {
		s := sc.syms
		if len(s) > 120 {
			s = s[:120] + fmt.Sprintf("…(%d)", len(sc.syms))
		}
		return fmt.Sprintf("script=%q cancel_at_read=%d slow_consumer=%v identical_frames=%v", s, sc.cancelAt, sc.slow, sc.same)
	}
	var got []error
	closed := false
	dump, finished, parked := run.Watch(30*time.Second, "sx/pkg/packet.(*receiver)", func() {
		errc := NewReceiver(rd, pr).ReceivePackets(ctx)
		for e := range errc {
			got = append(got, e)
			if sc.slow {
				time.Sleep(200 * time.Microsecond)
			}
		}
		closed = true
	})
	run.Eval(1)
	if !finished {
		if parked {
			run.Violation("not-ended", "error stream never closed / receiver parked: "+desc(), map[string]interface{}{"script": sc, "stacks": dump})
		} else {
			run.Inconclusive("receiver still running after 30s but not parked: " + desc())
		}
		return
	}
	_ = closed
	calls := int(atomic.LoadInt32(&rd.calls))

	// ---- reference state machine
	firstTerm := n // index of the read that ends the loop (n = the implicit EOF after the script)
	for i := 0; i < n; i++ {
		if c20kind(sc.syms[i]).terminal() {
			firstTerm = i
			break
		}
	}
	w := map[string]interface{}{"script": sc.syms, "cancel_at_read": sc.cancelAt, "reader_calls": calls, "processed": pr.seen, "errors": fmt.Sprint(got)}
	if len(sc.syms) > 300 {
		w["script"] = sc.syms[:300] + "…"
	}
	for _, b := range pr.bad {
		run.Violation("processor-input", b+": "+desc(), w)
	}
	certainEnd := firstTerm // reads [0,certainEnd) certainly happen and are certainly handled
	maxCalls := firstTerm + 1
	minCalls := firstTerm + 1
	if sc.cancelAt >= 0 && sc.cancelAt <= firstTerm {
		certainEnd = sc.cancelAt
		minCalls = sc.cancelAt + 1
		maxCalls = sc.cancelAt + 2 // one extra read after cancel is tolerated
		if maxCalls > firstTerm+1 {
			maxCalls = firstTerm + 1
		}
	}
	if calls < minCalls {
		why := "reading stopped early"
		if calls-1 >= 0 && calls-1 < n {
			k := c20kind(sc.syms[calls-1])
			switch {
			case k == c20U || k == c20I || k == c20J:
				why = "an unknown read error stopped the receiver"
			case k == c20E:
				why = "a processing error stopped the receiver"
			case k == c20A || k == c20T || k == c20R || k == c20O || k == c20W || k == c20M || k == c20N:
				why = "a transient read error stopped the receiver"
			}
			run.Violation("stopped-early:"+string(k), fmt.Sprintf("%s after read #%d (%c); %d reads expected: %s", why, calls-1, k, minCalls, desc()), w)
		} else {
			run.Violation("stopped-early", fmt.Sprintf("%s: %d reads, %d expected: %s", why, calls, minCalls, desc()), w)
		}
	}
	if calls > maxCalls {
		key := "read-after-end"
		if sc.cancelAt >= 0 && sc.cancelAt <= firstTerm {
			key = "read-after-cancel"
		} else if firstTerm < n {
			key = "read-after-unrecoverable:" + string(sc.syms[firstTerm])
		}
		run.Violation(key, fmt.Sprintf("reader called %d times, at most %d allowed: %s", calls, maxCalls, desc()), w)
	}
	// frames: those in [0,certainEnd) exactly once in order; later ones (returned at/after cancel) at most once, in order
	var expCertain []int
	for i := 0; i < certainEnd && i < n; i++ {
		if c20kind(sc.syms[i]).frame() {
			expCertain = append(expCertain, i)
		}
	}
	okOrder := true
	for i := 1; i < len(pr.seen); i++ {
		if pr.seen[i] <= pr.seen[i-1] {
			okOrder = false
			if pr.seen[i] == pr.seen[i-1] {
				run.Violation("frame-processed-twice", fmt.Sprintf("frame of read #%d processed twice: %s", pr.seen[i], desc()), w)
			} else {
				run.Violation("frame-order", fmt.Sprintf("frame of read #%d processed after frame of read #%d: %s", pr.seen[i], pr.seen[i-1], desc()), w)
			}
			break
		}
	}
	if okOrder {
		j := 0
		for _, idx := range pr.seen {
			if j < len(expCertain) && idx == expCertain[j] {
				j++
			} else if idx < certainEnd {
				run.Violation("frame-unexpected", fmt.Sprintf("unexpected processing of read #%d: %s", idx, desc()), w)
			} else if idx > firstTerm {
				run.Violation("frame-after-end", fmt.Sprintf("frame of read #%d processed after the receiver should have ended: %s", idx, desc()), w)
			}
		}
		if j < len(expCertain) && calls >= minCalls {
			run.Violation("frame-lost", fmt.Sprintf("frame of read #%d was read successfully but never processed: %s", expCertain[j], desc()), w)
		}
	}
	// errors: multiset
	gotSet := map[error]int{}
	for _, e := range got {
		gotSet[e]++
	}
	// unknown failures that are plain errno values (the same value every time): counted
	for _, bk := range []struct {
		k   c20kind
		val error
	}{{c20I, syscall.EINTR}, {c20J, syscall.EMFILE}} {
		certain, total := 0, 0
		for i := 0; i < n && i <= firstTerm; i++ {
			if c20kind(sc.syms[i]) == bk.k {
				total++
				if i < certainEnd {
					certain++
				}
			}
		}
		c := gotSet[bk.val]
		delete(gotSet, bk.val)
		if c < certain && calls >= minCalls {
			run.Violation("error-lost:"+string(bk.k), fmt.Sprintf("%d reads failed with %v (not a transient kind: an unknown failure, reported once each), %d reports: %s", certain, bk.val, c, desc()), w)
		}
		if c > total {
			run.Violation("error-duplicated:"+string(bk.k), fmt.Sprintf("%d reads failed with %v, %d reports: %s", total, bk.val, c, desc()), w)
		}
	}
	for i := 0; i < n && i <= firstTerm; i++ {
		var exp error
		k := c20kind(sc.syms[i])
		switch k {
		case c20U:
			exp = rd.unknown[i]
		case c20E:
			exp = pr.procErr[i]
		default:
			continue
		}
		c := gotSet[exp]
		delete(gotSet, exp)
		certain := i < certainEnd
		if c > 1 {
			run.Violation("error-duplicated:"+string(k), fmt.Sprintf("error of read #%d reported %d times: %s", i, c, desc()), w)
		}
		if c == 0 && certain && calls >= minCalls {
			run.Violation("error-lost:"+string(k), fmt.Sprintf("error of read #%d (%c) never reported: %s", i, k, desc()), w)
		}
	}
	for e, c := range gotSet {
		key := "error-spurious"
		s := e.Error()
		switch {
		case errors.Is(e, syscall.EAGAIN), errors.Is(e, syscall.ECONNRESET), strings.Contains(s, "timeout"):
			key = "transient-reported"
		case e == io.EOF || e == syscall.EBADF || strings.Contains(s, "closed"):
			key = "terminal-reported"
		}
		run.Violation(key, fmt.Sprintf("error %q reported %d time(s) but no scripted outcome calls for it: %s", s, c, desc()), w)
	}
	run.Count("reads", int64(calls))
	run.Count("frames_processed", int64(len(pr.seen)))
	run.Count("empty_frames_scripted", int64(rd.empty))
	run.Count("identical_frames_scripted", int64(rd.identical))
	run.Count("unknown_errors_with_identical_text", int64(rd.sameText))
	run.Count("errors_reported", int64(len(got)))
	if sc.cancelAt >= 0 {
		run.Count("cancellations", 1)
	}
}

func TestVerifC20(t *testing.T) {
	run := vlab.Begin(t, "C20", "faultseq")
	defer run.End()

	var scripts []c20script
	// ---- exhaustive: all sequences up to length L in which a terminal outcome, if any, is last
	L := run.Pick(4, 5)
	var gen func(prefix []byte)
	gen = func(prefix []byte) {
		if len(prefix) > 0 {
			scripts = append(scripts, c20script{syms: string(prefix), cancelAt: -1})
		}
		if len(prefix) == L || (len(prefix) > 0 && c20kind(prefix[len(prefix)-1]).terminal()) {
			return
		}
		for _, k := range c20alphabet {
			gen(append(append([]byte{}, prefix...), byte(k)))
		}
	}
	gen(nil)
	nExh := len(scripts)
	// ---- cancellation at every reader call index of every sequence up to length Lc
	Lc := run.Pick(3, 4)
	for _, s := range scripts[:nExh] {
		if len(s.syms) > Lc {
			continue
		}
		for k := 0; k <= len(s.syms); k++ {
			scripts = append(scripts, c20script{syms: s.syms, cancelAt: k})
		}
	}
	nCancel := len(scripts) - nExh
	// ---- extra terminal kinds and wrapped transient
	for _, s := range []string{"IF", "FIFJF", "IIJJFX", "FIEJUFX", "AIF", "P", "FP", "WF", "WWEUFX", "FWB", "UUP", "MF", "NF", "FMNEUFX", "MMMNNNF", "MNUF", "EMF"} {
		scripts = append(scripts, c20script{syms: s, cancelAt: -1})
	}
	// ---- long random sequences with bursts of unknown/processing errors > 100 (the error channel's buffer)
	rng := run.Rand("long")
	quietRuns := 0
	// identical frames (same bytes, equal capture info), back to back and with faults between them
	for _, sy := range []string{"FF", "FFF", "FAF", "FTFRF", "FEFE", "EE", "FUFX", "FFFFFFFFFFX", "FMFNFOF", "EAEUE"} {
		scripts = append(scripts, c20script{syms: sy, cancelAt: -1, same: true})
	}
	// two fixed ones so that every run has them
	scripts = append(scripts, c20script{syms: "F" + strings.Repeat("A", 150) + "FEF" + strings.Repeat("T", 101) + "FX", cancelAt: -1})
	scripts = append(scripts, c20script{syms: strings.Repeat("AROTMN", 40) + "FUFX", cancelAt: -1})
	for i := 0; i < run.Pick(40, 400); i++ {
		ln := 50 + rng.Intn(run.Pick(600, 2000))
		b := make([]byte, 0, ln+300)
		for len(b) < ln {
			if rng.Intn(60) == 0 {
				// a long quiet spell on the wire: more than 100 transient failures in a row (would-block, timeouts,
				// resets, in any mix), then traffic again
				quiet := []c20kind{c20A, c20T, c20R, c20O, c20M, c20N}
				for j, n := 0, 101+rng.Intn(120); j < n; j++ {
					b = append(b, byte(quiet[rng.Intn(len(quiet))]))
				}
				b = append(b, byte(c20F), byte(c20F))
				quietRuns++
				continue
			}
			if rng.Intn(40) == 0 {
				burst := 101 + rng.Intn(60)
				k := c20U
				if rng.Intn(2) == 0 {
					k = c20E
				}
				for j := 0; j < burst; j++ {
					b = append(b, byte(k))
				}
				continue
			}
			b = append(b, byte(c20alphabetLong[rng.Intn(len(c20alphabetLong))]))
		}
		sc := c20script{syms: string(b), cancelAt: -1, slow: rng.Intn(3) == 0}
		if rng.Intn(3) == 0 {
			sc.cancelAt = rng.Intn(len(b))
		}
		if rng.Intn(4) == 0 {
			term := []c20kind{c20X, c20B, c20C}[rng.Intn(3)]
			p := rng.Intn(len(b))
			b[p] = byte(term)
			sc.syms = string(b)
		}
		scripts = append(scripts, sc)
	}
	run.Count("scripts_with_more_than_100_transient_failures_in_a_row", int64(quietRuns+2))
	run.Note("scripts: %d exhaustive (length<=%d, alphabet %d), %d with cancellation at every read index (length<=%d), %d long random", nExh, L, len(c20alphabet), nCancel, Lc, len(scripts)-nExh-nCancel-6)

	// run concurrently: unknown errors cost a 5 ms back-off each inside the receiver
	work := make(chan c20script, 64)
	var wg sync.WaitGroup
	for g := 0; g < 48; g++ {
		wg.Add(1)
		go func() {
			defer wg.Done()
			for sc := range work {
				c20run(run, sc)
				nontrivial := len(sc.syms) >= 2 && strings.ContainsAny(sc.syms, "EATROUXBCWP")
				if nontrivial {
					run.Distinct(fmt.Sprintf("%s/%d/%v", sc.syms, sc.cancelAt, sc.slow))
				}
				if run.WantSample() && len(sc.syms) >= 4 && len(sc.syms) < 40 && strings.ContainsAny(sc.syms, "U") && strings.ContainsAny(sc.syms, "E") {
					run.Sample(map[string]interface{}{"script": sc.syms, "cancel_at_read": sc.cancelAt, "legend": "F frame, E frame+processor error, A EAGAIN, T timeout, R/O ECONNRESET bare/wrapped, U unknown, X EOF, B EBADF, C closed file"})
				}
			}
		}()
	}
	for i, sc := range scripts {
		if run.Mine(i) {
			work <- sc
		}
	}
	close(work)
	wg.Wait()
}
