//go:build verif

package scan

// C04 — randomised iteration is a permutation for every range size up to 2^32.
//
// Monitors:
//  1. live-table invariant over the 32 rows of cyclicGroups the running code uses
//  2. bitmap oracle over real iterations (Int()/Next() exactly as the generators use them)
//  3. rejection of sizes outside 1..2^32+60

import (
	"context"
	"fmt"
	"math/big"
	"math/bits"
	"math/rand"
	"net"
	"sort"
	"sync"
	"testing"
	"time"

	"verif.local/v/vlab"
)

func c04isPrime(p int64) bool {
	if p < 2 {
		return false
	}
	for d := int64(2); d*d <= p; d++ {
		if p%d == 0 {
			return false
		}
	}
	return true
}

func c04factors(n int64) []int64 {
	var fs []int64
	for d := int64(2); d*d <= n; d++ {
		if n%d == 0 {
			fs = append(fs, d)
			for n%d == 0 {
				n /= d
			}
		}
	}
	if n > 1 {
		fs = append(fs, n)
	}
	return fs
}

func c04gcd(a, b int64) int64 {
	for b != 0 {
		a, b = b, a%b
	}
	return a
}

type c04case struct {
	N    int64  `json:"n"`
	Seed int64  `json:"rand_seed"`
	Why  string `json:"why"`
}

// c04iterate runs one full iteration under the bitmap oracle.
func c04iterate(run *vlab.Run, c c04case) {
	id := fmt.Sprintf("n=%d/s=%d", c.N, c.Seed)
	run.Case(id, c)
	rand.Seed(c.Seed)
	it, err := newRangeIterator(c.N)
	run.Eval(1)
	if err != nil {
		run.Violation("valid-size-rejected", fmt.Sprintf("newRangeIterator(%d) (rand seed %d) returned error %v for a size in 1..2^32+60", c.N, c.Seed, err), c)
		return
	}
	n := c.N
	bm := make([]uint64, (n+64)/64)
	var count, steps int64
	bad := false
	for {
		v := it.Int()
		steps++
		if !v.IsInt64() || v.Int64() < 1 || v.Int64() > n {
			run.Violation("out-of-range", fmt.Sprintf("n=%d seed=%d: step %d yielded %s, outside 1..n", n, c.Seed, steps, v.String()), c)
			bad = true
			break
		}
		x := v.Int64()
		w, b := x/64, uint(x%64)
		if bm[w]&(1<<b) != 0 {
			run.Violation("repeated", fmt.Sprintf("n=%d seed=%d: value %d yielded twice (second time at step %d)", n, c.Seed, x, steps), c)
			bad = true
			break
		}
		bm[w] |= 1 << b
		count++
		if steps > n {
			run.Violation("no-stop", fmt.Sprintf("n=%d seed=%d: more than n values yielded", n, c.Seed), c)
			bad = true
			break
		}
		if !it.Next() {
			break
		}
	}
	if !bad {
		if count != n {
			// find a missing one
			miss := int64(-1)
			for x := int64(1); x <= n; x++ {
				if bm[x/64]&(1<<uint(x%64)) == 0 {
					miss = x
					break
				}
			}
			run.Violation("omitted", fmt.Sprintf("n=%d seed=%d: iteration stopped after %d of %d values; e.g. %d never yielded (P=%s G=%s)", n, c.Seed, count, n, miss, it.P, it.G), c)
		} else if it.Next() || it.Next() {
			run.Violation("restart-after-stop", fmt.Sprintf("n=%d seed=%d: Next() returned true after the iteration had stopped", n, c.Seed), c)
		}
	}
	run.Count("iterations_checked", 1)
	run.Count("values_seen", count)
	run.Max("max_n", n)
	if n >= 3 {
		run.Distinct(id)
	}
	if run.WantSample() && n > 100 {
		run.Sample(map[string]interface{}{"n": n, "rand_seed": c.Seed, "why": c.Why, "group_P": it.P.String(), "generator_used": it.G.String(), "values_yielded": count, "permutation": !bad && count == n})
	}
}

// c04prefix watches the first `steps` values of an iteration that is too long to run completely in
// this tier: every value must lie in 1..n, no value may repeat, and the walk must be the one the
// documented recurrence x -> x*G mod P (values above n skipped) produces from the first value,
// recomputed here in 128-bit arithmetic (math/bits) from the group the iterator reports.
func c04prefix(run *vlab.Run, c c04case, steps int) {
	id := fmt.Sprintf("prefix n=%d/s=%d", c.N, c.Seed)
	run.Case(id, c)
	rand.Seed(c.Seed)
	it, err := newRangeIterator(c.N)
	run.Eval(1)
	if err != nil {
		run.Violation("valid-size-rejected", fmt.Sprintf("newRangeIterator(%d) (rand seed %d) returned error %v", c.N, c.Seed, err), c)
		return
	}
	if !it.P.IsUint64() || !it.G.IsUint64() {
		run.Violation("out-of-range", fmt.Sprintf("n=%d seed=%d: group parameters P=%s G=%s", c.N, c.Seed, it.P, it.G), c)
		return
	}
	P, G := it.P.Uint64(), it.G.Uint64()
	n := uint64(c.N)
	seen := make(map[uint64]struct{}, steps)
	var ref uint64
	var count int64
	for k := 0; k < steps; k++ {
		v := it.Int()
		if !v.IsUint64() || v.Uint64() < 1 || v.Uint64() > n {
			run.Violation("out-of-range", fmt.Sprintf("n=%d seed=%d: step %d yielded %s, outside 1..n (P=%d G=%d)", c.N, c.Seed, k+1, v.String(), P, G), c)
			return
		}
		x := v.Uint64()
		if _, dup := seen[x]; dup {
			run.Violation("repeated", fmt.Sprintf("n=%d seed=%d: value %d yielded twice within the first %d steps (P=%d G=%d)", c.N, c.Seed, x, k+1, P, G), c)
			return
		}
		seen[x] = struct{}{}
		if k > 0 {
			// reference walk from the previous value
			for {
				hi, lo := bits.Mul64(ref, G)
				_, ref = bits.Div64(hi, lo, P)
				if ref <= n {
					break
				}
			}
			if ref != x {
				run.Violation("walk-differs", fmt.Sprintf("n=%d seed=%d: step %d yielded %d; x*G mod P from the previous value gives %d (P=%d G=%d): the iteration no longer walks the cyclic group", c.N, c.Seed, k+1, x, ref, P, G), c)
				return
			}
		}
		ref = x
		count++
		if !it.Next() {
			if uint64(count) != n {
				run.Violation("omitted", fmt.Sprintf("n=%d seed=%d: iteration stopped after %d of %d values", c.N, c.Seed, count, c.N), c)
			}
			break
		}
	}
	run.Count("prefix_iterations_checked", 1)
	run.Count("prefix_values_seen", count)
	if G >= 1<<31 {
		run.Count("prefix_generators_above_2^31", 1)
	}
	run.Max("max_n", c.N)
	run.Distinct(id)
}

func TestVerifC04(t *testing.T) {
	run := vlab.Begin(t, "C04", "iter")
	defer run.End()

	// ---- 1. live-table invariant (every batch checks it: it is cheap and it is the table of *this* binary)
	var prevP int64 = 1
	for k, row := range cyclicGroups {
		run.Mark(fmt.Sprintf("table-row-%d", k))
		P, G, N := row.P, row.G, row.N
		w := map[string]interface{}{"row": k, "P": P, "G": G, "N": N}
		if !c04isPrime(P) {
			run.Violation("table-not-prime", fmt.Sprintf("cyclicGroups[%d].P=%d is not prime", k, P), w)
		}
		if P <= prevP {
			run.Violation("table-not-increasing", fmt.Sprintf("cyclicGroups[%d].P=%d not greater than previous %d (sort.Search needs a sorted table)", k, P, prevP), w)
		}
		if G <= 1 || G >= P {
			run.Violation("table-generator-range", fmt.Sprintf("cyclicGroups[%d].G=%d not in 2..P-1", k, G), w)
		}
		for _, q := range c04factors(P - 1) {
			e := big.NewInt((P - 1) / q)
			r := new(big.Int).Exp(big.NewInt(G), e, big.NewInt(P))
			if r.Cmp(big.NewInt(1)) == 0 {
				run.Violation("table-not-generator", fmt.Sprintf("cyclicGroups[%d]: G=%d has order dividing (P-1)/%d, not a generator of (Z/%dZ)*", k, G, q, P), w)
			}
		}
		if N < 1 || c04gcd(N, P-1) != 1 {
			run.Violation("table-N-not-coprime", fmt.Sprintf("cyclicGroups[%d]: gcd(N=%d, P-1=%d) != 1", k, N, P-1), w)
		}
		prevP = P
		run.Count("table_rows_checked", 1)
	}
	last := cyclicGroups[len(cyclicGroups)-1].P
	if last != (1<<32)+61 {
		run.Violation("table-coverage", fmt.Sprintf("largest prime in the table is %d; sizes up to 2^32+60 must be served and 2^32+61 rejected, which needs exactly 2^32+61", last), nil)
	}
	run.Eval(len(cyclicGroups))
	// table_rows_checked is the same 32 rows in every batch: report as max
	run.Note("table invariant checked on %d rows", len(cyclicGroups))

	// ---- 3. rejection
	if run.Batch() == 0 {
		for _, n := range []int64{0, -1, -1 << 63, (1 << 32) + 61, (1 << 32) + 62, 1 << 33, 1 << 40, 1<<63 - 1} {
			run.Case(fmt.Sprintf("reject n=%d", n), n)
			rand.Seed(run.Seed())
			done := make(chan struct{})
			var it *rangeIterator
			var err error
			go func() { defer close(done); it, err = newRangeIterator(n) }()
			select {
			case <-done:
			case <-time.After(60 * time.Second):
				run.Violation("reject-hang", fmt.Sprintf("newRangeIterator(%d) did not return", n), n)
				continue
			}
			run.Eval(1)
			run.Count("rejections_checked", 1)
			if err == nil || it != nil {
				run.Violation("invalid-size-accepted", fmt.Sprintf("newRangeIterator(%d) accepted a size outside 1..2^32+60", n), n)
			}
		}
		// upper boundary accepted (construction only; iterating 2^32+60 is a thorough case)
		for _, n := range []int64{1 << 32, (1 << 32) + 60} {
			run.Case(fmt.Sprintf("accept n=%d", n), n)
			rand.Seed(run.Seed())
			if _, err := newRangeIterator(n); err != nil {
				run.Violation("valid-size-rejected", fmt.Sprintf("newRangeIterator(%d) rejected: %v", n, err), n)
			}
			run.Eval(1)
		}
	}

	// ---- 2. execution monitor
	rng := run.Rand("cases")
	var cases []c04case
	nseeds := run.Pick(2, 8)
	for n := int64(1); n <= 4096; n++ {
		for s := 0; s < nseeds; s++ {
			cases = append(cases, c04case{N: n, Seed: rng.Int63(), Why: "small-exhaustive"})
		}
	}
	maxRowQuick := 26 // P ~ 2^26
	var prefixes []c04case
	for k, row := range cyclicGroups {
		bits := k + 1 // row k serves 2^bits-ish
		var prev int64 = 1
		if k > 0 {
			prev = cyclicGroups[k-1].P
		}
		type nc struct {
			n   int64
			why string
		}
		cand := []nc{{row.P - 1, "whole-group"}, {row.P - 2, "P-2"}, {1 << uint(bits), "2^k"}, {1<<uint(bits) - 1, "2^k-1"}, {1<<uint(bits) + 1, "2^k+1"}, {prev, "first-n-of-row"}, {prev + 1, "prevP+1"}}
		seeds := run.Pick(2, 4)
		if bits > 20 {
			seeds = run.Pick(1, 2)
		}
		if bits > maxRowQuick {
			// rows too long to iterate completely in the quick tier: watch a prefix for many draws
			for _, c := range cand {
				if c.n < 1 || c.n >= row.P || c.n < prev {
					continue
				}
				for s := 0; s < run.Pick(6, 24); s++ {
					prefixes = append(prefixes, c04case{N: c.n, Seed: rng.Int63(), Why: fmt.Sprintf("row%d:%s:prefix", k, c.why)})
				}
			}
			if !run.Thorough() {
				continue
			}
			seeds = 1
			if bits > 28 {
				cand = []nc{{row.P - 1, "whole-group"}, {1 << uint(bits), "2^k"}, {prev, "first-n-of-row"}}
			}
		}
		seen := map[int64]bool{}
		for _, c := range cand {
			if c.n < 1 || c.n >= row.P || c.n < prev || seen[c.n] {
				continue // must be served by this row: prev <= n < P
			}
			seen[c.n] = true
			for s := 0; s < seeds; s++ {
				cases = append(cases, c04case{N: c.n, Seed: rng.Int63(), Why: fmt.Sprintf("row%d:%s", k, c.why)})
			}
		}
	}
	// random n across the whole quick range
	for i := 0; i < run.Pick(200, 2000); i++ {
		bits := 3 + rng.Intn(18)
		n := int64(1)<<uint(bits) + rng.Int63n(int64(1)<<uint(bits))
		cases = append(cases, c04case{N: n, Seed: rng.Int63(), Why: "random"})
	}
	// big cases first so that they spread over the batches
	sort.SliceStable(cases, func(i, j int) bool { return cases[i].N > cases[j].N })

	if run.Replay != "" {
		// replay: same batch, same seed => same list; nothing else to do
		run.Note("replay mode")
	}
	rows := map[int]bool{}
	for i, c := range cases {
		if !run.Mine(i) {
			continue
		}
		c04iterate(run, c)
		rows[sort.Search(len(cyclicGroups), func(j int) bool { return cyclicGroups[j].P > c.N })] = true
	}
	for i, c := range prefixes {
		if !run.Mine(i) {
			continue
		}
		c04prefix(run, c, run.Pick(200000, 2000000))
	}
	run.Count("max_rows_exercised_in_a_batch", int64(len(rows)))
	// 4. the iteration as its users drive it: the port generator and the address generator compute the
	// range size themselves (boundary sizes: 1, 2^16-1, 2^16 = ports 0-65535, a /16 and a /15 of addresses)
	if run.Batch() == 0 {
		for _, pr := range [][2]uint16{{0, 65535}, {1, 65535}, {0, 0}, {65535, 65535}, {0, 32767}, {32768, 65535}, {0, 65534}, {80, 80}, {1023, 1025}} {
			seen := make([]uint8, 65536)
			ctx, cancel := context.WithTimeout(context.Background(), 60*time.Second)
			ch, err := NewPortGenerator().Ports(ctx, &Range{Ports: []*PortRange{{StartPort: pr[0], EndPort: pr[1]}}})
			count, bad := 0, ""
			if err != nil {
				bad = "generator refused the range: " + err.Error()
			} else {
				for pg := range ch {
					port, err := pg.GetPort()
					if err != nil {
						bad = "error instead of a port: " + err.Error()
						continue
					}
					count++
					if port < pr[0] || port > pr[1] {
						bad = fmt.Sprintf("port %d outside the range", port)
					}
					if seen[port]++; seen[port] > 1 {
						bad = fmt.Sprintf("port %d produced twice", port)
					}
				}
			}
			cancel()
			want := int(pr[1]) - int(pr[0]) + 1
			if bad == "" && count != want {
				bad = fmt.Sprintf("%d ports produced, %d expected", count, want)
			}
			run.Eval(1)
			if bad != "" {
				run.Violation("port-range-iteration", fmt.Sprintf("port range %d-%d (size %d): %s", pr[0], pr[1], want, bad), pr)
			}
			run.Count("port_range_iterations_checked", 1)
		}
		// several ranges in one list: every range is its own permutation - ranges of equal size back to back, a
		// single port between two ranges, the same range twice
		for _, lst := range [][][2]uint16{{{1, 10}, {21, 30}}, {{1, 10}, {21, 30}, {41, 50}}, {{5, 5}, {7, 7}, {9, 9}}, {{100, 199}, {300, 399}, {1, 1}, {500, 599}}, {{80, 81}, {80, 81}}, {{1, 1024}, {2001, 3024}}} {
			var prs []*PortRange
			want := map[uint16]int{}
			for _, r := range lst {
				prs = append(prs, &PortRange{StartPort: r[0], EndPort: r[1]})
				for p := int(r[0]); p <= int(r[1]); p++ {
					want[uint16(p)]++
				}
			}
			ctx, cancel := context.WithTimeout(context.Background(), 60*time.Second)
			ch, err := NewPortGenerator().Ports(ctx, &Range{Ports: prs})
			got := map[uint16]int{}
			bad := ""
			if err != nil {
				bad = "generator refused the list: " + err.Error()
			} else {
				for pg := range ch {
					port, err := pg.GetPort()
					if err != nil {
						bad = "error instead of a port: " + err.Error()
						continue
					}
					got[port]++
				}
			}
			cancel()
			for p, c := range want {
				if bad == "" && got[p] != c {
					bad = fmt.Sprintf("port %d produced %d times, %d expected (%d of %d ports in all)", p, got[p], c, len(got), len(want))
				}
			}
			for p := range got {
				if bad == "" && want[p] == 0 {
					bad = fmt.Sprintf("port %d is in no range of the list", p)
				}
			}
			run.Eval(1)
			if bad != "" {
				run.Violation("port-range-iteration:list", fmt.Sprintf("port list %v: %s", lst, bad), lst)
			}
			run.Count("port_lists_checked", 1)
		}
		for _, sn := range []string{"10.0.0.0/16", "10.2.0.0/15", "10.0.0.7/32", "255.255.255.254/31", "0.0.0.0/17"} {
			_, ipnet, _ := net.ParseCIDR(sn)
			ones, _ := ipnet.Mask.Size()
			want := 1 << uint(32-ones)
			seen := map[uint32]bool{}
			ctx, cancel := context.WithTimeout(context.Background(), 120*time.Second)
			ch, err := NewIPGenerator().IPs(ctx, &Range{DstSubnet: ipnet})
			bad := ""
			if err != nil {
				bad = "generator refused the subnet: " + err.Error()
			} else {
				for ig := range ch {
					a, err := ig.GetIP()
					if err != nil {
						bad = "error instead of an address: " + err.Error()
						continue
					}
					a4 := a.To4()
					v := uint32(a4[0])<<24 | uint32(a4[1])<<16 | uint32(a4[2])<<8 | uint32(a4[3])
					if !ipnet.Contains(a) {
						bad = fmt.Sprintf("address %v outside %s", a, sn)
					}
					if seen[v] {
						bad = fmt.Sprintf("address %v produced twice", a)
					}
					seen[v] = true
				}
			}
			cancel()
			if bad == "" && len(seen) != want {
				bad = fmt.Sprintf("%d addresses produced, %d expected", len(seen), want)
			}
			run.Eval(1)
			if bad != "" {
				run.Violation("subnet-iteration", fmt.Sprintf("subnet %s: %s", sn, bad), sn)
			}
			run.Count("subnet_iterations_checked", 1)
		}
		// one generator, many passes (one per port of a port scan, one per live rescan): every pass is a permutation
		// of the subnet again - sizes whose cyclic group is larger than the range (/29, /27, /26, /25, /23) included
		for _, sn := range []string{"10.1.2.8/29", "10.1.2.32/27", "10.1.2.64/26", "10.1.2.128/25", "10.1.2.0/23", "10.1.2.0/24", "10.1.2.4/30"} {
			_, ipnet, _ := net.ParseCIDR(sn)
			ones, _ := ipnet.Mask.Size()
			want := 1 << uint(32-ones)
			gen := NewIPGenerator()
			bad := ""
			for pass := 0; pass < 60 && bad == ""; pass++ {
				seen := map[string]bool{}
				ctx, cancel := context.WithTimeout(context.Background(), 60*time.Second)
				ch, err := gen.IPs(ctx, &Range{DstSubnet: ipnet})
				if err != nil {
					bad = fmt.Sprintf("pass %d refused: %v", pass+1, err)
				} else {
					for ig := range ch {
						a, err := ig.GetIP()
						switch {
						case err != nil:
							bad = fmt.Sprintf("pass %d: error instead of an address: %v", pass+1, err)
						case !ipnet.Contains(a):
							bad = fmt.Sprintf("pass %d: address %v outside %s", pass+1, a, sn)
						case seen[a.String()]:
							bad = fmt.Sprintf("pass %d: address %v produced twice", pass+1, a)
						}
						seen[a.String()] = true
					}
				}
				cancel()
				if bad == "" && len(seen) != want {
					bad = fmt.Sprintf("pass %d: %d addresses produced, %d expected", pass+1, len(seen), want)
				}
			}
			run.Eval(60)
			if bad != "" {
				run.Violation("subnet-iteration:repeated-pass", fmt.Sprintf("subnet %s, one generator asked again and again: %s", sn, bad), sn)
			}
			run.Count("repeated_pass_subnets_checked", 1)
		}
		// the widest subnets cannot be walked to the end here: the first 20000 addresses must come without an
		// error, inside the subnet and without repetition (0.0.0.0/0 is the one range of size 2^32)
		for _, sn := range []string{"0.0.0.0/0", "0.0.0.0/1", "128.0.0.0/1", "64.0.0.0/2", "10.0.0.0/8"} {
			_, ipnet, _ := net.ParseCIDR(sn)
			seen := map[uint32]bool{}
			ctx, cancel := context.WithCancel(context.Background())
			ch, err := NewIPGenerator().IPs(ctx, &Range{DstSubnet: ipnet})
			bad := ""
			if err != nil {
				bad = "generator refused the subnet: " + err.Error()
			} else {
				for ig := range ch {
					a, err := ig.GetIP()
					if err != nil {
						bad = "error instead of an address: " + err.Error()
						break
					}
					a4 := a.To4()
					v := uint32(a4[0])<<24 | uint32(a4[1])<<16 | uint32(a4[2])<<8 | uint32(a4[3])
					if !ipnet.Contains(a) {
						bad = fmt.Sprintf("address %v outside %s", a, sn)
					}
					if seen[v] {
						bad = fmt.Sprintf("address %v produced twice among the first %d", a, len(seen))
					}
					seen[v] = true
					if len(seen) >= 20000 || bad != "" {
						break
					}
				}
			}
			cancel()
			if bad == "" && len(seen) < 20000 {
				bad = fmt.Sprintf("the iteration stopped after %d addresses", len(seen))
			}
			run.Eval(1)
			if bad != "" {
				run.Violation("subnet-iteration", fmt.Sprintf("subnet %s: %s", sn, bad), sn)
			}
			run.Count("wide_subnet_prefixes_checked", 1)
		}
	}
}

// TestVerifC04Concurrent runs under the race detector (the main unit does not: it is a throughput unit).
func TestVerifC04Concurrent(t *testing.T) {
	run := vlab.Begin(t, "C04", "concurrent")
	defer run.End()
	// iterators are built from several goroutines at once (one per port range, one per pass, the port and the
	// address generator of one scan side by side): the random draws must not depend on a source that is not
	// safe for that - the race detector watches, and every iterator must still be a permutation
	{
		var wg sync.WaitGroup
		var badMu sync.Mutex
		bad := ""
		for g := 0; g < 8; g++ {
			wg.Add(1)
			go func(g int) {
				defer wg.Done()
				defer func() {
					if r := recover(); r != nil {
						badMu.Lock()
						bad = fmt.Sprintf("building an iterator panicked: %v", r)
						badMu.Unlock()
					}
				}()
				for k := 0; k < 4000; k++ {
					n := int64(1 + (g*7919+k*104729)%300)
					it, err := newRangeIterator(n)
					if err != nil {
						badMu.Lock()
						bad = fmt.Sprintf("size %d refused: %v", n, err)
						badMu.Unlock()
						return
					}
					seen := make([]bool, n+1)
					cnt := int64(0)
					for {
						v := it.Int().Int64()
						if v < 1 || v > n || seen[v] {
							badMu.Lock()
							bad = fmt.Sprintf("size %d: value %d out of range or repeated (built concurrently)", n, v)
							badMu.Unlock()
							return
						}
						seen[v] = true
						cnt++
						if !it.Next() {
							break
						}
					}
					if cnt != n {
						badMu.Lock()
						bad = fmt.Sprintf("size %d: %d values", n, cnt)
						badMu.Unlock()
						return
					}
				}
			}(g)
		}
		wg.Wait()
		run.Eval(8 * 4000)
		if bad != "" {
			run.Violation("concurrent-construction", bad, nil)
		}
		run.Count("iterators_built_concurrently", 8*4000)
	}
}
