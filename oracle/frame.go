// Package oracle holds the independent reference code of the framework: a byte-level
// frame encoder/decoder (Ethernet II, ARP, IPv4, TCP, UDP, ICMP, RFC 1071 checksums),
// reference target-set semantics and strict reference parsers. It imports nothing from
// sx and nothing from gopacket: agreement between sx and this package is evidence,
// not tautology.
package oracle

import (
	"encoding/binary"
	"fmt"
)

type Link int

const (
	LinkEthernet Link = iota // frame starts with a 14-byte Ethernet II header
	LinkRawIP                // frame starts with the IPv4 header (VPN / tun mode)
)

const (
	EtherTypeIPv4 = 0x0800
	EtherTypeARP  = 0x0806
	EtherTypeIPv6 = 0x86dd
	EtherTypeVLAN = 0x8100

	ProtoICMP = 1
	ProtoIPIP = 4
	ProtoTCP  = 6
	ProtoUDP  = 17
)

// TCP flag bits in the order of the 9-bit field (NS is bit 8).
const (
	FlagFIN = 1 << iota
	FlagSYN
	FlagRST
	FlagPSH
	FlagACK
	FlagURG
	FlagECE
	FlagCWR
	FlagNS
)

type Eth struct {
	Dst, Src [6]byte
	Type     uint16
}

type ARP struct {
	HType, PType       uint16
	HLen, PLen         uint8
	Op                 uint16
	SHA, SPA, THA, TPA []byte
}

type IPv4 struct {
	Version, IHL uint8
	TOS          uint8
	TotalLen     uint16
	ID           uint16
	Flags        uint8 // 3 bits: bit2 = evil/reserved, bit1 = DF, bit0 = MF  (value as in the header: 0b_RDM)
	FragOff      uint16
	TTL, Proto   uint8
	Checksum     uint16
	Src, Dst     [4]byte
	Options      []byte
	ChecksumOK   bool
	HeaderLen    int // IHL*4
	PayloadAvail int // bytes physically present after the header
}

type TCP struct {
	SrcPort, DstPort uint16
	Seq, Ack         uint32
	DataOff          uint8
	Flags            uint16 // 9 bits
	Window           uint16
	Checksum         uint16
	Urgent           uint16
	Options          []byte
	Payload          []byte
	ChecksumOK       bool
}

type UDP struct {
	SrcPort, DstPort uint16
	Length           uint16
	Checksum         uint16
	Payload          []byte
	ChecksumOK       bool
}

type ICMP struct {
	Type, Code uint8
	Checksum   uint16
	ID, Seq    uint16
	Payload    []byte
	ChecksumOK bool
}

// Decoded is the result of a best-effort decode. A nil pointer means "layer absent or
// not decodable"; Problems lists why decoding stopped or what is inconsistent.
type Decoded struct {
	Link     Link
	Eth      *Eth
	ARP      *ARP
	IP       *IPv4   // outermost IPv4 header
	Inner    []*IPv4 // nested IPv4 headers (IP-in-IP), outermost first
	TCP      *TCP
	UDP      *UDP
	ICMP     *ICMP
	Problems []string
}

func (d *Decoded) problem(format string, a ...interface{}) {
	d.Problems = append(d.Problems, fmt.Sprintf(format, a...))
}

// Checksum is the RFC 1071 Internet checksum of b (odd length padded with a zero byte).
func Checksum(parts ...[]byte) uint16 {
	var sum uint32
	var carry *byte
	for _, b := range parts {
		i := 0
		if carry != nil && len(b) > 0 {
			sum += uint32(*carry)<<8 | uint32(b[0])
			carry = nil
			i = 1
		}
		for ; i+1 < len(b); i += 2 {
			sum += uint32(b[i])<<8 | uint32(b[i+1])
		}
		if i < len(b) {
			c := b[i]
			carry = &c
		}
	}
	if carry != nil {
		sum += uint32(*carry) << 8
	}
	for sum>>16 != 0 {
		sum = sum&0xffff + sum>>16
	}
	return ^uint16(sum)
}

func pseudoHeader(src, dst [4]byte, proto uint8, length int) []byte {
	p := make([]byte, 12)
	copy(p[0:4], src[:])
	copy(p[4:8], dst[:])
	p[9] = proto
	binary.BigEndian.PutUint16(p[10:], uint16(length))
	return p
}

// Decode decodes a frame. It never panics on any input.
func Decode(b []byte, link Link) *Decoded {
	d := &Decoded{Link: link}
	rest := b
	if link == LinkEthernet {
		if len(b) < 14 {
			d.problem("frame shorter than an Ethernet header (%d bytes)", len(b))
			return d
		}
		e := &Eth{Type: binary.BigEndian.Uint16(b[12:14])}
		copy(e.Dst[:], b[0:6])
		copy(e.Src[:], b[6:12])
		d.Eth = e
		rest = b[14:]
		switch e.Type {
		case EtherTypeARP:
			d.decodeARP(rest)
			return d
		case EtherTypeIPv4:
		default:
			d.problem("ethertype 0x%04x is neither IPv4 nor ARP", e.Type)
			return d
		}
	}
	d.decodeIP(rest, 0)
	return d
}

func (d *Decoded) decodeARP(b []byte) {
	if len(b) < 8 {
		d.problem("ARP fixed header truncated (%d bytes)", len(b))
		return
	}
	a := &ARP{
		HType: binary.BigEndian.Uint16(b[0:2]), PType: binary.BigEndian.Uint16(b[2:4]),
		HLen: b[4], PLen: b[5], Op: binary.BigEndian.Uint16(b[6:8]),
	}
	need := 8 + 2*int(a.HLen) + 2*int(a.PLen)
	if len(b) < need {
		d.problem("ARP addresses truncated: need %d bytes, have %d", need, len(b))
		d.ARP = nil
		// keep the fixed part for diagnostics
		d.ARP = a
		return
	}
	o := 8
	a.SHA = b[o : o+int(a.HLen)]
	o += int(a.HLen)
	a.SPA = b[o : o+int(a.PLen)]
	o += int(a.PLen)
	a.THA = b[o : o+int(a.HLen)]
	o += int(a.HLen)
	a.TPA = b[o : o+int(a.PLen)]
	d.ARP = a
}

func (d *Decoded) decodeIP(b []byte, depth int) {
	if len(b) < 20 {
		d.problem("IPv4 header truncated (%d bytes)", len(b))
		return
	}
	ip := &IPv4{
		Version: b[0] >> 4, IHL: b[0] & 0x0f, TOS: b[1],
		TotalLen: binary.BigEndian.Uint16(b[2:4]), ID: binary.BigEndian.Uint16(b[4:6]),
		Flags: b[6] >> 5, FragOff: binary.BigEndian.Uint16(b[6:8]) & 0x1fff,
		TTL: b[8], Proto: b[9], Checksum: binary.BigEndian.Uint16(b[10:12]),
	}
	copy(ip.Src[:], b[12:16])
	copy(ip.Dst[:], b[16:20])
	ip.HeaderLen = int(ip.IHL) * 4
	if depth == 0 {
		d.IP = ip
	} else {
		d.Inner = append(d.Inner, ip)
	}
	if ip.Version != 4 {
		d.problem("IP version %d", ip.Version)
	}
	if ip.IHL < 5 {
		d.problem("IHL %d < 5", ip.IHL)
		return
	}
	if ip.HeaderLen > len(b) {
		d.problem("IPv4 header (IHL %d) extends past the captured bytes", ip.IHL)
		return
	}
	ip.Options = b[20:ip.HeaderLen]
	ip.ChecksumOK = Checksum(b[:ip.HeaderLen]) == 0
	if !ip.ChecksumOK {
		d.problem("IPv4 header checksum wrong")
	}
	payload := b[ip.HeaderLen:]
	ip.PayloadAvail = len(payload)
	tl := int(ip.TotalLen)
	switch {
	case tl < ip.HeaderLen:
		d.problem("IPv4 total length %d smaller than header length %d", tl, ip.HeaderLen)
	case tl > len(b):
		d.problem("IPv4 total length %d larger than the %d bytes present", tl, len(b))
	default:
		payload = b[ip.HeaderLen:tl]
	}
	if ip.FragOff != 0 || ip.Flags&1 != 0 {
		d.problem("IPv4 fragment (MF=%d offset=%d)", ip.Flags&1, ip.FragOff)
		return
	}
	if ip.Version != 4 {
		return
	}
	switch ip.Proto {
	case ProtoTCP:
		d.decodeTCP(payload, ip)
	case ProtoUDP:
		d.decodeUDP(payload, ip)
	case ProtoICMP:
		d.decodeICMP(payload)
	case ProtoIPIP:
		if depth < 8 {
			d.decodeIP(payload, depth+1)
		}
	default:
		d.problem("IP protocol %d", ip.Proto)
	}
}

func (d *Decoded) decodeTCP(b []byte, ip *IPv4) {
	if len(b) < 20 {
		d.problem("TCP header truncated (%d bytes)", len(b))
		return
	}
	t := &TCP{
		SrcPort: binary.BigEndian.Uint16(b[0:2]), DstPort: binary.BigEndian.Uint16(b[2:4]),
		Seq: binary.BigEndian.Uint32(b[4:8]), Ack: binary.BigEndian.Uint32(b[8:12]),
		DataOff: b[12] >> 4, Flags: uint16(b[12]&1)<<8 | uint16(b[13]),
		Window: binary.BigEndian.Uint16(b[14:16]), Checksum: binary.BigEndian.Uint16(b[16:18]),
		Urgent: binary.BigEndian.Uint16(b[18:20]),
	}
	d.TCP = t
	hl := int(t.DataOff) * 4
	if t.DataOff < 5 {
		d.problem("TCP data offset %d < 5", t.DataOff)
		return
	}
	if hl > len(b) {
		d.problem("TCP header (data offset %d) extends past the segment", t.DataOff)
		return
	}
	t.Options = b[20:hl]
	t.Payload = b[hl:]
	t.ChecksumOK = Checksum(pseudoHeader(ip.Src, ip.Dst, ProtoTCP, len(b)), b) == 0
	if !t.ChecksumOK {
		d.problem("TCP checksum wrong")
	}
}

func (d *Decoded) decodeUDP(b []byte, ip *IPv4) {
	if len(b) < 8 {
		d.problem("UDP header truncated (%d bytes)", len(b))
		return
	}
	u := &UDP{
		SrcPort: binary.BigEndian.Uint16(b[0:2]), DstPort: binary.BigEndian.Uint16(b[2:4]),
		Length: binary.BigEndian.Uint16(b[4:6]), Checksum: binary.BigEndian.Uint16(b[6:8]),
	}
	d.UDP = u
	u.Payload = b[8:]
	if int(u.Length) != len(b) {
		d.problem("UDP length %d != %d bytes of IP payload", u.Length, len(b))
	}
	if u.Checksum == 0 {
		u.ChecksumOK = true // checksum not used
	} else {
		u.ChecksumOK = Checksum(pseudoHeader(ip.Src, ip.Dst, ProtoUDP, len(b)), b) == 0
	}
	if !u.ChecksumOK {
		d.problem("UDP checksum wrong")
	}
}

func (d *Decoded) decodeICMP(b []byte) {
	if len(b) < 8 {
		d.problem("ICMP header truncated (%d bytes)", len(b))
		return
	}
	c := &ICMP{Type: b[0], Code: b[1], Checksum: binary.BigEndian.Uint16(b[2:4]),
		ID: binary.BigEndian.Uint16(b[4:6]), Seq: binary.BigEndian.Uint16(b[6:8]), Payload: b[8:]}
	c.ChecksumOK = Checksum(b) == 0
	if !c.ChecksumOK {
		d.problem("ICMP checksum wrong")
	}
	d.ICMP = c
}

// ---------------------------------------------------------------------------
// Encoders (used to build replies and hostile frames).

func BuildEth(dst, src [6]byte, typ uint16, payload []byte) []byte {
	out := make([]byte, 14+len(payload))
	copy(out[0:6], dst[:])
	copy(out[6:12], src[:])
	binary.BigEndian.PutUint16(out[12:14], typ)
	copy(out[14:], payload)
	return out
}

// IPSpec describes an IPv4 header to build. Zero TotalLen/IHL are computed.
type IPSpec struct {
	Src, Dst    [4]byte
	Proto       uint8
	TTL         uint8
	ID          uint16
	Flags       uint8 // 3 bits
	FragOff     uint16
	TOS         uint8
	Options     []byte // padded to a multiple of 4 by the caller
	TotalLen    int    // -1: computed; otherwise verbatim
	IHL         int    // -1: computed
	Version     int    // -1: 4
	BadChecksum bool
}

func NewIPSpec(src, dst [4]byte, proto uint8) IPSpec {
	return IPSpec{Src: src, Dst: dst, Proto: proto, TTL: 64, ID: 0x1234, Flags: 2, TotalLen: -1, IHL: -1, Version: -1}
}

func BuildIPv4(s IPSpec, payload []byte) []byte {
	hl := 20 + len(s.Options)
	out := make([]byte, hl+len(payload))
	ihl := hl / 4
	if s.IHL >= 0 {
		ihl = s.IHL
	}
	ver := 4
	if s.Version >= 0 {
		ver = s.Version
	}
	out[0] = byte(ver<<4) | byte(ihl&0x0f)
	out[1] = s.TOS
	tl := hl + len(payload)
	if s.TotalLen >= 0 {
		tl = s.TotalLen
	}
	binary.BigEndian.PutUint16(out[2:4], uint16(tl))
	binary.BigEndian.PutUint16(out[4:6], s.ID)
	binary.BigEndian.PutUint16(out[6:8], uint16(s.Flags&7)<<13|s.FragOff&0x1fff)
	out[8] = s.TTL
	out[9] = s.Proto
	copy(out[12:16], s.Src[:])
	copy(out[16:20], s.Dst[:])
	copy(out[20:], s.Options)
	ck := Checksum(out[:hl])
	if s.BadChecksum {
		ck ^= 0x5555
	}
	binary.BigEndian.PutUint16(out[10:12], ck)
	copy(out[hl:], payload)
	return out
}

type TCPSpec struct {
	SrcPort, DstPort uint16
	Seq, Ack         uint32
	Flags            uint16
	Window           uint16
	Urgent           uint16
	Options          []byte // multiple of 4
	Payload          []byte
	DataOff          int // -1 computed
	BadChecksum      bool
}

func BuildTCP(src, dst [4]byte, s TCPSpec) []byte {
	hl := 20 + len(s.Options)
	out := make([]byte, hl+len(s.Payload))
	binary.BigEndian.PutUint16(out[0:2], s.SrcPort)
	binary.BigEndian.PutUint16(out[2:4], s.DstPort)
	binary.BigEndian.PutUint32(out[4:8], s.Seq)
	binary.BigEndian.PutUint32(out[8:12], s.Ack)
	do := hl / 4
	if s.DataOff >= 0 {
		do = s.DataOff
	}
	out[12] = byte(do<<4) | byte(s.Flags>>8&1)
	out[13] = byte(s.Flags)
	binary.BigEndian.PutUint16(out[14:16], s.Window)
	binary.BigEndian.PutUint16(out[18:20], s.Urgent)
	copy(out[20:], s.Options)
	copy(out[hl:], s.Payload)
	ck := Checksum(pseudoHeader(src, dst, ProtoTCP, len(out)), out)
	if s.BadChecksum {
		ck ^= 0x5555
	}
	binary.BigEndian.PutUint16(out[16:18], ck)
	return out
}

func BuildUDP(src, dst [4]byte, sport, dport uint16, payload []byte) []byte {
	out := make([]byte, 8+len(payload))
	binary.BigEndian.PutUint16(out[0:2], sport)
	binary.BigEndian.PutUint16(out[2:4], dport)
	binary.BigEndian.PutUint16(out[4:6], uint16(len(out)))
	copy(out[8:], payload)
	ck := Checksum(pseudoHeader(src, dst, ProtoUDP, len(out)), out)
	if ck == 0 {
		ck = 0xffff
	}
	binary.BigEndian.PutUint16(out[6:8], ck)
	return out
}

func BuildICMP(typ, code uint8, id, seq uint16, payload []byte) []byte {
	out := make([]byte, 8+len(payload))
	out[0], out[1] = typ, code
	binary.BigEndian.PutUint16(out[4:6], id)
	binary.BigEndian.PutUint16(out[6:8], seq)
	copy(out[8:], payload)
	binary.BigEndian.PutUint16(out[2:4], Checksum(out))
	return out
}

func BuildARP(op uint16, sha [6]byte, spa [4]byte, tha [6]byte, tpa [4]byte) []byte {
	out := make([]byte, 28)
	binary.BigEndian.PutUint16(out[0:2], 1)
	binary.BigEndian.PutUint16(out[2:4], EtherTypeIPv4)
	out[4], out[5] = 6, 4
	binary.BigEndian.PutUint16(out[6:8], op)
	copy(out[8:14], sha[:])
	copy(out[14:18], spa[:])
	copy(out[18:24], tha[:])
	copy(out[24:28], tpa[:])
	return out
}

// BuildARPRaw builds an ARP body with arbitrary address sizes.
func BuildARPRaw(htype, ptype uint16, hlen, plen uint8, op uint16, sha, spa, tha, tpa []byte) []byte {
	out := make([]byte, 8, 8+len(sha)+len(spa)+len(tha)+len(tpa))
	binary.BigEndian.PutUint16(out[0:2], htype)
	binary.BigEndian.PutUint16(out[2:4], ptype)
	out[4], out[5] = hlen, plen
	binary.BigEndian.PutUint16(out[6:8], op)
	out = append(out, sha...)
	out = append(out, spa...)
	out = append(out, tha...)
	out = append(out, tpa...)
	return out
}

// FlagString renders TCP flags in the letter order sx documents: s a f r p u e c n.
func FlagString(f uint16) string {
	s := ""
	for _, x := range []struct {
		bit uint16
		c   byte
	}{{FlagSYN, 's'}, {FlagACK, 'a'}, {FlagFIN, 'f'}, {FlagRST, 'r'}, {FlagPSH, 'p'}, {FlagURG, 'u'}, {FlagECE, 'e'}, {FlagCWR, 'c'}, {FlagNS, 'n'}} {
		if f&x.bit != 0 {
			s += string(x.c)
		}
	}
	return s
}

func IPString(a [4]byte) string { return fmt.Sprintf("%d.%d.%d.%d", a[0], a[1], a[2], a[3]) }

func MACString(m []byte) string {
	s := ""
	for i, b := range m {
		if i > 0 {
			s += ":"
		}
		s += fmt.Sprintf("%02x", b)
	}
	return s
}

func U32ToIP(v uint32) [4]byte { return [4]byte{byte(v >> 24), byte(v >> 16), byte(v >> 8), byte(v)} }
func IPToU32(a [4]byte) uint32 {
	return uint32(a[0])<<24 | uint32(a[1])<<16 | uint32(a[2])<<8 | uint32(a[3])
}

// ---------------------------------------------------------------------------
// Three-valued header-chain classification (C06).

type Tri int

const (
	No        Tri = iota // the frame definitely lacks the chain
	Yes                  // the frame definitely has a well-formed chain
	Ambiguous            // the statement is silent (inconsistent lengths, nesting, bad checksums, first fragments …)
)

func (t Tri) String() string { return [...]string{"no", "yes", "ambiguous"}[t] }

// HasIPChain says whether b contains the chain [Ethernet] IPv4 -> proto (TCP or ICMP) with the
// transport fixed header fully present.
func HasIPChain(b []byte, link Link, proto uint8) Tri {
	d := Decode(b, link)
	if link == LinkEthernet && (d.Eth == nil || d.Eth.Type != EtherTypeIPv4) {
		return No
	}
	ip := d.IP
	if ip == nil || ip.Version != 4 || ip.IHL < 5 || ip.HeaderLen > ip.HeaderLen+ip.PayloadAvail && false {
		return No
	}
	off := 0
	if link == LinkEthernet {
		off = 14
	}
	if off+ip.HeaderLen > len(b) {
		return No
	}
	if ip.FragOff != 0 {
		return No // a later fragment carries no transport header
	}
	minT := 8
	if proto == ProtoTCP {
		minT = 20
	}
	if ip.Proto == ProtoIPIP {
		// nested IPv4: the statement names the chain "IPv4 then TCP/ICMP"; an encapsulated
		// chain is a don't-care as long as all fields come from this frame
		if len(d.Inner) > 0 {
			in := d.Inner[len(d.Inner)-1]
			if in.Proto == proto && (proto == ProtoTCP && d.TCP != nil || proto == ProtoICMP && d.ICMP != nil) {
				return Ambiguous
			}
		}
		return No
	}
	if ip.Proto != proto {
		return No
	}
	if ip.PayloadAvail < minT {
		return No // transport fixed header not physically present
	}
	tl := int(ip.TotalLen)
	if ip.Flags&1 != 0 || !ip.ChecksumOK || tl < ip.HeaderLen+minT || off+tl > len(b) {
		return Ambiguous
	}
	if proto == ProtoTCP {
		if d.TCP == nil || d.TCP.DataOff < 5 || int(d.TCP.DataOff)*4 > tl-ip.HeaderLen {
			return Ambiguous
		}
	}
	return Yes
}

// HasARPChain: Ethernet / ARP for IPv4 over Ethernet with 6-byte hardware and 4-byte protocol addresses.
func HasARPChain(b []byte) Tri {
	d := Decode(b, LinkEthernet)
	if d.Eth == nil || d.Eth.Type != EtherTypeARP || d.ARP == nil {
		return No
	}
	a := d.ARP
	if a.HLen != 6 || a.PLen != 4 {
		return No
	}
	if a.SHA == nil {
		return No // truncated
	}
	if a.HType != 1 || a.PType != EtherTypeIPv4 {
		return Ambiguous
	}
	return Yes
}
