package oracle

import (
	"strings"
	"time"
)

// RefRate is the reference reading of a --rate argument: "N" (per second) or "N/W" where W
// is a Go-style duration ("7s", "250ms", "1.5s", "1h30m") or a bare unit ("s", "ms" = one unit).
// ok=false: outside the reference grammar (the implementation must reject it, or it is a
// documented don't-care – see RateDontCare).
func RefRate(s string) (n int64, w time.Duration, ok bool) {
	parts := strings.Split(s, "/")
	if len(parts) > 2 {
		return 0, 0, false
	}
	n, ok = refDecimal(parts[0], 1<<31-1)
	if !ok {
		return 0, 0, false
	}
	if len(parts) == 1 {
		return n, time.Second, true
	}
	win := parts[1]
	if u, isUnit := refUnits[win]; isUnit {
		return n, u, true
	}
	d, ok := RefDuration(win)
	if !ok {
		return 0, 0, false
	}
	return n, d, true
}

var refUnits = map[string]time.Duration{
	"ns": time.Nanosecond, "us": time.Microsecond, "µs": time.Microsecond, "μs": time.Microsecond,
	"ms": time.Millisecond, "s": time.Second, "m": time.Minute, "h": time.Hour,
}

// refDecimal: one or more ASCII digits, value <= max.
func refDecimal(s string, max int64) (int64, bool) {
	if len(s) == 0 || len(s) > 18 {
		return 0, false
	}
	var v int64
	for i := 0; i < len(s); i++ {
		c := s[i]
		if c < '0' || c > '9' {
			return 0, false
		}
		v = v*10 + int64(c-'0')
	}
	if v > max {
		return 0, false
	}
	return v, true
}

// RefDuration parses an unsigned Go duration: one or more  number unit  groups, number =
// digits[.digits] or .digits; computed in exact integer nanoseconds (fraction truncated per group).
func RefDuration(s string) (time.Duration, bool) {
	if s == "" {
		return 0, false
	}
	if s == "0" {
		return 0, true
	}
	var total int64
	i := 0
	for i < len(s) {
		// integer part
		var ip int64
		nd := 0
		for i < len(s) && s[i] >= '0' && s[i] <= '9' {
			if ip > (1<<62)/10 {
				return 0, false
			}
			ip = ip*10 + int64(s[i]-'0')
			i++
			nd++
		}
		var fnum, fden int64 = 0, 1
		nf := 0
		if i < len(s) && s[i] == '.' {
			i++
			for i < len(s) && s[i] >= '0' && s[i] <= '9' {
				if fden < 1e15 {
					fnum = fnum*10 + int64(s[i]-'0')
					fden *= 10
				}
				i++
				nf++
			}
		}
		if nd == 0 && nf == 0 {
			return 0, false
		}
		// unit: longest match
		j := i
		for j < len(s) && s[j] != '.' && (s[j] < '0' || s[j] > '9') {
			j++
		}
		u, ok := refUnits[s[i:j]]
		if !ok {
			return 0, false
		}
		i = j
		if ip > (1<<62)/int64(u) {
			return 0, false
		}
		g := ip * int64(u)
		if fnum > 0 {
			g += int64(float64(fnum) * (float64(u) / float64(fden)))
		}
		if total > (1<<62)-g {
			return 0, false
		}
		total += g
	}
	return time.Duration(total), true
}
