package oracle

import (
	"strings"
	"time"
)

// RefRate is the reference reading of a --rate argument: "N" (per second) or "N/W" where W
// is a Go-style duration ("7s", "250ms", "1.5s", "1h30m") or a bare unit ("s", "ms" = one unit).
// ok=false: outside the reference grammar (the implementation must reject it, or it is a
// documented don't-care – see RateDontCare).
func RefRate(s string) (n int64, w time.Duration, ok bool) {
	parts := strings.Split(s, "/")
	if len(parts) > 2 {
		return 0, 0, false
	}
	n, ok = refDecimal(parts[0], 1<<31-1)
	if !ok {
		return 0, 0, false
	}
	if len(parts) == 1 {
		return n, time.Second, true
	}
	win := parts[1]
	if u, isUnit := refUnits[win]; isUnit {
		return n, u, true
	}
	d, ok := RefDuration(win)
	if !ok {
		return 0, 0, false
	}
	return n, d, true
}

var refUnits = map[string]time.Duration{
	"ns": time.Nanosecond, "us": time.Microsecond, "µs": time.Microsecond, "μs": time.Microsecond,
	"ms": time.Millisecond, "s": time.Second, "m": time.Minute, "h": time.Hour,
}

// refDecimal: one or more ASCII digits, value <= max.
func refDecimal(s string, max int64) (int64, bool) {
	if len(s) == 0 || len(s) > 18 {
		return 0, false
	}
	var v int64
	for i := 0; i < len(s); i++ {
		c := s[i]
		if c < '0' || c > '9' {
			return 0, false
		}
		v = v*10 + int64(c-'0')
	}
	if v > max {
		return 0, false
	}
	return v, true
}

// RefDuration parses an unsigned Go duration: one or more  number unit  groups, number =
// digits[.digits] or .digits; computed in exact integer nanoseconds (fraction truncated per group).
func RefDuration(s string) (time.Duration, bool) {
	if s == "" {
		return 0, false
	}
	if s == "0" {
		return 0, true
	}
	var total int64
	i := 0
	for i < len(s) {
		// integer part
		var ip int64
		nd := 0
		for i < len(s) && s[i] >= '0' && s[i] <= '9' {
			if ip > ((1<<63-1)-int64(s[i]-'0'))/10 {
				return 0, false
			}
			ip = ip*10 + int64(s[i]-'0')
			i++
			nd++
		}
		var fnum, fden int64 = 0, 1
		nf := 0
		if i < len(s) && s[i] == '.' {
			i++
			for i < len(s) && s[i] >= '0' && s[i] <= '9' {
				if fden < 1e15 {
					fnum = fnum*10 + int64(s[i]-'0')
					fden *= 10
				}
				i++
				nf++
			}
		}
		if nd == 0 && nf == 0 {
			return 0, false
		}
		// unit: longest match
		j := i
		for j < len(s) && s[j] != '.' && (s[j] < '0' || s[j] > '9') {
			j++
		}
		u, ok := refUnits[s[i:j]]
		if !ok {
			return 0, false
		}
		i = j
		if ip > (1<<63-1)/int64(u) {
			return 0, false
		}
		g := ip * int64(u)
		if fnum > 0 {
			g += int64(float64(fnum) * (float64(u) / float64(fden)))
		}
		if g < 0 || total > (1<<63-1)-g {
			return 0, false
		}
		total += g
	}
	return time.Duration(total), true
}

// ---------------------------------------------------------------------------
// C18: liberal denotations. A string has a *liberal* denotation when a reasonable parser
// could accept it with an unambiguous value (surrounding blanks, a '+' sign, leading zeros);
// it has a *strict* (canonical) form when it is exactly how the value is normally written.
// Oracle: accepted => liberal denotation exists and equals the returned value;
//         strict => must be accepted. Everything in between is don't-care.

// LibDecimal: optional blanks, optional '+', one or more ASCII digits, optional blanks.
// strict is true when the string is the canonical rendering (no blanks, sign or leading zeros).
func LibDecimal(s string, max uint64) (v uint64, ok, strict bool) {
	t := strings.Trim(s, " \t")
	strict = t == s
	neg := false
	if strings.HasPrefix(t, "+") {
		t = t[1:]
		strict = false
	} else if strings.HasPrefix(t, "-") {
		// "-0" is zero; any other negative number has no denotation here
		t = t[1:]
		strict = false
		neg = true
	}
	if len(t) == 0 {
		return 0, false, false
	}
	if neg && strings.Trim(t, "0") != "" {
		return 0, false, false
	}
	if len(t) > 1 && t[0] == '0' {
		strict = false
	}
	for i := 0; i < len(t); i++ {
		c := t[i]
		if c < '0' || c > '9' {
			return 0, false, false
		}
		if v > (1<<63)/10 {
			return 0, false, false
		}
		v = v*10 + uint64(c-'0')
	}
	if v > max {
		return 0, false, false
	}
	return v, true, strict
}

// LibPortRange: bound | bound "-" bound.
func LibPortRange(item string) (r PortRange, ok, strict bool) {
	ps := strings.Split(item, "-")
	if len(ps) > 2 {
		return r, false, false
	}
	a, ok, st := LibDecimal(ps[0], 65535)
	if !ok {
		return r, false, false
	}
	r = PortRange{uint16(a), uint16(a)}
	if len(ps) == 2 {
		b, ok2, st2 := LibDecimal(ps[1], 65535)
		if !ok2 {
			return r, false, false
		}
		r.End = uint16(b)
		st = st && st2
	}
	return r, true, st
}

// LibPortList: ranges separated by ','.
func LibPortList(s string) (out []PortRange, ok, strict bool) {
	strict = true
	for _, item := range strings.Split(s, ",") {
		r, ok, st := LibPortRange(item)
		if !ok {
			return nil, false, false
		}
		strict = strict && st
		out = append(out, r)
	}
	return out, true, strict
}

// LibLines: file conventions ('#' comment, blanks trimmed, empty lines skipped, LF or CRLF).
// long is true when some raw line exceeds 65535 bytes (bufio.Scanner's default limit: a
// parser may refuse such a file).
func LibLines(content string) (lines []string, long bool) {
	for _, l := range strings.Split(content, "\n") {
		if len(l) >= 65535 {
			long = true
		}
		l = strings.TrimSuffix(l, "\r")
		if i := strings.IndexByte(l, '#'); i >= 0 {
			l = l[:i]
		}
		l = strings.Trim(l, " ")
		if l == "" {
			continue
		}
		lines = append(lines, l)
	}
	return
}

// LibRate: count ["/" window]; count liberal decimal; window = bare unit | Go duration with
// an optional '+'. precise=false when the window has a long fraction (float rounding of the
// two implementations may legitimately differ by a nanosecond): the value is then not compared.
func LibRate(s string) (n uint64, w time.Duration, ok, strict, precise bool) {
	precise = true
	parts := strings.Split(s, "/")
	if len(parts) > 2 {
		return
	}
	var st bool
	n, ok, st = LibDecimal(parts[0], 1<<63-1)
	if !ok {
		return 0, 0, false, false, true
	}
	strict = st && n >= 1 && n <= 1<<31-1
	if len(parts) == 1 {
		return n, time.Second, true, strict, true
	}
	win := strings.Trim(parts[1], " \t")
	if win != parts[1] {
		strict = false
	}
	if strings.HasPrefix(win, "+") {
		win = win[1:]
		strict = false
	}
	if u, isUnit := refUnits[win]; isUnit {
		return n, u, true, strict, true
	}
	if len(win) > 0 && win[0] != '.' && (win[0] < '0' || win[0] > '9') {
		// a leading bare unit followed by more groups ("h30m"): readable as one unit + the rest
		win = "1" + win
		strict = false
	}
	d, dok := RefDuration(win)
	if !dok {
		return 0, 0, false, false, true
	}
	if i := strings.IndexByte(win, '.'); i >= 0 {
		// count fraction digits of the longest fraction
		maxf := 0
		for j := 0; j < len(win); j++ {
			if win[j] == '.' {
				k := j + 1
				for k < len(win) && win[k] >= '0' && win[k] <= '9' {
					k++
				}
				if k-j-1 > maxf {
					maxf = k - j - 1
				}
			}
		}
		if maxf > 6 {
			precise = false
		}
		if win[0] == '.' || maxf == 0 {
			strict = false // ".5s", "1.s" are legal Go durations but not canonical
		}
	}
	if len(win) > 1 && win[0] == '0' && win[1] >= '0' && win[1] <= '9' {
		strict = false
	}
	if d == 0 {
		strict = false
	}
	return n, d, true, strict, precise
}

// LibUnquote is an independent reading of Go interpreted-string escapes (the mechanism
// --payload documents): \a \b \f \n \r \t \v \\ \" \xHH \OOO \uXXXX \UXXXXXXXX; raw bytes
// other than '"', '\\' and newline stand for themselves. rawInvalid reports raw non-UTF-8 input
// (don't-care). ok=false: no denotation.
func LibUnquote(s string) (out []byte, ok, rawInvalid bool) {
	i := 0
	hexv := func(c byte) int {
		switch {
		case c >= '0' && c <= '9':
			return int(c - '0')
		case c >= 'a' && c <= 'f':
			return int(c-'a') + 10
		case c >= 'A' && c <= 'F':
			return int(c-'A') + 10
		}
		return -1
	}
	for i < len(s) {
		c := s[i]
		switch {
		case c == '"' || c == '\n':
			return nil, false, rawInvalid
		case c != '\\':
			if c >= 0x80 {
				// raw multi-byte: validate UTF-8 by hand
				n := utf8Len(s[i:])
				if n == 0 {
					rawInvalid = true
					out = append(out, c)
					i++
					continue
				}
				out = append(out, s[i:i+n]...)
				i += n
				continue
			}
			out = append(out, c)
			i++
			continue
		}
		i++
		if i >= len(s) {
			return nil, false, rawInvalid
		}
		e := s[i]
		i++
		switch e {
		case 'a':
			out = append(out, 7)
		case 'b':
			out = append(out, 8)
		case 'f':
			out = append(out, 12)
		case 'n':
			out = append(out, 10)
		case 'r':
			out = append(out, 13)
		case 't':
			out = append(out, 9)
		case 'v':
			out = append(out, 11)
		case '\\':
			out = append(out, '\\')
		case '"':
			out = append(out, '"')
		case 'x':
			if i+2 > len(s) || hexv(s[i]) < 0 || hexv(s[i+1]) < 0 {
				return nil, false, rawInvalid
			}
			out = append(out, byte(hexv(s[i])<<4|hexv(s[i+1])))
			i += 2
		case 'u', 'U':
			n := 4
			if e == 'U' {
				n = 8
			}
			if i+n > len(s) {
				return nil, false, rawInvalid
			}
			var v uint32
			for k := 0; k < n; k++ {
				h := hexv(s[i+k])
				if h < 0 {
					return nil, false, rawInvalid
				}
				v = v<<4 | uint32(h)
			}
			i += n
			if v > 0x10FFFF || (v >= 0xD800 && v <= 0xDFFF) {
				return nil, false, rawInvalid
			}
			out = appendUTF8(out, v)
		case '0', '1', '2', '3', '4', '5', '6', '7':
			if i+2 > len(s) {
				return nil, false, rawInvalid
			}
			v := int(e - '0')
			for k := 0; k < 2; k++ {
				d := s[i+k]
				if d < '0' || d > '7' {
					return nil, false, rawInvalid
				}
				v = v<<3 | int(d-'0')
			}
			i += 2
			if v > 255 {
				return nil, false, rawInvalid
			}
			out = append(out, byte(v))
		default:
			return nil, false, rawInvalid
		}
	}
	return out, true, rawInvalid
}

func utf8Len(s string) int {
	c := s[0]
	var n int
	var min uint32
	var v uint32
	switch {
	case c&0xE0 == 0xC0:
		n, min, v = 2, 0x80, uint32(c&0x1F)
	case c&0xF0 == 0xE0:
		n, min, v = 3, 0x800, uint32(c&0x0F)
	case c&0xF8 == 0xF0:
		n, min, v = 4, 0x10000, uint32(c&0x07)
	default:
		return 0
	}
	if len(s) < n {
		return 0
	}
	for k := 1; k < n; k++ {
		if s[k]&0xC0 != 0x80 {
			return 0
		}
		v = v<<6 | uint32(s[k]&0x3F)
	}
	if v < min || v > 0x10FFFF || (v >= 0xD800 && v <= 0xDFFF) {
		return 0
	}
	return n
}

func appendUTF8(out []byte, v uint32) []byte {
	switch {
	case v < 0x80:
		return append(out, byte(v))
	case v < 0x800:
		return append(out, byte(0xC0|v>>6), byte(0x80|v&0x3F))
	case v < 0x10000:
		return append(out, byte(0xE0|v>>12), byte(0x80|(v>>6)&0x3F), byte(0x80|v&0x3F))
	}
	return append(out, byte(0xF0|v>>18), byte(0x80|(v>>12)&0x3F), byte(0x80|(v>>6)&0x3F), byte(0x80|v&0x3F))
}
