package oracle

import (
	"strings"
)

// ---------------------------------------------------------------------------
// Reference target-set semantics (C01, C02, C13): plain uint32 arithmetic, linear scans.

type CIDR struct {
	Base uint32 // already masked
	Bits int
}

func (c CIDR) Mask() uint32 {
	if c.Bits == 0 {
		return 0
	}
	return ^uint32(0) << uint(32-c.Bits)
}

func (c CIDR) Contains(a uint32) bool { return a&c.Mask() == c.Base }
func (c CIDR) Size() uint64           { return uint64(1) << uint(32-c.Bits) }
func (c CIDR) String() string         { return IPString(U32ToIP(c.Base)) + "/" + itoa(c.Bits) }

func itoa(n int) string {
	if n == 0 {
		return "0"
	}
	s := ""
	for n > 0 {
		s = string(rune('0'+n%10)) + s
		n /= 10
	}
	return s
}

type PortRange struct{ Start, End uint16 }

type TargetClass int

const (
	TargetInvalid  TargetClass = iota // must be refused
	TargetValid                       // strict IPv4 / IPv4-CIDR: must be accepted with exactly this value
	TargetDontCare                    // the statement is silent (leading zeros, surrounding blanks)
)

// RefIPv4 parses a strict dotted quad: four decimal octets 0..255, no leading zeros, nothing else.
func RefIPv4(s string) (uint32, bool) {
	parts := strings.Split(s, ".")
	if len(parts) != 4 {
		return 0, false
	}
	var v uint32
	for _, p := range parts {
		if len(p) == 0 || len(p) > 3 || (len(p) > 1 && p[0] == '0') {
			return 0, false
		}
		n := 0
		for i := 0; i < len(p); i++ {
			if p[i] < '0' || p[i] > '9' {
				return 0, false
			}
			n = n*10 + int(p[i]-'0')
		}
		if n > 255 {
			return 0, false
		}
		v = v<<8 | uint32(n)
	}
	return v, true
}

// RefTarget classifies a target argument (address or CIDR) by the strict reference grammar.
func RefTarget(s string) (CIDR, TargetClass) {
	if strings.Contains(s, ":") {
		return CIDR{}, TargetInvalid // every IPv6 form
	}
	addr, pfx := s, ""
	hasPfx := false
	if i := strings.IndexByte(s, '/'); i >= 0 {
		addr, pfx, hasPfx = s[:i], s[i+1:], true
	}
	a, ok := RefIPv4(addr)
	if !ok {
		if looseIPv4(addr) && (!hasPfx || loosePrefix(pfx)) {
			return CIDR{}, TargetDontCare
		}
		return CIDR{}, TargetInvalid
	}
	if !hasPfx {
		return CIDR{Base: a, Bits: 32}, TargetValid
	}
	if len(pfx) == 0 || len(pfx) > 2 || (len(pfx) > 1 && pfx[0] == '0') {
		if loosePrefix(pfx) {
			return CIDR{}, TargetDontCare
		}
		return CIDR{}, TargetInvalid
	}
	n := 0
	for i := 0; i < len(pfx); i++ {
		if pfx[i] < '0' || pfx[i] > '9' {
			return CIDR{}, TargetInvalid
		}
		n = n*10 + int(pfx[i]-'0')
	}
	if n > 32 {
		return CIDR{}, TargetInvalid
	}
	c := CIDR{Bits: n}
	c.Base = a & c.Mask()
	return c, TargetValid
}

// looseIPv4: digits and dots only, four parts, each <= 255 when read as decimal (leading zeros allowed).
func looseIPv4(s string) bool {
	s = strings.Trim(s, " \t")
	parts := strings.Split(s, ".")
	if len(parts) != 4 {
		return false
	}
	for _, p := range parts {
		if len(p) == 0 || len(p) > 6 {
			return false
		}
		n := 0
		for i := 0; i < len(p); i++ {
			if p[i] < '0' || p[i] > '9' {
				return false
			}
			n = n*10 + int(p[i]-'0')
		}
		if n > 255 {
			return false
		}
	}
	return true
}

func loosePrefix(s string) bool {
	s = strings.Trim(s, " \t")
	if len(s) == 0 || len(s) > 4 {
		return false
	}
	n := 0
	for i := 0; i < len(s); i++ {
		if s[i] < '0' || s[i] > '9' {
			return false
		}
		n = n*10 + int(s[i]-'0')
	}
	return n <= 32
}

// RefPortList parses "a,b-c,…": each item a decimal port or start-end; digits only; <= 65535.
func RefPortList(s string) ([]PortRange, bool) {
	var out []PortRange
	for _, item := range strings.Split(s, ",") {
		r, ok := RefPortRange(item)
		if !ok {
			return nil, false
		}
		out = append(out, r)
	}
	return out, true
}

func RefPortRange(item string) (PortRange, bool) {
	ps := strings.Split(item, "-")
	if len(ps) > 2 {
		return PortRange{}, false
	}
	a, ok := refDecimal(ps[0], 65535)
	if !ok {
		return PortRange{}, false
	}
	r := PortRange{uint16(a), uint16(a)}
	if len(ps) == 2 {
		b, ok := refDecimal(ps[1], 65535)
		if !ok {
			return PortRange{}, false
		}
		r.End = uint16(b)
	}
	return r, true
}

// refLines applies the documented file conventions: '#' starts a comment, blanks are trimmed,
// empty lines are skipped.
func refLines(content string) []string {
	var out []string
	for _, l := range strings.Split(content, "\n") {
		if i := strings.IndexByte(l, '#'); i >= 0 {
			l = l[:i]
		}
		l = strings.Trim(l, " ")
		if l == "" {
			continue
		}
		out = append(out, l)
	}
	return out
}

// RefPortsFile: one port or range per line.
func RefPortsFile(content string) ([]PortRange, bool) {
	var out []PortRange
	for _, l := range refLines(content) {
		r, ok := RefPortRange(l)
		if !ok {
			return nil, false
		}
		out = append(out, r)
	}
	return out, true
}

// RefExcludeFile: one address or CIDR per line. class is the weakest class of any line.
func RefExcludeFile(content string) ([]CIDR, TargetClass) {
	var out []CIDR
	cls := TargetValid
	for _, l := range refLines(content) {
		c, k := RefTarget(l)
		switch k {
		case TargetInvalid:
			return nil, TargetInvalid
		case TargetDontCare:
			cls = TargetDontCare
		}
		out = append(out, c)
	}
	return out, cls
}

func Excluded(a uint32, ex []CIDR) bool {
	for _, c := range ex {
		if c.Contains(a) {
			return true
		}
	}
	return false
}

// Key packs (address, port) for multiset maps.
func Key(a uint32, port uint16) uint64 { return uint64(a)<<16 | uint64(port) }

// ExpectSubnetPorts adds the reference multiset of a subnet x port-range list minus exclusions.
// Overlapping/duplicated ranges count with multiplicity, as the statement says.
func ExpectSubnetPorts(m map[uint64]int32, c CIDR, ports []PortRange, ex []CIDR) {
	first := uint64(c.Base)
	for i := uint64(0); i < c.Size(); i++ {
		a := uint32(first + i)
		if Excluded(a, ex) {
			continue
		}
		if ports == nil {
			m[Key(a, 0)]++
			continue
		}
		for _, r := range ports {
			for p := uint32(r.Start); p <= uint32(r.End); p++ {
				m[Key(a, uint16(p))]++
			}
		}
	}
}

// ExpectAddrsPorts: a list of addresses (with multiplicity) x port ranges.
func ExpectAddrsPorts(m map[uint64]int32, addrs []uint32, ports []PortRange, ex []CIDR) {
	for _, a := range addrs {
		if Excluded(a, ex) {
			continue
		}
		if ports == nil {
			m[Key(a, 0)]++
			continue
		}
		for _, r := range ports {
			for p := uint32(r.Start); p <= uint32(r.End); p++ {
				m[Key(a, uint16(p))]++
			}
		}
	}
}

// DiffMultiset returns a short description of the first differences (missing / extra / repeated).
func DiffMultiset(exp, got map[uint64]int32, limit int) (missing, extra, repeated []uint64) {
	for k, n := range exp {
		g := got[k]
		if g < n && len(missing) < limit {
			missing = append(missing, k)
		}
		if g > n && len(repeated) < limit {
			repeated = append(repeated, k)
		}
	}
	for k := range got {
		if _, ok := exp[k]; !ok && len(extra) < limit {
			extra = append(extra, k)
		}
	}
	return
}

func KeyString(k uint64) string {
	return IPString(U32ToIP(uint32(k>>16))) + ":" + itoa(int(k&0xffff))
}
