#!/bin/bash
# Build the driver and warm the Go build cache (race-instrumented std + dependencies), offline.
set -u
cd "$(dirname "$0")"
export GOFLAGS=-mod=mod GOPROXY=off GOSUMDB=off GOTOOLCHAIN=local
mkdir -p bin evidence
go build -o bin/vcheck ./cmd/vcheck || exit 1
# warm: build every lab test binary once from the current tree (result discarded)
VERIF_WARM=1 ./bin/vcheck warm || true
exit 0
