#!/bin/bash
# tools/allchecks.sh <patch.diff> [tier]   run every property's check against a patched scratch copy of /repo
# (development aid for false-alarm hunting with property-preserving changes; not a registered check)
set -u
export GOFLAGS=-mod=mod GOPROXY=off GOSUMDB=off GOTOOLCHAIN=local
patch=$(readlink -f "$1"); tier=${2:-quick}
d=$(mktemp -d /tmp/sxall-XXXXXX)
trap 'rm -rf "$d"' EXIT
rsync -a --exclude .git /repo/ "$d/repo/"
( cd "$d/repo" && patch -p1 --no-backup-if-mismatch < "$patch" >/dev/null ) || { echo "ALLCHECKS: patch does not apply"; exit 3; }
( cd "$d/repo" && go build ./... && go test -vet=off -count=1 ./... >"$d/suite.log" 2>&1 ) || { echo "ALLCHECKS: suite fails with this patch"; tail -5 "$d/suite.log"; exit 4; }
cd "$(dirname "$0")/.."
for id in $(./bin/vcheck list | awk '/^C[0-9]+/{print $1}'); do
  VERIF_REPO="$d/repo" VERIF_NO_EVIDENCE=1 VERIF_REPLAY_DIR="$d/replays" ./check "$id" "$tier" >"$d/$id.log" 2>&1; rc=$?
  echo "ALLCHECKS $(basename "$patch") $id exit=$rc $(grep -E 'key=' "$d/$id.log" | awk '{print $1}' | sort -u | head -4 | tr '\n' ' ')"
  if [ $rc -ne 0 ]; then grep -E "VIOLATION|key=|COULD-NOT|OBSERVED|does not build" -A2 "$d/$id.log" | head -30 | sed 's/^/    /'; fi
done
