#!/usr/bin/env python3
"""tools/mkprompts.py <wave-number> <group>=<Cxx,Cxx,...> ...   write sub-agent prompts for a seeding wave to /tmp/sa/prompt<N>-<group>.txt
The prompt contains only the property text (from properties.jsonl) and one-line descriptions of changes
tried earlier (so that a wave does not repeat them) - nothing about the checks in /verif."""
import json, glob, os, sys
V = os.path.dirname(os.path.dirname(os.path.abspath(__file__)))
props = {json.loads(l)["id"]: json.loads(l) for l in open(os.path.join(V, "properties.jsonl")) if l.strip()}
n = sys.argv[1]
extra = os.environ.get("WAVE_GUIDANCE", "")
HEAD = open(os.path.join(V, "tools", "prompt_head.txt")).read()
for g in sys.argv[2:]:
    name, ids = g.split("=")
    out = HEAD.replace("@WT@", f"/tmp/sa/wt-{name}").replace("@N@", n).replace("@GUIDE@", extra)
    out += "\nPROPERTIES\n\n"
    for pid in ids.split(","):
        p = props[pid]
        out += f"Property {pid}: {p['title']}\n\nStatement: {p['statement']}\n\nQuantified over: {p['quantifier']['text']}\n\nWhy the existing tests cannot settle it: {p['why_tests_cant']}\n\n"
        a = p["anchors"]
        out += "Anchored in: " + ", ".join(a.get("files", [])) + "\n"
        out += "Mechanisms: " + "; ".join(f"{m['name']} ({m['where']})" for m in a.get("mechanism", [])) + "\n\n"
        tried = []
        for f in sorted(glob.glob(os.path.join(V, "seeded", pid + "-*", "meta.json"))):
            tried.append("  - " + json.load(open(f))["needs_to_manifest"][:330].replace("\n", " "))
        out += "Changes that were already tried for this property in earlier rounds (do NOT repeat these or close variants; pick a different mechanism, file or clause):\n" + "\n".join(tried) + "\n\n\n"
    os.makedirs("/tmp/sa", exist_ok=True)
    open(f"/tmp/sa/prompt{n}-{name}.txt", "w").write(out)
    print(f"/tmp/sa/prompt{n}-{name}.txt", len(out))
