#!/bin/bash
# tools/mutant.sh <patch.diff> <Cxx> [quick|thorough]   (development aid, not a registered check)
# Applies a patch to a throw-away copy of /repo, checks that it still builds and passes
# the repository's own suite (unless SKIP_SUITE=1), then runs one property's check against the copy.
set -u
export GOFLAGS=-mod=mod GOPROXY=off GOSUMDB=off GOTOOLCHAIN=local
spec=$1; prop=$2; tier=${3:-quick}
d=$(mktemp -d /tmp/sxmut-XXXXXX)
trap 'rm -rf "$d"' EXIT
rsync -a --exclude .git /repo/ "$d/repo/"
case "$spec" in
  sed:*) f=$(echo "$spec" | cut -d: -f2); e=$(echo "$spec" | cut -d: -f3-)
     before=$(md5sum "$d/repo/$f"); sed -i -E "$e" "$d/repo/$f"; after=$(md5sum "$d/repo/$f")
     [ "$before" = "$after" ] && { echo "MUTANT: sed changed nothing"; exit 3; }
     diff -u "/repo/$f" "$d/repo/$f" | head -${MUT_DIFF_LINES:-12} ;;
  *) patch=$(readlink -f "$spec")
     ( cd "$d/repo" && patch -p1 --no-backup-if-mismatch < "$patch" >/dev/null ) || { echo "MUTANT: patch does not apply"; exit 3; } ;;
esac
if [ -z "${SKIP_SUITE:-}" ]; then
  ( cd "$d/repo" && go build ./... && go test -vet=off -count=1 ./... >"$d/suite.log" 2>&1 ) || { echo "MUTANT: suite fails with this patch"; tail -20 "$d/suite.log"; exit 4; }
  echo "MUTANT: builds and passes the repository suite"
fi
cd "$(dirname "$0")/.."
VERIF_REPO="$d/repo" VERIF_NO_EVIDENCE=1 VERIF_REPLAY_DIR="$d/replays" ./check "$prop" "$tier"
rc=$?
echo "MUTANT: check exit=$rc"
exit $rc
