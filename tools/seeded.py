#!/usr/bin/env python3
"""tools/seeded.py import <Cxx> <N> <srcdir> "<needs>"   validate a sub-agent's seeded change and keep it under seeded/<Cxx>-<N>/
   tools/seeded.py run [<id> ...] [--tier quick]          run the property's check against kept seeded changes, update meta.json

Validation (import): on a throw-away copy of /repo (never /repo itself)
  (a) the patch applies, the tree builds and the repository's unedited suite passes;
  (b) the demonstration fails with the patch and (c) passes without it.
Development aid; not a registered check."""
import json, os, re, shutil, subprocess, sys, tempfile, time

ENV = dict(os.environ, GOFLAGS="-mod=mod", GOPROXY="off", GOSUMDB="off", GOTOOLCHAIN="local")
VERIF = os.path.dirname(os.path.dirname(os.path.abspath(__file__)))


def sh(cmd, cwd=None, timeout=1800):
    p = subprocess.run(cmd, shell=True, cwd=cwd, env=ENV, stdout=subprocess.PIPE, stderr=subprocess.STDOUT, text=True, errors="replace", timeout=timeout)
    return p.returncode, p.stdout


def copy_repo(d):
    sh(f"rsync -a --exclude .git /repo/ {d}/repo/")
    return os.path.join(d, "repo")


def demo_info(path):
    txt = open(path).read()
    place = re.search(r"//\s*place at:\s*(\S+)", txt)
    run = re.search(r"//\s*run:\s*(.+)", txt)
    return place.group(1), run.group(1).strip()


def do_import(prop, n, src, needs):
    patch = os.path.join(src, f"mutation{n}.diff")
    demo = os.path.join(src, f"demo{n}_test.go")
    place, runcmd = demo_info(demo)
    log = {}
    d = tempfile.mkdtemp(prefix="sxseed-")
    try:
        repo = copy_repo(d)
        rc, out = sh(f"patch -p1 --no-backup-if-mismatch < {patch}", cwd=repo)
        if rc != 0:
            print("patch does not apply:\n" + out)
            return 1
        rc, out = sh("go build ./... && go test -vet=off -count=1 ./...", cwd=repo)
        log["suite_with_patch"] = "pass" if rc == 0 else "FAIL"
        if rc != 0:
            print("suite fails with the patch:\n" + out[-2000:])
            return 1
        shutil.copy(demo, os.path.join(repo, place))
        rc, out = sh(runcmd, cwd=repo, timeout=600)
        log["demo_with_patch"] = "fails (as required)" if rc != 0 else "PASSES (not a demonstration)"
        if rc == 0:
            print("demo passes WITH the patch:\n" + out[-1500:])
            return 1
        log["demo_with_patch_tail"] = out[-600:]
        shutil.rmtree(repo)
        repo = copy_repo(d)
        shutil.copy(demo, os.path.join(repo, place))
        rc, out = sh(runcmd, cwd=repo, timeout=600)
        log["demo_without_patch"] = "passes (as required)" if rc == 0 else "FAILS"
        if rc != 0:
            print("demo fails WITHOUT the patch:\n" + out[-1500:])
            return 1
    finally:
        shutil.rmtree(d, ignore_errors=True)
    dst = os.path.join(VERIF, "seeded", f"{prop}-{n}")
    os.makedirs(dst, exist_ok=True)
    shutil.copy(patch, os.path.join(dst, "patch.diff"))
    shutil.copy(demo, os.path.join(dst, "demo_test.go"))
    meta = {"id": f"{prop}-{n}", "property": prop, "needs_to_manifest": needs, "demo_place_at": place, "demo_run": runcmd,
            "validated": log, "validated_on_repo_commit": sh("git -C /repo rev-parse --short HEAD")[1].strip(),
            "what_was_run": ["patch applied to a scratch copy of /repo", "go build ./... && go test -vet=off -count=1 ./...  (with patch)", runcmd + "  (with patch: must fail; without: must pass)"]}
    json.dump(meta, open(os.path.join(dst, "meta.json"), "w"), indent=1)
    print(f"kept as seeded/{prop}-{n}: {log}")
    return 0


def do_run(ids, tier):
    base = os.path.join(VERIF, "seeded")
    if not ids:
        ids = sorted(os.listdir(base))
    for i in ids:
        dst = os.path.join(base, i)
        meta = json.load(open(os.path.join(dst, "meta.json")))
        props = meta.get("checked_by", [meta["property"]])
        res = {}
        for prop in props:
            t0 = time.time()
            rc, out = sh(f"SKIP_SUITE=1 {VERIF}/tools/mutant.sh {dst}/patch.diff {prop} {tier}", cwd=VERIF, timeout=7200)
            keys = sorted(set(re.findall(r"key=(\S+)", out)))
            m = re.search(r"MUTANT: check exit=(\d+)", out)
            ex = int(m.group(1)) if m else rc
            res[prop] = {"exit": ex, "detected": ex == 1, "violation_keys": keys[:8], "tier": tier, "wall_s": round(time.time() - t0, 1)}
            print(f"{i:10s} {prop} {tier}: exit={ex} {'DETECTED' if ex == 1 else 'MISSED' if ex == 0 else 'COULD-NOT-RUN'} {keys[:4]}")
            if ex not in (0, 1):
                print(out[-1500:])
        meta["check_result"] = res
        json.dump(meta, open(os.path.join(dst, "meta.json"), "w"), indent=1)


if __name__ == "__main__":
    if sys.argv[1] == "import":
        sys.exit(do_import(sys.argv[2], sys.argv[3], sys.argv[4], sys.argv[5]))
    if sys.argv[1] == "run":
        tier = "quick"
        a = sys.argv[2:]
        if "--tier" in a:
            k = a.index("--tier")
            tier = a[k + 1]
            a = a[:k] + a[k + 2:]
        do_run(a, tier)
