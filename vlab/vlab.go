// Package vlab is the small runtime shared by every level-1 monitor ("lab test").
// It imports nothing from sx. A lab test is an in-package Go test, built with
// -race -tags verif inside a scratch copy of /repo, that runs the real code under
// a workload, feeds what it observes to an oracle and reports through this package:
//
//	run := vlab.Begin(t, "C07", "pipeline")
//	defer run.End()
//	run.Case(id, input)            // logged BEFORE the case runs (crash attribution)
//	run.Eval(1); run.Distinct(key) // coverage accounting
//	run.Violation(key, desc, witness)
//
// The driver (cmd/vcheck) sets VERIF_* and merges the per-batch report files.
package vlab

import (
	"encoding/json"
	"fmt"
	"hash/fnv"
	"math/rand"
	"os"
	"path/filepath"
	"runtime"
	"sort"
	"strconv"
	"strings"
	"sync"
	"time"
)

// Violation is one refuting observation.
type Violation struct {
	Key     string      `json:"key"`  // failing input class / call site (matched against KNOWN_FINDINGS.txt)
	Desc    string      `json:"desc"` // human readable
	Case    string      `json:"case"` // case id that was running
	Witness interface{} `json:"witness,omitempty"`
}

// Report is what one child process (one batch of one unit) writes.
type Report struct {
	Property     string           `json:"property"`
	Unit         string           `json:"unit"`
	Batch        int              `json:"batch"`
	NBatch       int              `json:"nbatch"`
	Tier         string           `json:"tier"`
	Seed         int64            `json:"seed"`
	Evaluations  int64            `json:"evaluations"`
	Distinct     int64            `json:"distinct_nontrivial"`
	Samples      []interface{}    `json:"samples"`
	Counters     map[string]int64 `json:"counters"`
	Violations   []Violation      `json:"violations"`
	Inconclusive []string         `json:"inconclusive"`
	Notes        []string         `json:"notes"`
	WallS        float64          `json:"wall_s"`
	Complete     bool             `json:"complete"`
}

// TB is the part of testing.TB that vlab needs (the wirelab process supplies its own).
type TB interface {
	Fatalf(format string, args ...interface{})
	Logf(format string, args ...interface{})
	TempDir() string
}

// Run is the handle of one batch.
type Run struct {
	t        TB
	mu       sync.Mutex
	rep      Report
	distinct map[uint64]struct{}
	start    time.Time
	outDir   string
	caseLog  *os.File
	curCase  string
	Replay   string // path of a replay file, "" normally
	maxViol  int
	sampleN  int
}

// Tier returns "quick" or "thorough".
func (r *Run) Tier() string { return r.rep.Tier }

// Thorough is true in the thorough tier.
func (r *Run) Thorough() bool { return r.rep.Tier == "thorough" }

// Seed is VERIF_SEED.
func (r *Run) Seed() int64 { return r.rep.Seed }

// Batch / NBatch identify the slice of the case space of this process.
func (r *Run) Batch() int  { return r.rep.Batch }
func (r *Run) NBatch() int { return r.rep.NBatch }

// Mine says whether case number i belongs to this batch.
func (r *Run) Mine(i int) bool { return i%r.rep.NBatch == r.rep.Batch }

// Pick returns q in the quick tier and t in the thorough tier.
func (r *Run) Pick(q, t int) int {
	if r.Thorough() {
		return t
	}
	return q
}

func envInt(name string, def int64) int64 {
	if v := os.Getenv(name); v != "" {
		if n, err := strconv.ParseInt(v, 10, 64); err == nil {
			return n
		}
	}
	return def
}

// Begin starts a batch. Without VERIF_OUT (i.e. when somebody runs the test by
// hand) the report goes to a temporary directory and is printed on End.
func Begin(t TB, property, unit string) *Run {
	r := &Run{t: t, distinct: map[uint64]struct{}{}, start: time.Now(), maxViol: 20, sampleN: 6}
	r.rep.Property = property
	r.rep.Unit = unit
	r.rep.Tier = os.Getenv("VERIF_TIER")
	if r.rep.Tier != "thorough" {
		r.rep.Tier = "quick"
	}
	r.rep.Seed = envInt("VERIF_SEED", 1)
	r.rep.Batch = int(envInt("VERIF_BATCH", 0))
	r.rep.NBatch = int(envInt("VERIF_NBATCH", 1))
	if r.rep.NBatch < 1 {
		r.rep.NBatch = 1
	}
	r.rep.Counters = map[string]int64{}
	r.outDir = os.Getenv("VERIF_OUT")
	if r.outDir == "" {
		r.outDir = t.TempDir()
	}
	r.Replay = os.Getenv("VERIF_REPLAY")
	if f, err := os.OpenFile(filepath.Join(r.outDir, r.base()+".case"), os.O_CREATE|os.O_WRONLY|os.O_TRUNC, 0o644); err == nil {
		r.caseLog = f
	}
	return r
}

func (r *Run) base() string {
	return fmt.Sprintf("%s-%s-%03d", r.rep.Property, r.rep.Unit, r.rep.Batch)
}

// OutDir is the directory where this batch may leave files (event logs etc.).
func (r *Run) OutDir() string { return r.outDir }

// Rand returns a PRNG determined by (VERIF_SEED, unit, salt) – never by time.
func (r *Run) Rand(salt string) *rand.Rand {
	h := fnv.New64a()
	fmt.Fprintf(h, "%d/%s/%s/%s", r.rep.Seed, r.rep.Property, r.rep.Unit, salt)
	return rand.New(rand.NewSource(int64(h.Sum64() >> 1)))
}

// Case records the case that is about to run. The record is written to the case
// log before the case executes so that a process-fatal crash (panic in a
// goroutine of sx, checkptr, concurrent map write) is attributed to it.
func (r *Run) Case(id string, input interface{}) {
	r.mu.Lock()
	r.curCase = id
	f := r.caseLog
	r.mu.Unlock()
	if f == nil {
		return
	}
	var b []byte
	if input != nil {
		b, _ = json.Marshal(input)
		if len(b) > 1<<16 {
			b = append(b[:1<<16:1<<16], []byte(`..."`)...)
		}
	}
	line := fmt.Sprintf("%-16s %s\n", id, b)
	// keep only the last record: rewrite from offset 0
	_ = f.Truncate(0)
	_, _ = f.WriteAt([]byte(line), 0)
}

// Mark is a cheap Case without input.
func (r *Run) Mark(id string) {
	r.mu.Lock()
	r.curCase = id
	r.mu.Unlock()
}

// Eval counts executions / inputs tried.
func (r *Run) Eval(n int) {
	r.mu.Lock()
	r.rep.Evaluations += int64(n)
	r.mu.Unlock()
}

// Distinct registers a case that is non-trivial by the unit's rule; it is counted once per key.
func (r *Run) Distinct(key string) {
	h := fnv.New64a()
	h.Write([]byte(key))
	k := h.Sum64()
	r.mu.Lock()
	r.distinct[k] = struct{}{}
	r.mu.Unlock()
}

// DistinctN adds n cases that are distinct by construction (e.g. an enumeration).
func (r *Run) DistinctN(n int) {
	r.mu.Lock()
	r.rep.Distinct += int64(n)
	r.mu.Unlock()
}

// Count adds to a named counter (events by kind, interleavings seen, …).
func (r *Run) Count(name string, n int64) {
	r.mu.Lock()
	r.rep.Counters[name] += n
	r.mu.Unlock()
}

// Max keeps the maximum of a named gauge.
func (r *Run) Max(name string, v int64) {
	r.mu.Lock()
	if v > r.rep.Counters[name] {
		r.rep.Counters[name] = v
	}
	r.mu.Unlock()
}

// Sample keeps a few actual cases for the evidence file.
func (r *Run) Sample(v interface{}) {
	r.mu.Lock()
	if len(r.rep.Samples) < r.sampleN {
		r.rep.Samples = append(r.rep.Samples, v)
	}
	r.mu.Unlock()
}

// WantSample says whether another sample would be kept.
func (r *Run) WantSample() bool {
	r.mu.Lock()
	defer r.mu.Unlock()
	return len(r.rep.Samples) < r.sampleN
}

// Violation records a refuting observation. key names the failing class.
func (r *Run) Violation(key, desc string, witness interface{}) {
	r.mu.Lock()
	defer r.mu.Unlock()
	r.rep.Counters["violations_total"]++
	// keep at most maxViol, but always at least one per key
	n := 0
	for _, v := range r.rep.Violations {
		if v.Key == key {
			n++
		}
	}
	if n >= 3 || len(r.rep.Violations) >= r.maxViol && n > 0 {
		return
	}
	r.rep.Violations = append(r.rep.Violations, Violation{Key: key, Desc: desc, Case: r.curCase, Witness: witness})
}

// Violations returns how many violations were recorded so far.
func (r *Run) Violations() int {
	r.mu.Lock()
	defer r.mu.Unlock()
	return int(r.rep.Counters["violations_total"])
}

// Inconclusive records a case whose verdict could not be decided (never folded into held/violated).
func (r *Run) Inconclusive(desc string) {
	r.mu.Lock()
	r.rep.Counters["inconclusive_total"]++
	if len(r.rep.Inconclusive) < 20 {
		r.rep.Inconclusive = append(r.rep.Inconclusive, desc)
	}
	r.mu.Unlock()
}

// Note adds free text to the report.
func (r *Run) Note(format string, a ...interface{}) {
	r.mu.Lock()
	if len(r.rep.Notes) < 50 {
		r.rep.Notes = append(r.rep.Notes, fmt.Sprintf(format, a...))
	}
	r.mu.Unlock()
}

// End writes the report file. A batch whose report is missing or not Complete
// is treated by the driver as crashed.
func (r *Run) End() {
	r.mu.Lock()
	r.rep.Distinct += int64(len(r.distinct))
	r.distinct = map[uint64]struct{}{}
	r.rep.WallS = time.Since(r.start).Seconds()
	r.rep.Complete = true
	b, _ := json.MarshalIndent(&r.rep, "", " ")
	r.mu.Unlock()
	p := filepath.Join(r.outDir, r.base()+".report.json")
	if err := os.WriteFile(p, b, 0o644); err != nil {
		r.t.Fatalf("vlab: cannot write report: %v", err)
	}
	if os.Getenv("VERIF_OUT") == "" {
		r.t.Logf("vlab report:\n%s", b)
	}
	if r.caseLog != nil {
		r.caseLog.Close()
	}
}

// ---------------------------------------------------------------------------
// Hang detection: the "provably parked" criterion of DESIGN.md section 1.

// Watch runs f; if it has not returned after limit, two goroutine dumps are taken
// 1 s apart. It returns ("", true) when f returned in time; (dump, false) when f
// is still running and every goroutine whose stack mentions pkgMarker is blocked
// with an identical stack in both dumps ("parked"); ("", false)+inconclusive
// otherwise (still making progress).
func (r *Run) Watch(limit time.Duration, pkgMarker string, f func()) (dump string, finished, parked bool) {
	done := make(chan struct{})
	go func() {
		defer close(done)
		f()
	}()
	select {
	case <-done:
		return "", true, false
	case <-time.After(limit):
	}
	a := relevantStacks(pkgMarker)
	select {
	case <-done:
		return "", true, false
	case <-time.After(time.Second):
	}
	b := relevantStacks(pkgMarker)
	select {
	case <-done:
		return "", true, false
	default:
	}
	// parked: nothing that mentions the code under test can run, now and a second later. A goroutine in time.Sleep
	// (the monitor's own slow sink, called from the code under test) will wake up by itself: that is slow, not parked.
	if a == b && a != "" && !strings.Contains(a, "[running]") && !strings.Contains(a, "[runnable]") && !sleepingUnderTest(a) {
		return a, false, true
	}
	return a + "\n----\n" + b, false, false
}

// sleepingUnderTest: some goroutine is in time.Sleep on behalf of the code under test - its stack has a frame in a
// source file of the code under test (not one of the monitor's own zz_verif files): e.g. the monitor's slow error
// sink called from the scan's error-draining goroutine. (The monitor's own tickers sleep too; they do not count.)
func sleepingUnderTest(stacks string) bool {
	for _, g := range strings.Split(stacks, "\n\n") {
		if !strings.HasPrefix(g, "[sleep]") {
			continue
		}
		// the sleep must have been issued by the monitor (a zz_verif frame) on a goroutine of the code under test
		// (a frame in one of its own source files): a time.Sleep of the code under test itself - an unbounded
		// back-off, say - is exactly what "parked" is meant to catch
		byMonitor, underTest := false, false
		for _, l := range strings.Split(g, "\n") {
			l = strings.TrimSpace(l)
			if strings.HasPrefix(l, "created by") {
				break
			}
			if !strings.Contains(l, ".go:") {
				continue
			}
			switch {
			case strings.Contains(l, "zz_verif"):
				byMonitor = true
			case strings.Contains(l, "/sx/") && !strings.Contains(l, "/vlab/"):
				underTest = true
			}
		}
		if byMonitor && underTest {
			return true
		}
	}
	return false
}

// relevantStacks returns the normalised stacks of all goroutines that mention marker.
func relevantStacks(marker string) string {
	buf := make([]byte, 1<<20)
	for {
		n := runtime.Stack(buf, true)
		if n < len(buf) {
			buf = buf[:n]
			break
		}
		buf = make([]byte, 2*len(buf))
	}
	var keep []string
	for _, g := range strings.Split(string(buf), "\n\n") {
		if !strings.Contains(g, marker) {
			continue
		}
		if strings.Contains(g, "vlab.relevantStacks") {
			continue
		}
		lines := strings.Split(g, "\n")
		// strip "goroutine N [state, M minutes]:" down to the state and drop addresses/offsets
		if len(lines) > 0 {
			h := lines[0]
			if i := strings.Index(h, "["); i >= 0 {
				st := h[i:]
				if j := strings.Index(st, ","); j >= 0 {
					st = st[:j] + "]:"
				}
				lines[0] = st
			}
		}
		for i, l := range lines {
			if j := strings.Index(l, " +0x"); j >= 0 {
				lines[i] = l[:j]
			}
			if j := strings.Index(l, "(0x"); j >= 0 {
				lines[i] = l[:j]
			}
		}
		keep = append(keep, strings.Join(lines, "\n"))
	}
	sort.Strings(keep)
	return strings.Join(keep, "\n\n")
}

// GoroutineCensus counts goroutines by creation site that mention marker.
func GoroutineCensus(marker string) map[string]int {
	buf := make([]byte, 1<<20)
	n := runtime.Stack(buf, true)
	out := map[string]int{}
	for _, g := range strings.Split(string(buf[:n]), "\n\n") {
		if !strings.Contains(g, marker) {
			continue
		}
		i := strings.LastIndex(g, "created by ")
		if i < 0 {
			continue
		}
		site := g[i+len("created by "):]
		if j := strings.Index(site, "\n"); j >= 0 {
			site = site[:j]
		}
		if j := strings.Index(site, " in goroutine"); j >= 0 {
			site = site[:j]
		}
		out[site]++
	}
	return out
}

// Hash64 is a convenience FNV-1a.
func Hash64(b []byte) uint64 {
	h := fnv.New64a()
	h.Write(b)
	return h.Sum64()
}

// HashStr hashes a string to a short hex id.
func HashStr(s string) string {
	return fmt.Sprintf("%016x", Hash64([]byte(s)))
}
