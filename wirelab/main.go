package main

import (
	"flag"
	"fmt"
	"os"
	"sort"
	"strings"

	"verif.local/v/oracle"
	"verif.local/v/vlab"
)

type tb struct{ dir string }

func (t *tb) Fatalf(format string, a ...interface{}) {
	fmt.Fprintf(os.Stderr, format+"\n", a...)
	os.Exit(3)
}
func (t *tb) Logf(format string, a ...interface{}) { fmt.Fprintf(os.Stderr, format+"\n", a...) }
func (t *tb) TempDir() string {
	if t.dir == "" {
		t.dir, _ = os.MkdirTemp("", "wirelab-")
	}
	return t.dir
}

var scenarios = map[string]func(run *vlab.Run, sx string, tmp string){}

func main() {
	sx := flag.String("sx", "", "path of the sx binary under test")
	scen := flag.String("scenario", "", "scenario set")
	flag.Parse()
	f, ok := scenarios[*scen]
	if !ok {
		var names []string
		for k := range scenarios {
			names = append(names, k)
		}
		sort.Strings(names)
		fmt.Fprintf(os.Stderr, "wirelab: unknown scenario %q (have %s)\n", *scen, strings.Join(names, " "))
		os.Exit(2)
	}
	// the namespace is private (unshare -n): loopback is down, nothing else exists
	if err := sh("ip", "link", "set", "lo", "up"); err != nil {
		fmt.Fprintf(os.Stderr, "wirelab: %v (not inside a private network namespace with CAP_NET_ADMIN?)\n", err)
		os.Exit(2)
	}
	t := &tb{}
	prop := os.Getenv("VERIF_PROP")
	if prop == "" {
		prop = "L2"
	}
	unit := os.Getenv("VERIF_UNITNAME")
	if unit == "" {
		unit = *scen
	}
	run := vlab.Begin(t, prop, unit)
	tmp, _ := os.MkdirTemp("", "wirelab-")
	defer os.RemoveAll(tmp)
	f(run, *sx, tmp)
	run.End()
	if run.Violations() > 0 {
		os.Exit(1)
	}
}

// ---- shared helpers

const (
	tapMAC = "02:00:00:00:00:07"
	gwMAC  = "02:00:00:00:00:01"
)

var tapMACb = [6]byte{2, 0, 0, 0, 0, 7}
var gwMACb = [6]byte{2, 0, 0, 0, 0, 1}

type probeKey struct {
	Addr uint32
	Port uint16
}

// decodeProbe classifies a transmitted frame as a probe of the given scan kind.
func decodeProbe(kind string, frame []byte, link oracle.Link) (d *oracle.Decoded, a uint32, port uint16, ok bool) {
	d = oracle.Decode(frame, link)
	switch {
	case kind == "arp" && d.ARP != nil && len(d.ARP.TPA) == 4:
		var b [4]byte
		copy(b[:], d.ARP.TPA)
		return d, oracle.IPToU32(b), 0, true
	case kind == "icmp" && d.ICMP != nil && d.IP != nil:
		return d, oracle.IPToU32(d.IP.Dst), 0, true
	case kind == "udp" && d.UDP != nil && d.IP != nil:
		return d, oracle.IPToU32(d.IP.Dst), d.UDP.DstPort, true
	case kind == "tcp" && d.TCP != nil && d.IP != nil:
		return d, oracle.IPToU32(d.IP.Dst), d.TCP.DstPort, true
	}
	return d, 0, 0, false
}

func writeFile(dir, name, content string) string {
	p := dir + "/" + name
	if err := os.WriteFile(p, []byte(content), 0o644); err != nil {
		panic(err)
	}
	return p
}

func ipS(a uint32) string { return oracle.IPString(oracle.U32ToIP(a)) }

func tailStr(s string, n int) string {
	if len(s) > n {
		return "…" + s[len(s)-n:]
	}
	return s
}

// baseChecks: what every run must satisfy regardless of the property under test. Returns false when
// the run cannot be judged (inconclusive) or crashed (violation recorded).
// hangs counts runs that got nowhere: after two of them a scenario stops (each costs a full watchdog period)
var hangs int

func tooManyHangs() bool { return hangs >= 2 }

func baseChecks(run *vlab.Run, res *CaseResult, desc interface{}, wantExit0 bool) bool {
	if res.SetupErr != "" {
		run.Inconclusive("setup failed: " + res.SetupErr)
		return false
	}
	if t := res.crashText(); t != "" {
		run.Violation("crash", "sx crashed: "+strings.SplitN(t, "\n", 2)[0], map[string]interface{}{"case": desc, "stderr": t})
		return false
	}
	if res.TimedOut {
		if res.Parked {
			run.Violation("no-exit", "sx did not exit: no CPU time and no frame during the last second (parked)", map[string]interface{}{"case": desc, "goroutines": tailStr(res.Dump, 60000)})
		} else if res.NTx == 0 && len(res.Stdout) == 0 {
			// "still making progress" by the CPU clock only: not one frame and not one line in the whole watchdog period
			hangs++
			run.Violation("no-frame-in-the-whole-run", "sx was still alive when the watchdog fired but had sent no frame and printed nothing in all that time (it spins without getting anywhere)", map[string]interface{}{"case": desc, "goroutines": tailStr(res.Dump, 60000)})
		} else {
			run.Inconclusive(fmt.Sprintf("watchdog fired while sx was still making progress: %v", desc))
		}
		return false
	}
	if res.TxDropped > 0 {
		run.Inconclusive(fmt.Sprintf("the virtual wire dropped %d frames: %v", res.TxDropped, desc))
		return false
	}
	if res.Undrained > 0 {
		run.Inconclusive(fmt.Sprintf("the monitor could not read %d queued frames from the virtual wire within a minute: %v", res.Undrained, desc))
		return false
	}
	if wantExit0 && res.ExitCode != 0 {
		run.Violation("exit-status", fmt.Sprintf("sx exited with status %d on a valid invocation; stderr: %s", res.ExitCode, tailStr(res.Stderr, 600)), desc)
		return false
	}
	return true
}
