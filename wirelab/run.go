package main

import (
	"bufio"
	"bytes"
	"fmt"
	"io"
	"net"
	"os"
	"os/exec"
	"strings"
	"sync"
	"sync/atomic"
	"syscall"
	"time"
)

// CaseSpec describes one run of the real binary.
type CaseSpec struct {
	Args     []string
	Stdin    []byte
	// StdinStalls: stdin is a pipe that delivers Stdin and then stays open without data (a stalled producer)
	StdinStalls bool
	// StdoutHold: nobody reads the scanner's stdout for this long (a slow consumer: the pipe fills up)
	StdoutHold time.Duration
	Timeout  time.Duration // watchdog; firing is judged by the parked criterion, never by itself
	Sniff    []string      // devices on which sender-side kernel timestamps are taken
	Setup    func(w *World)
	OnTx     func(c *CaseRun, dev *Dev, frame []byte) // called for every frame sx transmits on a device
	OnStdout func(c *CaseRun, line string)
	OnStart  func(c *CaseRun)
	Env      []string
}

type CaseRun struct {
	Spec   *CaseSpec
	World  *World
	Log    *Log
	cmd    *exec.Cmd
	nTx    int32
	injMu  sync.Mutex
	health *healthTicker
}

type CaseResult struct {
	Events    []Event
	Stdout    []string
	StdoutT   []time.Duration
	Stderr    string
	ExitCode  int
	Signaled  bool
	TimedOut  bool
	Parked    bool
	Dump      string
	TStart    time.Duration
	TExit     time.Duration
	ExitWall  time.Time
	Drops     uint32 // sniffer drops
	TxDropped int64  // device tx_dropped
	Undrained int64  // frames the kernel queued on a device that the monitor could not read within a minute
	NTx       int    // frames sx transmitted on the monitor's devices during the whole run
	Stall     time.Duration
	SetupErr  string
}

// Inject writes a frame to the cable: sx's socket receives it through the kernel filter it attached.
func (c *CaseRun) Inject(dev *Dev, frame []byte) {
	c.injMu.Lock()
	defer c.injMu.Unlock()
	c.Log.add(Event{Kind: "inject", Dev: dev.Name, Data: append([]byte(nil), frame...)})
	dev.f.Write(frame)
}

func (c *CaseRun) Signal(sig syscall.Signal) {
	if c.cmd != nil && c.cmd.Process != nil {
		c.Log.add(Event{Kind: "signal", Line: sig.String()})
		c.cmd.Process.Signal(sig)
	}
}

func (c *CaseRun) TxCount() int { return int(atomic.LoadInt32(&c.nTx)) }

type healthTicker struct {
	stop    chan struct{}
	done    chan struct{}
	maxOver time.Duration
}

func startHealth() *healthTicker {
	h := &healthTicker{stop: make(chan struct{}), done: make(chan struct{})}
	go func() {
		defer close(h.done)
		last := time.Now()
		for {
			select {
			case <-h.stop:
				return
			default:
			}
			time.Sleep(time.Millisecond)
			now := time.Now()
			if over := now.Sub(last) - time.Millisecond; over > h.maxOver {
				h.maxOver = over
			}
			last = now
		}
	}()
	return h
}

func (h *healthTicker) end() time.Duration { close(h.stop); <-h.done; return h.maxOver }

func cpuTicks(pid int) int64 {
	b, err := os.ReadFile(fmt.Sprintf("/proc/%d/stat", pid))
	if err != nil {
		return -1
	}
	s := string(b)
	if i := strings.LastIndex(s, ")"); i >= 0 {
		f := strings.Fields(s[i+1:])
		if len(f) > 13 {
			var u, k int64
			fmt.Sscanf(f[11], "%d", &u)
			fmt.Sscanf(f[12], "%d", &k)
			return u + k
		}
	}
	return -1
}

// RunCase builds the topology, starts sx, runs the peer until sx exits (or the watchdog decides), and
// returns everything that was observed.
func RunCase(sx string, spec *CaseSpec) (res *CaseResult) {
	res = &CaseResult{ExitCode: -1}
	w := &World{}
	defer w.Close()
	func() {
		defer func() {
			if r := recover(); r != nil {
				res.SetupErr = fmt.Sprint(r)
			}
		}()
		spec.Setup(w)
	}()
	if res.SetupErr != "" {
		return res
	}
	log := &Log{t0: time.Now()}
	c := &CaseRun{Spec: spec, World: w, Log: log}
	var sniffers []*Sniffer
	for _, name := range spec.Sniff {
		d := w.Dev(name)
		if d == nil {
			// an interface that exists without being created here (lo): sniff only
			if ifi, err := net.InterfaceByName(name); err == nil {
				d = &Dev{Name: name, Index: ifi.Index}
			}
		}
		if d != nil {
			s, err := newSniffer(d, log)
			if err != nil {
				res.SetupErr = "sniffer: " + err.Error()
				return res
			}
			sniffers = append(sniffers, s)
		}
	}
	// readers: one per device
	var rg sync.WaitGroup
	for _, d := range w.Devs {
		d := d
		rg.Add(1)
		go func() {
			defer rg.Done()
			buf := make([]byte, 70000)
			for {
				n, err := d.f.Read(buf)
				if err != nil {
					return
				}
				frame := append([]byte(nil), buf[:n]...)
				atomic.AddInt64(&d.nRead, 1)
				atomic.AddInt32(&c.nTx, 1)
				log.add(Event{Kind: "tx", Dev: d.Name, Data: frame})
				if spec.OnTx != nil {
					spec.OnTx(c, d, frame)
				}
			}
		}()
	}
	cmd := exec.Command(sx, spec.Args...)
	cmd.Env = append(os.Environ(), spec.Env...)
	var stdinW *os.File
	if spec.StdinStalls {
		pr, pw, err := os.Pipe()
		if err == nil {
			cmd.Stdin = pr
			stdinW = pw
			defer pr.Close()
			defer pw.Close()
			go pw.Write(spec.Stdin)
		}
	} else if spec.Stdin != nil {
		cmd.Stdin = bytes.NewReader(spec.Stdin)
	}
	_ = stdinW
	so, _ := cmd.StdoutPipe()
	se, _ := cmd.StderrPipe()
	c.cmd = cmd
	c.health = startHealth()
	res.TStart = time.Since(log.t0)
	if err := cmd.Start(); err != nil {
		res.SetupErr = "start: " + err.Error()
		c.health.end()
		return res
	}
	if spec.OnStart != nil {
		go spec.OnStart(c)
	}
	var og sync.WaitGroup
	var outMu sync.Mutex
	og.Add(2)
	go func() {
		defer og.Done()
		r := bufio.NewReaderSize(so, 1<<20)
		if spec.StdoutHold > 0 {
			time.Sleep(spec.StdoutHold)
		}
		for {
			line, err := r.ReadString('\n')
			if len(line) > 0 {
				t := time.Since(log.t0)
				outMu.Lock()
				res.Stdout = append(res.Stdout, line)
				res.StdoutT = append(res.StdoutT, t)
				outMu.Unlock()
				log.add(Event{Kind: "stdout", Line: line})
				if spec.OnStdout != nil {
					spec.OnStdout(c, line)
				}
			}
			if err != nil {
				return
			}
		}
	}()
	var errBuf bytes.Buffer
	go func() {
		defer og.Done()
		io.Copy(&errBuf, se)
	}()
	waitc := make(chan error, 1)
	go func() { og.Wait(); waitc <- cmd.Wait() }()
	timeout := spec.Timeout
	if timeout == 0 {
		timeout = 60 * time.Second
	}
	var werr error
	select {
	case werr = <-waitc:
	case <-time.After(timeout):
		res.TimedOut = true
		// parked criterion: no CPU time and no frame during one second
		c1, n1 := cpuTicks(cmd.Process.Pid), c.TxCount()
		select {
		case werr = <-waitc:
			res.TimedOut = false
		case <-time.After(time.Second):
			c2, n2 := cpuTicks(cmd.Process.Pid), c.TxCount()
			res.Parked = c1 >= 0 && c1 == c2 && n1 == n2
			cmd.Process.Signal(syscall.SIGQUIT) // goroutine dump on stderr
			select {
			case werr = <-waitc:
			case <-time.After(5 * time.Second):
				cmd.Process.Kill()
				werr = <-waitc
			}
		}
	}
	res.TExit = time.Since(log.t0)
	res.ExitWall = time.Now()
	log.add(Event{Kind: "exit"})
	if ee, ok := werr.(*exec.ExitError); ok {
		res.ExitCode = ee.ExitCode()
		if ws, ok := ee.Sys().(syscall.WaitStatus); ok && ws.Signaled() {
			res.Signaled = true
		}
	} else if werr == nil {
		res.ExitCode = 0
	}
	res.Stderr = errBuf.String()
	if res.TimedOut {
		res.Dump = res.Stderr
	}
	// drain: frames already queued on the devices. The kernel's own counter says how many there are: a reader
	// that is starved for a moment on a loaded machine must not be mistaken for an empty queue.
	drainDeadline := time.Now().Add(60 * time.Second)
	for _, d := range w.Devs {
		if d.f == nil {
			continue
		}
		for {
			want := d.txPackets()
			got := atomic.LoadInt64(&d.nRead)
			if want < 0 || got >= want {
				break
			}
			if time.Now().After(drainDeadline) {
				res.Undrained += want - got
				break
			}
			time.Sleep(10 * time.Millisecond)
		}
	}
	for last := -1; last != c.TxCount(); {
		last = c.TxCount()
		time.Sleep(30 * time.Millisecond)
	}
	for _, s := range sniffers {
		time.Sleep(60 * time.Millisecond)
		res.Drops += s.Close()
	}
	for _, d := range w.Devs {
		if v := d.txDropped(); v > 0 {
			res.TxDropped += v
		}
	}
	res.NTx = c.TxCount()
	res.Stall = c.health.end()
	w.Close()
	rg.Wait()
	res.Events = log.snapshot()
	return res
}

// Frames returns the frames sx transmitted on dev, in order.
func (r *CaseResult) Frames(dev string) [][]byte {
	var out [][]byte
	for _, e := range r.Events {
		if e.Kind == "tx" && (dev == "" || e.Dev == dev) {
			out = append(out, e.Data)
		}
	}
	return out
}

// Sniffed returns kernel-timestamped outgoing frames of dev.
func (r *CaseResult) Sniffed(dev string) []Event {
	var out []Event
	for _, e := range r.Events {
		if e.Kind == "sniff" && (dev == "" || e.Dev == dev) {
			out = append(out, e)
		}
	}
	return out
}

func (r *CaseResult) crashText() string {
	for _, marker := range []string{"panic: ", "fatal error: ", "unexpected fault address", "SIGSEGV"} {
		if i := strings.Index(r.Stderr, marker); i >= 0 && !r.TimedOut {
			t := r.Stderr[i:]
			if len(t) > 4000 {
				t = t[:4000]
			}
			return t
		}
	}
	return ""
}
