package main

// Level-2 scenarios for the application scans (real binary, loopback inside the namespace):
//
//	c08: `sx socks` over a /28../26 of 127.x addresses x ports served by scripted listeners whose
//	     behaviour depends on the address that was dialled: every (address, port) receives exactly
//	     one connection attempt (SYNs captured on lo), every proxy is printed exactly once, every
//	     failed probe leaves exactly one error record on stderr, for several --workers values.
//	c14: `sx elastic --json` against HTTP servers that serve hostile JSON (quotes, control
//	     characters, U+2028, HTML, deep nesting): every stdout line is one JSON object whose
//	     info/indexes decode back to what was served, host/proto those of the target.

import (
	"encoding/json"
	"fmt"
	"math/rand"
	"net"
	"net/http"
	"reflect"
	"sort"
	"strings"
	"sync"
	"syscall"
	"time"

	"verif.local/v/oracle"
	"verif.local/v/vlab"
)

func init() {
	scenarios["c08"] = scenC08
	scenarios["c14"] = scenC14
}

func loOnly(w *World) {}

// socksBehaviour of a target: 0 proxy, 1 not a proxy (05 ff), 2 garbage then close, 3 close at once
func socksListener(port int, behaviour func(local string) int) (net.Listener, error) {
	ln, err := net.Listen("tcp4", fmt.Sprintf("0.0.0.0:%d", port))
	if err != nil {
		return nil, err
	}
	go func() {
		for {
			c, err := ln.Accept()
			if err != nil {
				return
			}
			go func(c net.Conn) {
				defer c.Close()
				host, _, _ := net.SplitHostPort(c.LocalAddr().String())
				b := behaviour(host)
				buf := make([]byte, 3)
				c.SetDeadline(time.Now().Add(2 * time.Second))
				if b != 3 {
					c.Read(buf)
				}
				switch b {
				case 0:
					c.Write([]byte{5, 0})
				case 1:
					c.Write([]byte{5, 0xff})
				case 2:
					c.Write([]byte("HTTP/1.0 400 Bad\r\n\r\n"))
				}
				time.Sleep(20 * time.Millisecond)
			}(c)
		}
	}()
	return ln, nil
}

func scenC08(run *vlab.Run, sx, tmp string) {
	rng := run.Rand("c08wire")
	n := run.Pick(24, 240)
	for i := 0; i < n; i++ {
		if !run.Mine(i) {
			continue
		}
		bits := 26 + rng.Intn(3)
		big := i%6 == 5 // a /24 with a port that nobody listens on: hundreds of failing probes within a second
		if big {
			bits = 24
		}
		base := uint32(0x7f000000) | uint32(1+rng.Intn(200))<<16 | uint32(rng.Intn(256))<<8
		base &^= 1<<uint(32-bits) - 1
		subnet := fmt.Sprintf("%s/%d", ipS(base), bits)
		size := uint32(1) << uint(32-bits)
		nports := 1 + rng.Intn(3)
		if big {
			nports = 2
		}
		var ports []int
		var lns []net.Listener
		closedPort := 0
		seed := rng.Int63()
		beh := func(a uint32, port int) int {
			return int((uint64(a)*2654435761 + uint64(port)*40503 + uint64(seed)) >> 7 % 4)
		}
		for k := 0; k < nports; k++ {
			p := 20000 + rng.Intn(20000)
			if k == nports-1 && nports > 1 && (rng.Intn(2) == 0 || big) {
				closedPort = p // nobody listens: connection refused -> one error record per address
				ports = append(ports, p)
				continue
			}
			p2 := p
			ln, err := socksListener(p, func(local string) int {
				a, _ := oracle.RefIPv4(local)
				return beh(a, p2)
			})
			if err != nil {
				continue
			}
			lns = append(lns, ln)
			ports = append(ports, p)
		}
		var ps []string
		for _, p := range ports {
			ps = append(ps, fmt.Sprint(p))
		}
		workers := []int{1, 3, 16, 100}[rng.Intn(4)]
		if big {
			workers = 100
		}
		args := []string{"socks", "--json", "-p", strings.Join(ps, ","), "-w", fmt.Sprint(workers), "-t", "3s", subnet}
		run.Case(fmt.Sprintf("c08w%03d", i), args)
		// a probe that times out against this monitor's own listeners (a starved machine) changes the expected
		// lines and error records: everything but "too many" is judged on up to three runs of the scenario
		for attempt := 0; attempt < 3; attempt++ {
			final := attempt == 2
			soft := false
			res := RunCase(sx, &CaseSpec{Args: args, Setup: loOnly, Sniff: []string{"lo"}, Timeout: 120 * time.Second})
			run.Eval(1)
			desc := map[string]interface{}{"argv": args, "closed_port": closedPort}
			if !baseChecks(run, res, desc, true) {
				break
			}
			if res.Drops > 0 {
				run.Inconclusive("sniffer drops on lo")
				break
			}
			// SYNs (no ACK) per destination
			syn := map[string]int{}
			for _, e := range res.Sniffed("lo") {
				d := oracle.Decode(e.Data, oracle.LinkEthernet)
				if d.TCP != nil && d.IP != nil && d.TCP.Flags&oracle.FlagSYN != 0 && d.TCP.Flags&oracle.FlagACK == 0 {
					syn[fmt.Sprintf("%s:%d", oracle.IPString(d.IP.Dst), d.TCP.DstPort)]++
				}
			}
			printed := map[string]int{}
			for _, l := range res.Stdout {
				var m struct {
					IP   string `json:"ip"`
					Port int    `json:"port"`
				}
				if json.Unmarshal([]byte(l), &m) != nil || !strings.HasSuffix(l, "\n") {
					run.Violation("line-not-json", fmt.Sprintf("stdout line is not one JSON record: %.200q", l), desc)
					continue
				}
				printed[fmt.Sprintf("%s:%d", m.IP, m.Port)]++
			}
			nErrLines := 0
			for _, l := range strings.Split(res.Stderr, "\n") {
				if strings.Contains(l, `"level":"error"`) {
					nErrLines++
				}
			}
			okAll := true
			wantErrs := 0
			for a := base; a < base+size; a++ {
				for _, p := range ports {
					k := fmt.Sprintf("%s:%d", ipS(a), p)
					if syn[k] == 0 && !final {
						soft = true
					} else if syn[k] != 1 {
						run.Violation("connections-per-target", fmt.Sprintf("%s received %d connection attempts (exactly one expected; %d workers): %s", k, syn[k], workers, strings.Join(args, " ")), desc)
						okAll = false
					}
					delete(syn, k)
					b := -1
					if p != closedPort {
						b = beh(a, p)
					}
					wantLines := 0
					if b == 0 {
						wantLines = 1
					}
					if printed[k] < wantLines && !final {
						soft = true
					} else if printed[k] != wantLines {
						run.Violation("lines-per-target", fmt.Sprintf("%s (behaviour %d) printed %d times, expected %d: %s", k, b, printed[k], wantLines, strings.Join(args, " ")), desc)
						okAll = false
					}
					delete(printed, k)
					if b == -1 || b == 2 || b == 3 {
						// refused / garbage (short read) / closed at once: a failed probe -> one error record
						if b != 2 {
							wantErrs++
						}
					}
				}
			}
			for k, c := range syn {
				run.Violation("connection-outside-targets", fmt.Sprintf("%d connection attempts to %s, which is not a target: %s", c, k, strings.Join(args, " ")), desc)
				okAll = false
			}
			for k := range printed {
				run.Violation("record-outside-targets", fmt.Sprintf("record for %s, which is not a target", k), desc)
				okAll = false
			}
			// error records: refused and closed-at-once probes fail for sure (garbage answers 2 full bytes: a clean negative)
			if nErrLines != wantErrs && !final {
				soft = true
			} else if nErrLines != wantErrs {
				if res.Stall > 100*time.Millisecond {
					run.Inconclusive("error-record count differs but the monitor stalled")
				} else {
					run.Violation("error-records", fmt.Sprintf("%d probes failed for sure (refused or closed before answering), %d error records on stderr: %s", wantErrs, nErrLines, strings.Join(args, " ")), map[string]interface{}{"case": desc, "stderr_tail": tailStr(res.Stderr, 1500)})
					okAll = false
				}
			}
			if soft {
				run.Count("c08_wire_runs_retried", 1)
				continue
			}
			if okAll {
				run.Count("app_scans_ok", 1)
			}
			run.Count("c08_wire_runs", 1)
			if big {
				run.Count("c08_wire_runs_with_more_than_100_failing_probes", 1)
			}
			run.Count("app_targets", int64(int(size)*len(ports)))
			run.Count("app_error_records", int64(nErrLines))
			run.Count("app_workers:"+fmt.Sprint(workers), 1)
			run.Distinct(strings.Join(args, " "))
			break
		}
		for _, ln := range lns {
			ln.Close()
		}
	}
}

// ---------------------------------------------------------------------------

var c14hostile = []string{`quote " backslash \ slash /`, "line\nbreak\r\ttab", "nul\x00 bell\x07 esc\x1b", "ls\u2028ps\u2029", `<script>alert("x")</script>&amp;`, "日本語 😀 é", `","ip":"6.6.6.6`, "}\n{\"scan\":\"fake\"}", "%s %d %!v(MISSING) %%", strings.Repeat("long ", 5000), "\ufeffbom", "{{.}} ${x} $(id) `id`",
	`R\u0026D`, `a\u003cb\u003ec`, `\\u0026 \u0026 &`, `back\slash u0026`}

func scenC14(run *vlab.Run, sx, tmp string) {
	rng := run.Rand("c14wire")
	n := run.Pick(24, 200)
	for i := 0; i < n; i++ {
		if !run.Mine(i) {
			continue
		}
		pick := func() string { return c14hostile[rng.Intn(len(c14hostile))] }
		var mk func(depth int) interface{}
		mk = func(depth int) interface{} {
			if depth > 3 {
				return pick()
			}
			switch rng.Intn(6) {
			case 0:
				return float64(rng.Intn(1000))
			case 1:
				return rng.Intn(2) == 0
			case 2:
				return nil
			case 3:
				return []interface{}{pick(), mk(depth + 1)}
			case 4:
				return map[string]interface{}{pick(): mk(depth + 1), "k": pick()}
			}
			return pick()
		}
		// one server per target address (decided by the dialled address), two ports
		infos := map[string]map[string]interface{}{}
		aliases := map[string]map[string]interface{}{}
		var mu sync.Mutex
		infoOf := func(hostport string) map[string]interface{} {
			mu.Lock()
			defer mu.Unlock()
			if m, ok := infos[hostport]; ok {
				return m
			}
			m := map[string]interface{}{"name": pick(), "cluster_name": pick(), "version": map[string]interface{}{"number": pick()}, "x": mk(0)}
			infos[hostport] = m
			aliases[hostport] = map[string]interface{}{pick(): map[string]interface{}{"aliases": map[string]interface{}{pick(): map[string]interface{}{}}}}
			return m
		}
		bits := 29 + rng.Intn(3)
		base := (uint32(0x7f000000) | uint32(1+rng.Intn(200))<<16 | uint32(rng.Intn(256))<<8) &^ (1<<uint(32-bits) - 1)
		subnet := fmt.Sprintf("%s/%d", ipS(base), bits)
		port := 20000 + rng.Intn(20000)
		srv := &http.Server{Handler: http.HandlerFunc(func(w http.ResponseWriter, r *http.Request) {
			local := r.Context().Value(http.LocalAddrContextKey).(net.Addr).String()
			m := infoOf(local)
			w.Header().Set("Content-Type", "application/json")
			if r.URL.Path == "/" {
				json.NewEncoder(w).Encode(m)
				return
			}
			mu.Lock()
			a := aliases[local]
			mu.Unlock()
			json.NewEncoder(w).Encode(a)
		})}
		ln, err := net.Listen("tcp4", fmt.Sprintf("0.0.0.0:%d", port))
		if err != nil {
			continue
		}
		go srv.Serve(ln)
		args := []string{"elastic", "--json", "-p", fmt.Sprint(port), "-w", fmt.Sprint(1 + rng.Intn(8)), "-t", "5s", subnet}
		run.Case(fmt.Sprintf("c14w%03d", i), args)
		// a target that is not printed (its probe timed out) is an upper bound for sx and for this monitor's
		// own HTTP server: judged on up to three runs
		for attempt := 0; attempt < 3; attempt++ {
			res := RunCase(sx, &CaseSpec{Args: args, Setup: loOnly, Timeout: 120 * time.Second})
			run.Eval(1)
			if !baseChecks(run, res, args, true) {
				break
			}
			missing := false
			size := uint32(1) << uint(32-bits)
			seen := map[string]int{}
			okAll := true
			for _, l := range res.Stdout {
				var m struct {
					Scan    string                 `json:"scan"`
					Proto   string                 `json:"proto"`
					Host    string                 `json:"host"`
					Info    map[string]interface{} `json:"info"`
					Indexes map[string]interface{} `json:"indexes"`
				}
				body := strings.TrimSuffix(l, "\n")
				if !strings.HasSuffix(l, "\n") || strings.ContainsAny(body, "\n\r") || json.Unmarshal([]byte(body), &m) != nil {
					run.Violation("line-not-one-json-object", fmt.Sprintf("stdout line is not exactly one JSON object: %.300q", l), args)
					okAll = false
					continue
				}
				seen[m.Host]++
				mu.Lock()
				wantInfo, wantAl := infos[m.Host], aliases[m.Host]
				mu.Unlock()
				// what was served, as JSON decodes it
				norm := func(v interface{}) interface{} {
					b, _ := json.Marshal(v)
					var out interface{}
					json.Unmarshal(b, &out)
					return out
				}
				if m.Scan != "elastic" || m.Proto != "http" {
					run.Violation("record-fields", fmt.Sprintf("scan=%q proto=%q in %.200q", m.Scan, m.Proto, l), args)
					okAll = false
				}
				if wantInfo == nil {
					run.Violation("record-host", fmt.Sprintf("record for host %q, which served nothing", m.Host), args)
					okAll = false
					continue
				}
				if !reflect.DeepEqual(interface{}(m.Info), norm(wantInfo)) {
					run.Violation("info-not-faithful", fmt.Sprintf("record of %s: info does not decode back to the served object: got %.300v want %.300v", m.Host, m.Info, wantInfo), args)
					okAll = false
				}
				if m.Indexes == nil {
					run.Count("records_without_index_list", 1) // the secondary request failed (timed out): allowed
				} else if !reflect.DeepEqual(interface{}(m.Indexes), norm(wantAl)) {
					run.Violation("indexes-not-faithful", fmt.Sprintf("record of %s: indexes do not decode back to the served object", m.Host), args)
					okAll = false
				}
				run.Count("wire_lines_verified", 1)
			}
			for a := base; a < base+size; a++ {
				k := fmt.Sprintf("%s:%d", ipS(a), port)
				if seen[k] == 0 && attempt < 2 {
					missing = true
					continue
				}
				if seen[k] != 1 {
					run.Violation("lines-per-target", fmt.Sprintf("%s printed %d times (it serves JSON info: once expected)", k, seen[k]), args)
					okAll = false
				}
			}
			if missing {
				run.Count("c14_wire_runs_retried", 1)
				continue
			}
			if okAll {
				run.Count("elastic_runs_ok", 1)
			}
			run.Count("c14_wire_runs", 1)
			run.Distinct(strings.Join(args, " "))
			if run.WantSample() && len(res.Stdout) > 0 {
				run.Sample(map[string]interface{}{"argv": strings.Join(args, " "), "first_line": tailStr(res.Stdout[0], 300)})
			}
			break
		}
		srv.Close()
	}
}

// ---------------------------------------------------------------------------
// c16app: the exit delay of the application scans (real binary, real cobra wiring of --exit-delay and
// --timeout): the process must not exit earlier than the exit delay after its last probe got its answer.
// Lower bound only, on safe-side stamps: the kernel timestamp of the last segment with payload that sx sent
// to the server (its last request; a probe cannot be finished before it has sent its request) against the
// exit observed after wait() returned (>= the true exit). A stamp taken by the monitor's server would not do:
// on a starved machine the server can answer a probe that has long timed out.

func init() { scenarios["c16app"] = scenC16App }

func scenC16App(run *vlab.Run, sx, tmp string) {
	rng := run.Rand("c16app")
	n := run.Pick(18, 90)
	for i := 0; i < n; i++ {
		if !run.Mine(i) {
			continue
		}
		kind := []string{"socks", "docker", "elastic"}[i%3]
		delayMs := []int{-1, 700, 1200, 150}[i/3%4] // -1: the default (300 ms)
		tmo := []string{"100ms", "2s", "400ms"}[i/12%3]
		var mu sync.Mutex
		var last time.Time
		conns := 0
		stamp := func() {
			mu.Lock()
			last = time.Now()
			conns++
			mu.Unlock()
		}
		port := 20000 + rng.Intn(20000)
		ln, err := net.Listen("tcp4", fmt.Sprintf("0.0.0.0:%d", port))
		if err != nil {
			continue
		}
		switch kind {
		case "socks":
			go func() {
				for {
					c, err := ln.Accept()
					if err != nil {
						return
					}
					go func(c net.Conn) {
						defer c.Close()
						buf := make([]byte, 3)
						c.SetDeadline(time.Now().Add(2 * time.Second))
						c.Read(buf)
						stamp()
						c.Write([]byte{5, 0})
						time.Sleep(20 * time.Millisecond)
					}(c)
				}
			}()
		default:
			srv := &http.Server{Handler: http.HandlerFunc(func(w http.ResponseWriter, r *http.Request) {
				w.Header().Set("Content-Type", "application/json")
				w.Header().Set("Api-Version", "1.41")
				stamp()
				fmt.Fprint(w, `{"ID":"verif","Name":"verif","ApiVersion":"1.41","Version":"20.10.0","name":"n","cluster_name":"c"}`)
			})}
			go srv.Serve(ln)
		}
		bits := 29 + rng.Intn(4)
		base := (uint32(0x7f000000) | uint32(1+rng.Intn(200))<<16 | uint32(rng.Intn(256))<<8) &^ (1<<uint(32-bits) - 1)
		args := []string{kind, "--json", "-p", fmt.Sprint(port), "-t", tmo}
		want := 300 * time.Millisecond
		if delayMs >= 0 {
			want = time.Duration(delayMs) * time.Millisecond
			args = append(args, "--exit-delay", fmt.Sprintf("%dms", delayMs))
		}
		args = append(args, fmt.Sprintf("%s/%d", ipS(base), bits))
		run.Case(fmt.Sprintf("c16app%03d", i), args)
		res := RunCase(sx, &CaseSpec{Args: args, Setup: loOnly, Sniff: []string{"lo"}, Timeout: 120 * time.Second})
		ln.Close()
		run.Eval(1)
		if !baseChecks(run, res, args, true) {
			continue
		}
		if res.Drops > 0 {
			run.Inconclusive("sniffer drops")
			continue
		}
		mu.Lock()
		nc := conns
		_ = last
		mu.Unlock()
		var l time.Time
		for _, e := range res.Sniffed("lo") {
			if e.KTS.IsZero() {
				continue
			}
			d := oracle.Decode(e.Data, oracle.LinkEthernet)
			if d.TCP != nil && int(d.TCP.DstPort) == port && len(d.TCP.Payload) > 0 && e.KTS.After(l) {
				l = e.KTS
			}
		}
		if l.IsZero() {
			run.Inconclusive("no request of a probe was seen on lo")
			continue
		}
		gap := res.ExitWall.Sub(l)
		if gap < want {
			run.Violation("app-exit-before-delay", fmt.Sprintf("the process exited %v after its last probe was answered, the exit delay is %v: %s", gap, want, strings.Join(args, " ")), args)
		}
		run.Count("app_exit_delay_runs", 1)
		run.Count("app_exit_delay_runs:"+kind, 1)
		run.Count("app_answers_served", int64(nc))
		run.Max("app_max_exit_overshoot_ms", (gap - want).Milliseconds())
		run.Distinct(strings.Join(args, " "))
	}
}

// ---------------------------------------------------------------------------
// c12app: Ctrl-C while application probes are in flight against servers that accept and then stall.
// The request timeout is set far beyond the watchdog (-t 90s vs 20 s), so a scan that only ends when
// its probes time out is still there - without CPU time - when the watchdog looks (parked criterion).

func init() { scenarios["c12app"] = scenC12App }

func scenC12App(run *vlab.Run, sx, tmp string) {
	rng := run.Rand("c12app")
	n := run.Pick(18, 120)
	for i := 0; i < n; i++ {
		if !run.Mine(i) {
			continue
		}
		kind := []string{"elastic", "socks", "docker"}[i%3]
		stall := []string{"silent", "partial", "positive-then-silent"}[i/3%3]
		sigAfter := 1 + rng.Intn(4) // SIGINT once this many connections are being held
		workers := []int{1, 2, 8, 100}[rng.Intn(4)]
		if workers < sigAfter {
			sigAfter = workers
		}
		port := 20000 + rng.Intn(20000)
		ln, err := net.Listen("tcp4", fmt.Sprintf("0.0.0.0:%d", port))
		if err != nil {
			continue
		}
		var mu sync.Mutex
		held := 0
		release := make(chan struct{})
		var cr0 *CaseRun
		fired := false
		go func() {
			for {
				c, err := ln.Accept()
				if err != nil {
					return
				}
				go func(c net.Conn) {
					defer c.Close()
					mu.Lock()
					held++
					k := held
					cr := cr0
					mu.Unlock()
					buf := make([]byte, 4096)
					switch {
					case stall == "positive-then-silent" && k == 1 && kind == "socks":
						c.Read(buf[:3])
						c.Write([]byte{5, 0})
						return
					case stall == "positive-then-silent" && k == 1 && kind == "elastic":
						c.Read(buf)
						body := `{"name":"n"}`
						fmt.Fprintf(c, "HTTP/1.1 200 OK\r\nContent-Type: application/json\r\nContent-Length: %d\r\nConnection: close\r\n\r\n%s", len(body), body)
						return
					case stall == "partial":
						c.SetReadDeadline(time.Now().Add(time.Second))
						c.Read(buf)
						if kind == "socks" {
							c.Write([]byte{5})
						} else {
							c.Write([]byte("HTTP/1.1 200 OK\r\nContent-Type: application/json\r\nContent-Length: 400\r\n\r\n{\"name\":"))
						}
					}
					for w := 0; w < 400 && cr == nil; w++ { // the connection can be here before RunCase handed out the process
						time.Sleep(5 * time.Millisecond)
						mu.Lock()
						cr = cr0
						mu.Unlock()
					}
					mu.Lock()
					fire := !fired && held >= sigAfter && cr != nil
					if fire {
						fired = true
					}
					mu.Unlock()
					if fire {
						time.Sleep(50 * time.Millisecond) // the probe is in flight now
						cr.Signal(syscall.SIGINT)
					}
					<-release
				}(c)
			}
		}()
		bits := 27 + rng.Intn(3)
		base := (uint32(0x7f000000) | uint32(1+rng.Intn(200))<<16 | uint32(rng.Intn(256))<<8) &^ (1<<uint(32-bits) - 1)
		args := []string{kind, "--json", "-p", fmt.Sprint(port), "-w", fmt.Sprint(workers), "-t", "90s", fmt.Sprintf("%s/%d", ipS(base), bits)}
		run.Case(fmt.Sprintf("c12app%03d", i), map[string]interface{}{"argv": args, "server": stall, "sigint_after_connections": sigAfter})
		res := RunCase(sx, &CaseSpec{Args: args, Setup: loOnly, Timeout: 20 * time.Second, OnStart: func(cr *CaseRun) {
			mu.Lock()
			cr0 = cr
			mu.Unlock()
		}})
		close(release)
		ln.Close()
		run.Eval(1)
		desc := map[string]interface{}{"argv": strings.Join(args, " "), "server": stall, "sigint_after_connections": sigAfter}
		if res.SetupErr != "" {
			run.Inconclusive("setup: " + res.SetupErr)
			continue
		}
		if t := res.crashText(); t != "" {
			run.Violation("crash-on-sigint:app", "sx crashed after SIGINT: "+strings.SplitN(t, "\n", 2)[0], map[string]interface{}{"case": desc, "stderr": t})
			continue
		}
		mu.Lock()
		f := fired
		mu.Unlock()
		if !f {
			run.Inconclusive(fmt.Sprintf("SIGINT was never sent: too few connections reached the monitor's server: %v exit=%d stderr=%.300q", desc, res.ExitCode, res.Stderr))
			continue
		}
		if res.TimedOut {
			if res.Parked {
				run.Violation("no-exit-after-sigint:app-probe-in-flight", fmt.Sprintf("sx %s did not exit within 20 s after SIGINT while %d probes were waiting for a stalled server (request timeout 90 s): no CPU time", kind, sigAfter), map[string]interface{}{"case": desc, "goroutines": tailStr(res.Dump, 60000)})
			} else {
				run.Inconclusive(fmt.Sprintf("still running 20 s after start: %v", desc))
			}
			continue
		}
		for k, l := range res.Stdout {
			var v map[string]interface{}
			if !strings.HasSuffix(l, "\n") || json.Unmarshal([]byte(l), &v) != nil {
				run.Violation("incomplete-record-after-sigint", fmt.Sprintf("stdout line %d of %d is not a complete JSON record: %.200q", k+1, len(res.Stdout), l), desc)
				break
			}
		}
		run.Count("app_sigints_with_probes_in_flight", 1)
		run.Count("app_sigint:"+kind, 1)
		run.Count("app_sigint_server:"+stall, 1)
		run.Max("app_max_exit_after_start_ms", res.TExit.Milliseconds())
		run.Distinct(fmt.Sprintf("%s/%s/%d", strings.Join(args, " "), stall, sigAfter))
	}
}

// ---------------------------------------------------------------------------
// c14live: `sx arp --json --live` (the one command with de-duplication): over several passes in which every host
// answers every time, each stdout line is one JSON object with the documented keys, and every distinct host is
// printed exactly once, at its first sighting (hosts that come up at a later pass appear then).

func init() { scenarios["c14live"] = scenC14Live }

func scenC14Live(run *vlab.Run, sx, tmp string) {
	rng := run.Rand("c14live")
	n := run.Pick(8, 48)
	for i := 0; i < n; i++ {
		bits := 27 + rng.Intn(3)
		base := (0x0a090000 | rng.Uint32()&0xff00) &^ (1<<uint(32-bits) - 1)
		size := uint32(1) << uint(32-bits)
		upFrom := map[uint32]int{}
		for a := base; a < base+size; a++ {
			switch rng.Intn(3) {
			case 0:
				upFrom[a] = 0
			case 1:
				upFrom[a] = 1 + rng.Intn(2)
			}
		}
		// option order varies: the flags are independent
		args := [][]string{{"arp", "--json", "--live", "150ms"}, {"arp", "--live", "150ms", "--json"}}[i%2]
		args = append(args, "-i", "tap0", "--srcip", foreignSrcIP, fmt.Sprintf("%s/%d", ipS(base), bits))
		if !run.Mine(i) {
			continue
		}
		run.Case(fmt.Sprintf("c14live%03d", i), args)
		var mu sync.Mutex
		nTx := 0
		firstSeen := map[uint32]int{} // pass of the first answer
		prng := rand.New(rand.NewSource(int64(i)))
		res := RunCase(sx, &CaseSpec{Args: args, Setup: commonWorld("tap"), Timeout: 60 * time.Second,
			OnTx: func(cr *CaseRun, d *Dev, frame []byte) {
				dec, a, _, ok := decodeProbe("arp", frame, oracle.LinkEthernet)
				if !ok {
					return
				}
				mu.Lock()
				nTx++
				pass := (nTx - 1) / int(size)
				fire := nTx == 4*int(size)+1
				from, up := upFrom[a]
				answer := up && pass >= from && pass < 4
				if answer {
					if _, seen := firstSeen[a]; !seen {
						firstSeen[a] = pass
					}
				}
				mu.Unlock()
				if answer {
					fr, _ := replyFor("arp", oracle.LinkEthernet, dec, a, 0, prng)
					cr.Inject(d, fr)
				}
				if fire {
					time.AfterFunc(60*time.Millisecond, func() { cr.Signal(syscall.SIGINT) })
				}
			}})
		run.Eval(1)
		if !baseChecks(run, res, args, false) {
			continue
		}
		printed := map[uint32]int{}
		bad := false
		for _, l := range res.Stdout {
			var m map[string]interface{}
			body := strings.TrimSuffix(l, "\n")
			if !strings.HasSuffix(l, "\n") || strings.ContainsAny(body, "\n\r") || json.Unmarshal([]byte(body), &m) != nil {
				run.Violation("live:line-not-one-json-object", fmt.Sprintf("stdout line of `arp --json --live` is not exactly one JSON object: %.200q", l), args)
				bad = true
				break
			}
			ipStr, _ := m["ip"].(string)
			mac, _ := m["mac"].(string)
			a, ok := oracle.RefIPv4(ipStr)
			if !ok || mac == "" {
				run.Violation("live:keys", fmt.Sprintf("JSON line without the documented ip/mac keys: %.200q", l), args)
				bad = true
				break
			}
			want := [6]byte{2, 0x77, byte(a >> 24), byte(a >> 16), byte(a >> 8), byte(a)}
			if mac != oracle.MACString(want[:]) {
				run.Violation("live:value", fmt.Sprintf("line for %s carries MAC %s, the host answered with %s", ipStr, mac, oracle.MACString(want[:])), args)
				bad = true
			}
			printed[a]++
		}
		if bad {
			continue
		}
		mu.Lock()
		for a, c := range printed {
			if c > 1 {
				run.Violation("live:host-printed-twice", fmt.Sprintf("%s printed %d times over 4 passes (de-duplication: once, at its first sighting): %s", ipS(a), c, strings.Join(args, " ")), args)
			}
			if _, ok := firstSeen[a]; !ok {
				run.Violation("live:host-never-answered", fmt.Sprintf("%s printed but it never answered", ipS(a)), args)
			}
		}
		missing := 0
		for a := range firstSeen {
			if printed[a] == 0 {
				missing++
			}
		}
		mu.Unlock()
		if missing > 0 {
			// a reply that is not printed is C03's / C16's business (and load-sensitive): only counted here
			run.Count("live_hosts_not_printed", int64(missing))
		}
		run.Count("live_json_runs", 1)
		run.Count("live_json_lines_verified", int64(len(res.Stdout)))
		run.Distinct(strings.Join(args, " "))
	}
}

// ---------------------------------------------------------------------------
// c15app: --rate on the application commands, seen from the wire: every connection attempt (SYN, kernel
// timestamp on lo) that `sx socks` / `sx elastic` makes to servers that accept and hang up at once. One probe is
// one connection there, so the sliding-window bound of C15 applies to the SYNs; a second, uncharged attempt per
// target doubles the rate. Upper bound for sx's speed = lower bound on spans: judged with the three-run rule.

func init() { scenarios["c15app"] = scenC15App }

func scenC15App(run *vlab.Run, sx, tmp string) {
	rng := run.Rand("c15app")
	n := run.Pick(12, 60)
	for i := 0; i < n; i++ {
		kind := []string{"socks", "elastic"}[i%2]
		rate := []string{"40/200ms", "100/s", "30/100ms", "200/s"}[i/2%4]
		workers := []int{100, 7, 1000}[i/8%3]
		bits := 26
		base := (uint32(0x7f000000) | uint32(1+rng.Intn(200))<<16 | uint32(rng.Intn(256))<<8) &^ (1<<uint(32-bits) - 1)
		port := 20000 + rng.Intn(20000)
		behaviour := []string{"close-at-once", "reset", "close-after-request"}[rng.Intn(3)]
		if !run.Mine(i) {
			continue
		}
		ln, err := net.Listen("tcp4", fmt.Sprintf("0.0.0.0:%d", port))
		if err != nil {
			continue
		}
		go func() {
			for {
				c, err := ln.Accept()
				if err != nil {
					return
				}
				go func(c net.Conn) {
					switch behaviour {
					case "reset":
						if tc, ok := c.(*net.TCPConn); ok {
							tc.SetLinger(0)
						}
					case "close-after-request":
						c.SetReadDeadline(time.Now().Add(500 * time.Millisecond))
						c.Read(make([]byte, 512))
					}
					c.Close()
				}(c)
			}
		}()
		args := []string{kind, "--json", "-p", fmt.Sprint(port), "-w", fmt.Sprint(workers), "-t", "2s", "--rate", rate, fmt.Sprintf("%s/%d", ipS(base), bits)}
		run.Case(fmt.Sprintf("c15app%03d", i), map[string]interface{}{"argv": args, "server": behaviour})
		rn, rw, _ := oracle.RefRate(rate)
		per := rw / time.Duration(rn)
		const burst = 10
		for attempt := 0; attempt < 3; attempt++ {
			res := RunCase(sx, &CaseSpec{Args: args, Setup: loOnly, Sniff: []string{"lo"}, Timeout: 120 * time.Second})
			run.Eval(1)
			if !baseChecks(run, res, args, true) {
				break
			}
			if res.Drops > 0 {
				run.Inconclusive("sniffer drops")
				break
			}
			var ts []time.Time
			for _, e := range res.Sniffed("lo") {
				d := oracle.Decode(e.Data, oracle.LinkEthernet)
				if d.TCP == nil || e.KTS.IsZero() || int(d.TCP.DstPort) != port || d.TCP.Flags&(oracle.FlagSYN|oracle.FlagACK) != oracle.FlagSYN {
					continue
				}
				ts = append(ts, e.KTS)
			}
			if len(ts) < 1<<uint(32-bits) {
				run.Inconclusive(fmt.Sprintf("only %d connection attempts seen for %d targets", len(ts), 1<<uint(32-bits)))
				break
			}
			sort.Slice(ts, func(a, b int) bool { return ts[a].Before(ts[b]) })
			eps := 2*time.Millisecond + 4*res.Stall
			worst, wk, wspan, wneed := time.Duration(0), 0, time.Duration(0), time.Duration(0)
			var windows int64
			for a := 0; a < len(ts); a++ {
				for b := a + burst + 2; b < len(ts); b++ {
					k := b - a + 1
					nominal := time.Duration(k-1-burst) * per
					need := nominal - nominal/50 - eps
					span := ts[b].Sub(ts[a])
					windows++
					if span < need && need-span > worst {
						worst, wk, wspan, wneed = need-span, k, span, need
					}
				}
			}
			if wk > 0 && attempt < 2 {
				run.Count("app_short_window_runs_retried", 1)
				continue
			}
			if wk > 0 {
				run.Violation("app-rate-exceeded:"+kind, fmt.Sprintf("--rate %s: %d consecutive connection attempts of %d (for %d targets) started within %v by kernel timestamps; 0.98*(k-1-%d)*W/N - eps = %v: %s", rate, wk, len(ts), 1<<uint(32-bits), wspan, burst, wneed, strings.Join(args, " ")), args)
			}
			run.Count("app_rate_runs", 1)
			run.Count("app_rate_runs:"+kind, 1)
			run.Count("app_rate_connections_timestamped", int64(len(ts)))
			run.Count("app_rate_windows_checked", windows)
			run.Distinct(strings.Join(args, " ") + behaviour)
			break
		}
		ln.Close()
	}
}

// ---------------------------------------------------------------------------
// c08http: the HTTP-based application scans (elastic, docker) with many workers against one server that plays
// every address of a /26../24: every target receives exactly one primary request (GET / resp. .../info), is
// printed exactly once, and its record carries the answer that was served to THAT address. More than one primary
// request for a target, a record with another target's answer or a repeated record are judged at once; a target
// without request or record on three runs.

func init() { scenarios["c08http"] = scenC08HTTP }

func scenC08HTTP(run *vlab.Run, sx, tmp string) {
	rng := run.Rand("c08http")
	n := run.Pick(12, 72)
	for i := 0; i < n; i++ {
		kind := []string{"elastic", "docker"}[i%2]
		workers := []int{8, 100, 2, 1, 32, 1000}[i/2%6]
		bits := 24 + rng.Intn(3)
		base := (uint32(0x7f000000) | uint32(1+rng.Intn(200))<<16 | uint32(rng.Intn(256))<<8) &^ (1<<uint(32-bits) - 1)
		size := uint32(1) << uint(32-bits)
		port := 20000 + rng.Intn(20000)
		if !run.Mine(i) {
			continue
		}
		var mu sync.Mutex
		primary := map[string]int{}
		handler := http.HandlerFunc(func(w http.ResponseWriter, r *http.Request) {
			local := r.Context().Value(http.LocalAddrContextKey).(net.Addr).String()
			host, _, _ := net.SplitHostPort(local)
			w.Header().Set("Api-Version", "1.41")
			if kind == "docker" && strings.HasSuffix(r.URL.Path, "/_ping") {
				fmt.Fprint(w, "OK")
				return
			}
			if kind == "elastic" && r.URL.Path == "/" || kind == "docker" && strings.HasSuffix(r.URL.Path, "/info") {
				mu.Lock()
				primary[host]++
				mu.Unlock()
			}
			w.Header().Set("Content-Type", "application/json")
			fmt.Fprintf(w, `{"ID":"id-%s","Name":"n-%s","name":"n-%s","cluster_name":"c","Version":"20.10.0","ApiVersion":"1.41"}`, host, host, host)
		})
		ln, err := net.Listen("tcp4", fmt.Sprintf("0.0.0.0:%d", port))
		if err != nil {
			continue
		}
		srv := &http.Server{Handler: handler}
		go srv.Serve(ln)
		args := []string{kind, "--json", "-p", fmt.Sprint(port), "-w", fmt.Sprint(workers), "-t", "5s", fmt.Sprintf("%s/%d", ipS(base), bits)}
		run.Case(fmt.Sprintf("c08http%03d", i), args)
		for attempt := 0; attempt < 3; attempt++ {
			final := attempt == 2
			mu.Lock()
			primary = map[string]int{}
			mu.Unlock()
			res := RunCase(sx, &CaseSpec{Args: args, Setup: loOnly, Timeout: 180 * time.Second})
			run.Eval(1)
			if !baseChecks(run, res, args, true) {
				break
			}
			printed := map[string]int{}
			bad := false
			for _, l := range res.Stdout {
				var m struct {
					Host string                 `json:"host"`
					Info map[string]interface{} `json:"info"`
				}
				if !strings.HasSuffix(l, "\n") || json.Unmarshal([]byte(l), &m) != nil {
					run.Violation("http:line-not-json", fmt.Sprintf("stdout line is not one JSON record: %.200q", l), args)
					bad = true
					continue
				}
				h, _, _ := net.SplitHostPort(strings.TrimPrefix(m.Host, "tcp://"))
				printed[h]++
				got := m.Info["name"]
				if kind == "docker" {
					got = m.Info["Name"]
				}
				if got != "n-"+h {
					run.Violation("http:record-carries-another-targets-answer", fmt.Sprintf("the record of %s carries the answer that was served to %v (%d workers): %s", h, got, workers, strings.Join(args, " ")), args)
					bad = true
				}
			}
			soft := false
			mu.Lock()
			for a := base; a < base+size; a++ {
				h := ipS(a)
				switch c := primary[h]; {
				case c == 0 && !final:
					soft = true
				case c != 1:
					run.Violation("http:primary-requests-per-target", fmt.Sprintf("%s received %d primary requests (exactly one expected; %d workers): %s", h, c, workers, strings.Join(args, " ")), args)
					bad = true
				}
				switch c := printed[h]; {
				case c == 0 && !final:
					soft = true
				case c != 1:
					run.Violation("http:records-per-target", fmt.Sprintf("%s served its JSON info once and was printed %d times (%d workers): %s", h, c, workers, strings.Join(args, " ")), args)
					bad = true
				}
				delete(printed, h)
				delete(primary, h)
			}
			for h, c := range primary {
				run.Violation("http:request-outside-targets", fmt.Sprintf("%d primary requests to %s, which is not a target", c, h), args)
				bad = true
			}
			mu.Unlock()
			for h := range printed {
				run.Violation("http:record-outside-targets", fmt.Sprintf("record for %s, which is not a target", h), args)
				bad = true
			}
			if soft && !bad {
				run.Count("c08_http_runs_retried", 1)
				continue
			}
			if !bad {
				run.Count("c08_http_runs_ok", 1)
			}
			run.Count("c08_http_runs", 1)
			run.Count("c08_http_runs:"+kind, 1)
			run.Count("c08_http_targets", int64(size))
			run.Distinct(strings.Join(args, " "))
			break
		}
		srv.Close()
	}
}
