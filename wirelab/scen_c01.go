package main

// C01 at level 2: the real binary, every packet command, on tap (Ethernet) and tun (raw IP)
// wires; the multiset of decoded probes must equal the reference multiset of the specification.
// This is the only level at which startPortScanEngine's 200-range chunk loop, the cobra wiring
// and the AF_PACKET path run.

import (
	"fmt"
	"math/rand"
	"strings"
	"time"

	"verif.local/v/oracle"
	"verif.local/v/vlab"
)

func init() { scenarios["c01"] = scenC01 }

type wireSpec struct {
	Cmd       []string `json:"command"` // e.g. ["tcp","syn"]
	Kind      string   `json:"probe_kind"`
	Link      string   `json:"link"` // tap | tun
	Subnet    string   `json:"subnet,omitempty"`
	Ports     string   `json:"ports,omitempty"`
	NRanges   int      `json:"port_ranges,omitempty"`
	PortsFile string   `json:"ports_file,omitempty"`
	Mode      string   `json:"mode"` // subnet | ipportfile | addrfile | addrfile-stdin
	File      string   `json:"-"`
	FileLines int      `json:"file_lines,omitempty"`
	Exclude   string   `json:"exclude,omitempty"`
	Extra     []string `json:"extra_args,omitempty"`
}

// commonWorld: one tap (10.9.0.1/16, known MAC) or one tun (10.9.0.1 peer 10.9.0.2/16-ish).
func commonWorld(link string) func(w *World) {
	return func(w *World) {
		if link == "tun" {
			w.AddTun("tun0", "10.9.0.1/16")
		} else {
			w.AddTap("tap0", tapMAC, "10.9.0.1/16")
		}
	}
}

func devName(link string) string {
	if link == "tun" {
		return "tun0"
	}
	return "tap0"
}

func oLink(link string) oracle.Link {
	if link == "tun" {
		return oracle.LinkRawIP
	}
	return oracle.LinkEthernet
}

// wireArgs builds the argv of a packet scan.
func wireArgs(tmp string, s *wireSpec) (args []string, stdin []byte) {
	args = append(args, s.Cmd...)
	args = append(args, "--json", "-i", devName(s.Link))
	if s.Kind != "arp" && s.Link == "tap" {
		args = append(args, "--gwmac", gwMAC)
		if s.Mode == "addrfile-stdin" {
			args = append(args, "-a", writeFile(tmp, "arp.cache", ""))
		} else {
			stdin = []byte{} // the ARP cache is read from stdin by default: an empty one
		}
	}
	if s.Ports != "" {
		args = append(args, "-p", s.Ports)
	}
	if s.PortsFile != "" {
		args = append(args, "--ports-file", writeFile(tmp, "ports.txt", s.PortsFile))
	}
	if s.Exclude != "" {
		args = append(args, "--exclude", writeFile(tmp, "exclude.txt", s.Exclude))
	}
	switch s.Mode {
	case "subnet":
	case "addrfile-stdin":
		args = append(args, "-f", "-")
		stdin = []byte(s.File)
	default:
		args = append(args, "-f", writeFile(tmp, "targets.jsonl", s.File))
	}
	args = append(args, s.Extra...)
	if s.Subnet != "" {
		args = append(args, s.Subnet)
	}
	return
}

func randPortRanges(rng *rand.Rand, n int) string {
	// n disjoint-ish small ranges spread over the port space (some adjacent, some overlapping, some single)
	var items []string
	step := 65000 / (n + 1)
	for i := 0; i < n; i++ {
		a := 1 + i*step + rng.Intn(step/2+1)
		switch rng.Intn(4) {
		case 0:
			items = append(items, fmt.Sprint(a))
		case 1:
			items = append(items, fmt.Sprintf("%d-%d", a, a+rng.Intn(3)))
		case 2:
			items = append(items, fmt.Sprintf("%d-%d", a, a+1), fmt.Sprint(a+1)) // overlapping: counted with multiplicity
			i++
		default:
			items = append(items, fmt.Sprintf("%d-%d", a, a))
		}
	}
	if len(items) > n {
		items = items[:n]
	}
	rng.Shuffle(len(items), func(a, b int) { items[a], items[b] = items[b], items[a] })
	return strings.Join(items, ",")
}

func c01wireCases(run *vlab.Run) []*wireSpec {
	rng := run.Rand("c01wire")
	var cases []*wireSpec
	type cmdk struct {
		cmd  []string
		kind string
	}
	cmds := []cmdk{{[]string{"arp"}, "arp"}, {[]string{"icmp"}, "icmp"}, {[]string{"udp"}, "udp"}, {[]string{"tcp"}, "tcp"}, {[]string{"tcp", "syn"}, "tcp"},
		{[]string{"tcp", "fin"}, "tcp"}, {[]string{"tcp", "null"}, "tcp"}, {[]string{"tcp", "xmas"}, "tcp"}, {[]string{"tcp", "--flags", "ack,rst"}, "tcp"}}
	n := run.Pick(64, 640)
	for i := 0; i < n; i++ {
		ck := cmds[i%len(cmds)]
		s := &wireSpec{Cmd: ck.cmd, Kind: ck.kind, Link: "tap", Mode: "subnet"}
		if ck.kind != "arp" && rng.Intn(4) == 0 {
			s.Link = "tun"
		}
		portful := ck.kind == "udp" || ck.kind == "tcp"
		bits := 24 + rng.Intn(9)
		base := (0x0a090000 | rng.Uint32()&0xffff) &^ (1<<uint(32-bits) - 1)
		if rng.Intn(3) == 0 { // unaligned base
			base |= uint32(rng.Intn(1 << uint(32-bits)))
		}
		s.Subnet = fmt.Sprintf("%s/%d", ipS(base), bits)
		if portful {
			// chunk-loop boundaries: 1, 2, 199, 200, 201, 399, 400, 401, 600
			s.NRanges = []int{1, 2, 7, 199, 200, 201, 399, 400, 401, 600}[rng.Intn(10)]
			if i%3 == 0 {
				s.NRanges = []int{201, 400, 401, 600}[rng.Intn(4)]
			}
			if s.NRanges > 100 && bits < 29 {
				bits = 29 + rng.Intn(4)
				base &^= 1<<uint(32-bits) - 1
				s.Subnet = fmt.Sprintf("%s/%d", ipS(base), bits)
			}
			s.Ports = randPortRanges(rng, s.NRanges)
			if rng.Intn(4) == 0 { // split between -p and --ports-file
				items := strings.Split(s.Ports, ",")
				k := rng.Intn(len(items))
				if k > 0 {
					s.Ports = strings.Join(items[:k], ",")
					s.PortsFile = "# tail of the list\n" + strings.Join(items[k:], "\n") + "\n"
				} else {
					// no -p at all: every range comes from the file
					s.Ports = ""
					s.PortsFile = "# the whole list\n" + strings.Join(items, "\n") + "\n"
				}
			}
		}
		if ck.kind != "arp" {
			switch rng.Intn(6) {
			case 0, 1:
				if portful && rng.Intn(2) == 0 {
					s.Mode = "ipportfile"
				} else {
					s.Mode = "addrfile"
				}
			case 2:
				if portful && s.Link == "tap" {
					s.Mode = "addrfile-stdin"
				}
			}
		}
		if s.Mode != "subnet" {
			s.Subnet = ""
			var sb strings.Builder
			lines := 1 + rng.Intn(40)
			for k := 0; k < lines; k++ {
				a := 0x0a090000 | rng.Uint32()&0xff
				if s.Mode == "ipportfile" {
					fmt.Fprintf(&sb, "{\"ip\":\"%s\",\"port\":%d}\n", ipS(a), 1+rng.Intn(65535))
				} else {
					fmt.Fprintf(&sb, "{\"ip\":\"%s\"}\n", ipS(a))
				}
			}
			s.File, s.FileLines = sb.String(), lines
			if s.Mode == "ipportfile" {
				s.Ports, s.PortsFile, s.NRanges = "", "", 0
			}
		}
		if rng.Intn(4) == 0 {
			s.Exclude = fmt.Sprintf("# excluded\n10.9.0.%d/30\n%s\n\n10.9.%d.0/25 # half\n", rng.Intn(256)&^3, ipS(0x0a090000|rng.Uint32()&0xff), rng.Intn(256))
		}
		cases = append(cases, s)
	}
	// every port command with its port list coming from --ports-file alone (no -p): the commands parse their
	// options in their own RunE closures, one by one
	for k, ck := range cmds {
		if ck.kind != "tcp" && ck.kind != "udp" {
			continue
		}
		cases = append(cases, &wireSpec{Cmd: ck.cmd, Kind: ck.kind, Link: []string{"tap", "tun"}[k%2], Mode: "subnet", Subnet: fmt.Sprintf("10.9.%d.%d/30", 100+k, 4*k),
			PortsFile: fmt.Sprintf("# from the file only\n%d\n%d-%d\n", 1000+k, 2000+k, 2001+k), NRanges: 2})
	}
	// volume: far more frames than any buffer of the pipeline or the ring of the socket
	big := []*wireSpec{
		{Cmd: []string{"arp"}, Kind: "arp", Link: "tap", Mode: "subnet", Subnet: "10.9.16.0/20"},
		{Cmd: []string{"tcp", "syn"}, Kind: "tcp", Link: "tun", Mode: "subnet", Subnet: "10.9.32.0/22", Ports: "80,443,8000-8001"},
	}
	if run.Thorough() {
		big = append(big, &wireSpec{Cmd: []string{"icmp"}, Kind: "icmp", Link: "tap", Mode: "subnet", Subnet: "10.9.0.0/16"},
			&wireSpec{Cmd: []string{"udp"}, Kind: "udp", Link: "tap", Mode: "subnet", Subnet: "10.9.64.0/18", Ports: "53,123,161,500"})
	}
	for _, b := range big {
		b.Extra = []string{"--exit-delay", "100ms"}
		cases = append(cases, b)
	}
	return cases
}

// wireExpected: the reference multiset of a specification.
func wireExpected(s *wireSpec) (map[uint64]int32, bool) {
	exp := map[uint64]int32{}
	var ex []oracle.CIDR
	if s.Exclude != "" {
		var cls oracle.TargetClass
		if ex, cls = oracle.RefExcludeFile(s.Exclude); cls != oracle.TargetValid {
			return nil, false
		}
	}
	var ports []oracle.PortRange
	if s.Kind == "udp" || s.Kind == "tcp" {
		if s.Ports != "" {
			p, ok := oracle.RefPortList(s.Ports)
			if !ok {
				return nil, false
			}
			ports = append(ports, p...)
		}
		if s.PortsFile != "" {
			p, ok := oracle.RefPortsFile(s.PortsFile)
			if !ok {
				return nil, false
			}
			ports = append(ports, p...)
		}
	}
	switch s.Mode {
	case "subnet":
		c, cls := oracle.RefTarget(s.Subnet)
		if cls != oracle.TargetValid {
			return nil, false
		}
		oracle.ExpectSubnetPorts(exp, c, ports, ex)
	default:
		var addrs []uint32
		for _, l := range strings.Split(strings.TrimSpace(s.File), "\n") {
			var ipStr string
			var port int
			if i := strings.Index(l, `"ip":"`); i >= 0 {
				rest := l[i+6:]
				ipStr = rest[:strings.Index(rest, `"`)]
			}
			if i := strings.Index(l, `"port":`); i >= 0 {
				fmt.Sscanf(l[i+7:], "%d", &port)
			}
			a, ok := oracle.RefIPv4(ipStr)
			if !ok {
				return nil, false
			}
			if s.Mode == "ipportfile" {
				if !oracle.Excluded(a, ex) {
					exp[oracle.Key(a, uint16(port))]++
				}
			} else {
				addrs = append(addrs, a)
			}
		}
		if s.Mode != "ipportfile" {
			oracle.ExpectAddrsPorts(exp, addrs, ports, ex)
		}
	}
	return exp, true
}

func scenC01(run *vlab.Run, sx, tmp string) {
	for i, s := range c01wireCases(run) {
		if !run.Mine(i) {
			continue
		}
		run.Case(fmt.Sprintf("wire%04d", i), s)
		exp, ok := wireExpected(s)
		if !ok {
			run.Inconclusive("reference semantics undefined")
			continue
		}
		args, stdin := wireArgs(tmp, s)
		res := RunCase(sx, &CaseSpec{Args: args, Stdin: stdin, Setup: commonWorld(s.Link), Timeout: 90 * time.Second})
		run.Eval(1)
		desc := map[string]interface{}{"spec": s, "argv": strings.Join(args, " ")}
		if !baseChecks(run, res, desc, true) {
			continue
		}
		got := map[uint64]int32{}
		bad := ""
		for _, f := range res.Frames(devName(s.Link)) {
			_, a, p, ok := decodeProbe(s.Kind, f, oLink(s.Link))
			if !ok {
				bad = fmt.Sprintf("%x", f)
				continue
			}
			got[oracle.Key(a, p)]++
		}
		if bad != "" {
			run.Violation("foreign-frame", fmt.Sprintf("a frame on the wire is not a %s probe: %.120s", s.Kind, bad), desc)
		}
		missing, extra, repeated := oracle.DiffMultiset(exp, got, 3)
		key := strings.Join(s.Cmd, "-") + ":" + s.Mode
		if s.NRanges > 200 {
			key += ":chunked"
		}
		for _, k := range missing {
			run.Violation("target-missing:"+key, fmt.Sprintf("%s never probed (%d of %d distinct targets seen): %s", oracle.KeyString(k), len(got), len(exp), strings.Join(args, " ")), desc)
		}
		for _, k := range extra {
			run.Violation("target-extra:"+key, fmt.Sprintf("%s probed but not specified: %s", oracle.KeyString(k), strings.Join(args, " ")), desc)
		}
		for _, k := range repeated {
			run.Violation("target-repeated:"+key, fmt.Sprintf("%s probed x%d, specified x%d: %s", oracle.KeyString(k), got[k], exp[k], strings.Join(args, " ")), desc)
		}
		var total int64
		for _, n := range got {
			total += int64(n)
		}
		run.Count("wire_probes_observed", total)
		run.Count("wire_runs", 1)
		run.Count("wire_cmd:"+s.Kind, 1)
		run.Count("wire_mode:"+s.Mode, 1)
		run.Count("wire_link:"+s.Link, 1)
		if s.NRanges > 200 {
			run.Count("wire_chunked_runs", 1)
		}
		if len(exp) >= 2 {
			run.Distinct(strings.Join(args, " ") + s.File)
		}
		if run.WantSample() && s.NRanges > 200 {
			run.Sample(map[string]interface{}{"argv_head": tailStr(strings.Join(args[:6], " "), 200), "port_ranges": s.NRanges, "probes_on_the_wire": total, "expected": len(exp)})
		}
	}
}
