package main

// C03 at level 2 — detection exactness with the kernel's BPF and the commands' own wiring.
//
// For every probe the peer may answer with a frame of a class chosen by a seeded script:
// reply-shaped variants (IP options, TCP options, payload, every flag combination, any ICMP
// type/code) and frames that are NOT reply-shaped (wrong flags for the SYN scan, source outside
// the target subnet, source port outside the scanned ranges incl. the range edges +-1, another
// protocol, echo request, IPv6, IP-in-IP, UDP, other ethertype). Every injection is a reaction
// to a probe, so it falls inside the filtered receive window of that probe's chunk.
// Oracle: the multiset of stdout records == the multiset of injected reply-shaped frames
// (address, port, flags / type, code, ttl / MAC), one record each.

import (
	"encoding/json"
	"fmt"
	"math/rand"
	"sort"
	"strings"
	"sync"
	"time"

	"verif.local/v/oracle"
	"verif.local/v/vlab"
)

func init() { scenarios["c03"] = scenC03 }

const foreignSrcIP = "10.9.250.250" // not configured locally: the host stack never answers injected segments

var foreignSrc = [4]byte{10, 9, 250, 250}

type c03spec struct {
	wireSpec
	Scan     string `json:"scan"` // syn | other (tcp fin/null/xmas/flags) | icmp | udp | arp
	Seed     int64  `json:"seed"`
	AnswerPM int    `json:"answer_permille"`
}

type c03inj struct {
	class  string
	expect bool
	rec    string // canonical record expected when expect
	frame  []byte
}

// canonical record strings
func recTCP(ip string, port uint16, flags string) string {
	return fmt.Sprintf("tcp %s %d %s", ip, port, flags)
}
func recICMP(ip string, typ, code, ttl uint8) string {
	return fmt.Sprintf("icmp %s %d/%d ttl=%d", ip, typ, code, ttl)
}
func recARP(ip, mac string) string { return fmt.Sprintf("arp %s %s", ip, mac) }

func parseRecord(line string) (string, error) {
	var m struct {
		Scan  string  `json:"scan"`
		IP    string  `json:"ip"`
		Port  *uint16 `json:"port"`
		Flags string  `json:"flags"`
		TTL   *uint8  `json:"ttl"`
		MAC   *string `json:"mac"`
		ICMP  *struct {
			Type uint8 `json:"type"`
			Code uint8 `json:"code"`
		} `json:"icmp"`
	}
	if err := json.Unmarshal([]byte(line), &m); err != nil {
		return "", err
	}
	switch {
	case m.MAC != nil:
		return recARP(m.IP, *m.MAC), nil
	case m.ICMP != nil:
		ttl := uint8(0)
		if m.TTL != nil {
			ttl = *m.TTL
		}
		return recICMP(m.IP, m.ICMP.Type, m.ICMP.Code, ttl), nil
	case m.Port != nil:
		return recTCP(m.IP, *m.Port, m.Flags), nil
	}
	return "", fmt.Errorf("unrecognised record")
}

func inRanges(p uint16, rs []oracle.PortRange) bool {
	for _, r := range rs {
		if p >= r.Start && p <= r.End {
			return true
		}
	}
	return false
}

// c03peer builds the reaction to one probe.
type c03peer struct {
	bgFrames int // reply-flagged frames from a port outside every scanned range, sent all through a chunked scan
	jumbo int // ICMP answers longer than the capture length
	s      *c03spec
	rng    *rand.Rand
	link   oracle.Link
	subnet *oracle.CIDR
	ports  []oracle.PortRange // all ranges given (nil: none given)
	mu     sync.Mutex
	inj    []c03inj
	budget int
	srcIP  [4]byte
}

func (p *c03peer) wrap(ipb []byte) []byte {
	if p.link == oracle.LinkEthernet {
		return oracle.BuildEth(tapMACb, [6]byte{2, 0, 0, 0, 0, 0x99}, oracle.EtherTypeIPv4, ipb)
	}
	return ipb
}

func (p *c03peer) ipSpec(src [4]byte, proto uint8) oracle.IPSpec {
	s := oracle.NewIPSpec(src, p.srcIP, proto)
	s.TTL = uint8(1 + p.rng.Intn(255))
	s.ID = uint16(p.rng.Intn(65536))
	switch p.rng.Intn(5) {
	case 0:
		s.Options = []byte{7, 39, 4, 0, 0, 0, 0, 0, 0, 0, 0, 0, 0, 0, 0, 0, 0, 0, 0, 0, 0, 0, 0, 0, 0, 0, 0, 0, 0, 0, 0, 0, 0, 0, 0, 0, 0, 0, 0, 0} // record route, 40 bytes
	case 1:
		s.Options = []byte{1, 1, 1, 0} // nops + end
	}
	if p.rng.Intn(4) == 0 {
		s.Flags = 0
	}
	return s
}

func (p *c03peer) tcpFrame(src [4]byte, sport, dport uint16, flags uint16) []byte {
	return p.tcpFrameLen(src, sport, dport, flags, 0)
}

// tcpFrameLen: payload > 0 asks for a segment with that many payload bytes (jumbo frames / segments merged by
// receive offload are longer than the scanner's capture length; their headers are inside the captured part)
func (p *c03peer) tcpFrameLen(src [4]byte, sport, dport uint16, flags uint16, payload int) []byte {
	ts := oracle.TCPSpec{SrcPort: sport, DstPort: dport, Seq: p.rng.Uint32(), Ack: p.rng.Uint32(), Flags: flags, Window: uint16(p.rng.Intn(65536)), DataOff: -1}
	switch p.rng.Intn(4) {
	case 0:
		ts.Options = []byte{2, 4, 5, 0xb4, 4, 2, 1, 3, 3, 7, 1, 1} // MSS, SACK-permitted, WS
	case 1:
		ts.Options = make([]byte, 40) // 40 bytes of NOP-equivalent (EOL) options
		for i := range ts.Options {
			ts.Options[i] = 1
		}
	}
	switch p.rng.Intn(5) {
	case 0:
		ts.Payload = make([]byte, 1+p.rng.Intn(20))
	case 1:
		ts.Payload = make([]byte, 1300)
	}
	if payload > 0 {
		ts.Payload = make([]byte, payload)
		p.rng.Read(ts.Payload)
	}
	return p.wrap(oracle.BuildIPv4(p.ipSpec(src, oracle.ProtoTCP), oracle.BuildTCP(src, p.srcIP, ts)))
}

func (p *c03peer) icmpFrame(src [4]byte, typ, code uint8, embed []byte) (frame []byte, ttl uint8) {
	pl := embed
	if pl == nil {
		pl = make([]byte, []int{0, 8, 48, 1400}[p.rng.Intn(4)])
		if p.rng.Intn(12) == 0 {
			pl = make([]byte, 1500+p.rng.Intn(5000)) // longer than the capture length
			p.jumbo++
		}
	}
	s := p.ipSpec(src, oracle.ProtoICMP)
	return p.wrap(oracle.BuildIPv4(s, oracle.BuildICMP(typ, code, uint16(p.rng.Intn(65536)), 1, pl))), s.TTL
}

func (p *c03peer) outside() [4]byte {
	for {
		a := p.rng.Uint32()
		switch p.rng.Intn(3) {
		case 0: // just outside the edges of the subnet
			a = p.subnet.Base - 1 - uint32(p.rng.Intn(3))
		case 1:
			a = p.subnet.Base + uint32(p.subnet.Size()) + uint32(p.rng.Intn(3))
		}
		if !p.subnet.Contains(a) {
			return oracle.U32ToIP(a)
		}
	}
}

func (p *c03peer) portOutside() (uint16, bool) {
	// an edge +-1 of a range that is outside all ranges, else a random outside port
	for try := 0; try < 20; try++ {
		r := p.ports[p.rng.Intn(len(p.ports))]
		var c uint16
		if p.rng.Intn(2) == 0 {
			c = r.Start - 1
		} else {
			c = r.End + 1
		}
		if try > 10 {
			c = uint16(p.rng.Intn(65536))
		}
		if !inRanges(c, p.ports) {
			return c, true
		}
	}
	return 0, false
}

// react returns the frames to inject for one probe addressed to (dst, dport).
func (p *c03peer) react(d *oracle.Decoded, probe []byte, dst uint32, dport uint16) []c03inj {
	p.mu.Lock()
	defer p.mu.Unlock()
	if p.budget <= 0 || p.rng.Intn(1000) >= p.s.AnswerPM {
		return nil
	}
	p.budget--
	src := oracle.U32ToIP(dst)
	srcS := oracle.IPString(src)
	var out []c03inj
	add := func(class string, expect bool, rec string, frame []byte) {
		out = append(out, c03inj{class, expect, rec, frame})
	}
	var sport uint16
	if d.TCP != nil {
		sport = d.TCP.SrcPort
	}
	switch p.s.Scan {
	case "syn", "other":
		syn := p.s.Scan == "syn"
		flagsStr := func(f uint16) string {
			if syn {
				return ""
			}
			return oracle.FlagString(f)
		}
		switch k := p.rng.Intn(12); {
		case k <= 2: // the canonical answer
			f := uint16(oracle.FlagSYN | oracle.FlagACK)
			if !syn && p.rng.Intn(2) == 0 {
				f = []uint16{oracle.FlagRST, oracle.FlagRST | oracle.FlagACK, 0, oracle.FlagFIN | oracle.FlagPSH | oracle.FlagURG, 0x1ff}[p.rng.Intn(5)]
			}
			if p.rng.Intn(6) == 0 {
				add("reply-jumbo", true, recTCP(srcS, dport, flagsStr(f)), p.tcpFrameLen(src, dport, sport, f, 1500+p.rng.Intn(5000)))
			} else {
				add("reply", true, recTCP(srcS, dport, flagsStr(f)), p.tcpFrame(src, dport, sport, f))
			}
		case k == 3 && !syn && p.rng.Intn(2) == 0: // the same reply with and without the ninth flag (NS), back to back
			f := uint16(p.rng.Intn(256))
			add("flags-ns-pair", true, recTCP(srcS, dport, flagsStr(f|oracle.FlagNS)), p.tcpFrame(src, dport, sport, f|oracle.FlagNS))
			add("flags-ns-pair", true, recTCP(srcS, dport, flagsStr(f)), p.tcpFrame(src, dport, sport, f))
			add("flags-ns-pair", true, recTCP(srcS, dport, flagsStr(f|oracle.FlagNS)), p.tcpFrame(src, dport, sport, f|oracle.FlagNS))
		case k == 3: // every other flag combination
			f := uint16(p.rng.Intn(512))
			shaped := !syn || f == oracle.FlagSYN|oracle.FlagACK
			add(fmt.Sprintf("flags-%v", shaped), shaped, recTCP(srcS, dport, flagsStr(f)), p.tcpFrame(src, dport, sport, f))
		case k == 4 && syn: // near misses of SYN+ACK
			f := []uint16{oracle.FlagSYN, oracle.FlagACK, oracle.FlagSYN | oracle.FlagACK | oracle.FlagECE, oracle.FlagSYN | oracle.FlagACK | oracle.FlagPSH, oracle.FlagRST | oracle.FlagACK, oracle.FlagSYN | oracle.FlagACK | oracle.FlagNS, oracle.FlagSYN | oracle.FlagACK | oracle.FlagFIN}[p.rng.Intn(7)]
			add("synack-near-miss", false, "", p.tcpFrame(src, dport, sport, f))
		case k == 5 && p.subnet != nil:
			add("source-outside-subnet", false, "", p.tcpFrame(p.outside(), dport, sport, oracle.FlagSYN|oracle.FlagACK))
		case k == 6 && p.ports != nil:
			if op, ok := p.portOutside(); ok {
				add("port-outside-ranges", false, "", p.tcpFrame(src, op, sport, oracle.FlagSYN|oracle.FlagACK))
			}
		case k == 6 && p.ports == nil: // no ports given: any source port is a reply
			op := uint16(1 + p.rng.Intn(65535))
			f := uint16(oracle.FlagSYN | oracle.FlagACK)
			add("reply-any-port", true, recTCP(srcS, op, flagsStr(f)), p.tcpFrame(src, op, sport, f))
		case k == 7:
			add("udp-instead", false, "", p.wrap(oracle.BuildIPv4(p.ipSpec(src, oracle.ProtoUDP), oracle.BuildUDP(src, p.srcIP, dport, sport, []byte("x")))))
		case k == 8:
			fr, _ := p.icmpFrame(src, 3, 3, nil)
			add("icmp-instead", false, "", fr)
		case k == 9: // IP-in-IP carrying a perfect reply
			inner := oracle.BuildIPv4(oracle.NewIPSpec(src, p.srcIP, oracle.ProtoTCP), oracle.BuildTCP(src, p.srcIP, oracle.TCPSpec{SrcPort: dport, DstPort: sport, Flags: oracle.FlagSYN | oracle.FlagACK, DataOff: -1}))
			add("ip-in-ip", false, "", p.wrap(oracle.BuildIPv4(p.ipSpec(src, oracle.ProtoIPIP), inner)))
		case k == 10 && p.link == oracle.LinkEthernet: // IPv6 + other ethertype
			v6 := make([]byte, 60)
			v6[0] = 0x60
			v6[6] = 6 // next header TCP
			v6[7] = 64
			add("ipv6", false, "", oracle.BuildEth(tapMACb, [6]byte{2, 0, 0, 0, 0, 0x99}, 0x86dd, v6))
			add("other-ethertype", false, "", oracle.BuildEth(tapMACb, [6]byte{2, 0, 0, 0, 0, 0x99}, 0x88cc, make([]byte, 46)))
		case k == 11: // the same reply twice: two frames, two records
			f := uint16(oracle.FlagSYN | oracle.FlagACK)
			fr := p.tcpFrame(src, dport, sport, f)
			add("reply-dup", true, recTCP(srcS, dport, flagsStr(f)), fr)
			add("reply-dup", true, recTCP(srcS, dport, flagsStr(f)), append([]byte(nil), fr...))
		}
	case "icmp", "udp":
		embed := []byte(nil)
		if d.IP != nil && p.s.Scan == "udp" {
			// ICMP error embedding the original IP header + 8 bytes
			raw := probe
			if p.link == oracle.LinkEthernet && len(raw) >= 14 {
				raw = raw[14:]
			}
			if len(raw) >= 28 {
				embed = append([]byte(nil), raw[:28]...)
			}
		}
		switch k := p.rng.Intn(10); {
		case k <= 2:
			typ, code := uint8(0), uint8(0)
			if p.s.Scan == "udp" {
				typ, code = 3, 3
			}
			fr, ttl := p.icmpFrame(src, typ, code, embed)
			add("reply", true, recICMP(srcS, typ, code, ttl), fr)
		case k == 3: // any type/code other than echo request
			typ := uint8(p.rng.Intn(256))
			code := uint8(p.rng.Intn(256))
			fr, ttl := p.icmpFrame(src, typ, code, embed)
			add(fmt.Sprintf("type-%v", typ != 8), typ != 8, recICMP(srcS, typ, code, ttl), fr)
		case k == 4:
			fr, _ := p.icmpFrame(src, 8, uint8(p.rng.Intn(2)), nil)
			add("echo-request", false, "", fr)
		case k == 5 && p.subnet != nil:
			fr, _ := p.icmpFrame(p.outside(), 0, 0, nil)
			add("source-outside-subnet", false, "", fr)
		case k == 6:
			add("tcp-instead", false, "", p.tcpFrame(src, 80, 40000, oracle.FlagSYN|oracle.FlagACK))
		case k == 7:
			add("udp-instead", false, "", p.wrap(oracle.BuildIPv4(p.ipSpec(src, oracle.ProtoUDP), oracle.BuildUDP(src, p.srcIP, dport, 40000, []byte("reply")))))
		case k == 8:
			inner := oracle.BuildIPv4(oracle.NewIPSpec(src, p.srcIP, oracle.ProtoICMP), oracle.BuildICMP(0, 0, 1, 1, nil))
			add("ip-in-ip", false, "", p.wrap(oracle.BuildIPv4(p.ipSpec(src, oracle.ProtoIPIP), inner)))
		case k == 9:
			fr, ttl := p.icmpFrame(src, 11, 0, embed)
			add("reply-dup", true, recICMP(srcS, 11, 0, ttl), fr)
			add("reply-dup", true, recICMP(srcS, 11, 0, ttl), append([]byte(nil), fr...))
		}
	case "arp":
		var mac [6]byte
		p.rng.Read(mac[:])
		mac[0] &^= 1
		eth := func(sha [6]byte, body []byte) []byte { return oracle.BuildEth(tapMACb, sha, oracle.EtherTypeARP, body) }
		switch k := p.rng.Intn(9); {
		case k <= 1:
			add("reply", true, recARP(srcS, oracle.MACString(mac[:])), eth(mac, oracle.BuildARP(2, mac, src, tapMACb, p.srcIP)))
		case k == 2: // proxy ARP / VRRP: the Ethernet source is not the ARP sender hardware address; the record carries the sender MAC
			var via [6]byte
			p.rng.Read(via[:])
			via[0] &^= 1
			add("reply-via-other-mac", true, recARP(srcS, oracle.MACString(mac[:])), eth(via, oracle.BuildARP(2, mac, src, tapMACb, p.srcIP)))
		case k == 8: // sender address inside the subnet, Ethernet frame from anybody, target address anything
			var tpa [4]byte
			p.rng.Read(tpa[:])
			add("reply-other-target", true, recARP(srcS, oracle.MACString(mac[:])), eth(mac, oracle.BuildARP(2, mac, src, [6]byte{0xff, 0xff, 0xff, 0xff, 0xff, 0xff}, tpa)))
		case k == 3: // padded to the Ethernet minimum
			add("reply-padded", true, recARP(srcS, oracle.MACString(mac[:])), eth(mac, append(oracle.BuildARP(2, mac, src, tapMACb, p.srcIP), make([]byte, 18)...)))
		case k == 4: // any opcode is ARP from a target
			add("request-from-target", true, recARP(srcS, oracle.MACString(mac[:])), eth(mac, oracle.BuildARP(1, mac, src, [6]byte{}, p.srcIP)))
		case k == 5 && p.subnet != nil:
			add("source-outside-subnet", false, "", eth(mac, oracle.BuildARP(2, mac, p.outside(), tapMACb, p.srcIP)))
		case k == 6:
			// an IPv4 frame from the target is not ARP
			add("ip-instead", false, "", p.tcpFrame(src, 80, 40000, oracle.FlagSYN|oracle.FlagACK))
		case k == 7:
			add("reply-dup", true, recARP(srcS, oracle.MACString(mac[:])), eth(mac, oracle.BuildARP(2, mac, src, tapMACb, p.srcIP)))
			add("reply-dup", true, recARP(srcS, oracle.MACString(mac[:])), eth(mac, oracle.BuildARP(2, mac, src, tapMACb, p.srcIP)))
		}
	}
	p.inj = append(p.inj, out...)
	return out
}

func c03cases(run *vlab.Run) []*c03spec {
	rng := run.Rand("c03wire")
	type ck struct {
		cmd        []string
		kind, scan string
	}
	cmds := []ck{{[]string{"arp"}, "arp", "arp"}, {[]string{"icmp"}, "icmp", "icmp"}, {[]string{"udp"}, "udp", "udp"}, {[]string{"tcp"}, "tcp", "syn"}, {[]string{"tcp", "syn"}, "tcp", "syn"},
		{[]string{"tcp", "fin"}, "tcp", "other"}, {[]string{"tcp", "null"}, "tcp", "other"}, {[]string{"tcp", "xmas"}, "tcp", "other"}, {[]string{"tcp", "--flags", "ack"}, "tcp", "other"}, {[]string{"tcp", "syn"}, "tcp", "syn"}}
	var cases []*c03spec
	n := run.Pick(240, 2400)
	for i := 0; i < n; i++ {
		c := cmds[i%len(cmds)]
		s := &c03spec{Scan: c.scan, Seed: rng.Int63(), AnswerPM: []int{1000, 700, 300}[rng.Intn(3)]}
		s.Cmd, s.Kind, s.Link, s.Mode = c.cmd, c.kind, "tap", "subnet"
		if c.kind != "arp" && rng.Intn(4) == 0 {
			s.Link = "tun"
		}
		portful := c.kind == "udp" || c.kind == "tcp"
		bits := 26 + rng.Intn(6)
		base := (0x0a090000 | rng.Uint32()&0xff00) &^ (1<<uint(32-bits) - 1)
		s.Subnet = fmt.Sprintf("%s/%d", ipS(base), bits)
		if portful {
			s.NRanges = []int{1, 2, 5, 201, 401, 200, 400}[rng.Intn(7)]
			if s.NRanges >= 200 {
				bits = 30 + rng.Intn(3)
				base &^= 1<<uint(32-bits) - 1
				s.Subnet = fmt.Sprintf("%s/%d", ipS(base), bits)
			}
			s.Ports = randPortRanges(rng, s.NRanges)
			if i%5 == 2 {
				// nested / containing / duplicated / reversed-order ranges: the filter must cover their union
				a := 1000 + rng.Intn(60000)
				s.Ports = [][]string{
					{fmt.Sprintf("%d-%d", a, a+40), fmt.Sprintf("%d-%d", a+10, a+15)},
					{fmt.Sprintf("%d-%d", a+10, a+15), fmt.Sprintf("%d-%d", a, a+40)},
					{fmt.Sprintf("%d-%d", a, a+30), fmt.Sprintf("%d-%d", a, a+30), fmt.Sprint(a + 5)},
					{fmt.Sprintf("%d-%d", a, a+20), fmt.Sprintf("%d-%d", a+20, a+40), fmt.Sprintf("%d-%d", a+5, a+6)},
					{fmt.Sprintf("%d-%d", a+30, a+40), fmt.Sprintf("%d-%d", a, a+35), fmt.Sprint(a + 40)},
				}[rng.Intn(5)][0] + "," + strings.Join([][]string{
					{fmt.Sprintf("%d-%d", a+10, a+15)}, {fmt.Sprintf("%d-%d", a, a+40)}, {fmt.Sprintf("%d-%d", a+3, a+4)}}[rng.Intn(3)], ",")
				s.NRanges = 2
				bits = 31
				base &^= 1
				s.Subnet = fmt.Sprintf("%s/%d", ipS(base), bits)
				s.AnswerPM = 1000
				run.Count("c03_nested_range_cases", 1)
			}
		}
		if c.kind == "tcp" && i%40 == 17 {
			// every port but 0 is scanned: a reply from source port 0 is still from an unscanned port
			s.Ports = []string{"1-65535", "22,1-65535", "1-65535,65535"}[i/40%3]
			s.NRanges = strings.Count(s.Ports, ",") + 1
			bits = 32
			s.Subnet = fmt.Sprintf("%s/32", ipS(base))
			s.AnswerPM = 4
			run.Count("c03_whole_port_space_cases", 1)
		}
		if c.kind != "arp" && rng.Intn(3) == 0 {
			// file modes: no subnet given => any source address is acceptable
			s.Mode = "addrfile"
			if portful && rng.Intn(2) == 0 {
				s.Mode = "ipportfile"
			}
			var sb strings.Builder
			for k := 0; k < 4+rng.Intn(20); k++ {
				a := 0x0a090000 | rng.Uint32()&0xffff
				if s.Mode == "ipportfile" {
					fmt.Fprintf(&sb, "{\"ip\":\"%s\",\"port\":%d}\n", ipS(a), 1+rng.Intn(65535))
				} else {
					fmt.Fprintf(&sb, "{\"ip\":\"%s\"}\n", ipS(a))
				}
			}
			s.File, s.Subnet = sb.String(), ""
			if s.Mode == "ipportfile" {
				s.Ports, s.NRanges = "", 0
			}
		}
		s.Extra = []string{"--srcip", foreignSrcIP}
		cases = append(cases, s)
	}
	return cases
}

func scenC03(run *vlab.Run, sx, tmp string) {
	for i, s := range c03cases(run) {
		if !run.Mine(i) {
			continue
		}
		run.Case(fmt.Sprintf("c03w%04d", i), s)
		// a missing record is an upper bound for sx (it has to get to the frame before its exit timer fires): it is
		// judged on up to three runs of the same scenario; a spurious record is judged at once
		for attempt := 0; attempt < 3; attempt++ {
			retry := false
			peer := &c03peer{s: s, rng: rand.New(rand.NewSource(s.Seed)), link: oLink(s.Link), budget: 250, srcIP: foreignSrc}
			if s.Subnet != "" {
				c, _ := oracle.RefTarget(s.Subnet)
				peer.subnet = &c
			}
			if s.Ports != "" {
				peer.ports, _ = oracle.RefPortList(s.Ports)
			}
			args, stdin := wireArgs(tmp, &s.wireSpec)
			dev := devName(s.Link)
			spec := &CaseSpec{Args: args, Stdin: stdin, Setup: commonWorld(s.Link), Timeout: 90 * time.Second,
				OnTx: func(c *CaseRun, d *Dev, frame []byte) {
					if d.Name != dev {
						return
					}
					dec, a, port, ok := decodeProbe(s.Kind, frame, oLink(s.Link))
					if !ok {
						return
					}
					for _, in := range peer.react(dec, frame, a, port) {
						c.Inject(d, in.frame)
					}
				}}
			stopBg := make(chan struct{})
			if s.Kind == "tcp" && s.NRanges >= 200 && peer.subnet != nil && peer.ports != nil {
				// chunked scans: from start to exit a host of the subnet keeps sending reply-flagged segments from a
				// port that is in none of the scanned ranges - whatever chunk (or gap between chunks) is current,
				// they are not replies
				bgRng := rand.New(rand.NewSource(s.Seed + 77))
				var op uint16
				for try := 0; try < 1000; try++ {
					op = uint16(1 + bgRng.Intn(65535))
					if !inRanges(op, peer.ports) {
						break
					}
				}
				bgSrc := oracle.U32ToIP(peer.subnet.Base + uint32(bgRng.Intn(int(peer.subnet.Size()))))
				spec.OnStart = func(c *CaseRun) {
					d := c.World.Dev(dev)
					for {
						select {
						case <-stopBg:
							return
						case <-time.After(4 * time.Millisecond):
						}
						peer.mu.Lock()
						fr := peer.tcpFrame(bgSrc, op, 40000, oracle.FlagSYN|oracle.FlagACK)
						peer.bgFrames++
						peer.mu.Unlock()
						func() {
							defer func() { recover() }()
							c.Inject(d, fr)
						}()
					}
				}
			}
			res := RunCase(sx, spec)
			close(stopBg)
			run.Eval(1)
			desc := map[string]interface{}{"spec": s, "argv": strings.Join(args, " ")}
			if !baseChecks(run, res, desc, true) {
				break
			}
			run.Count("c03_background_frames_from_unscanned_port", int64(peer.bgFrames))
			// expected records
			exp := map[string]int{}
			classOf := map[string]string{}
			nExp, nNot := 0, 0
			byClass := map[string]int{}
			for _, in := range peer.inj {
				byClass[in.class]++
				if in.expect {
					exp[in.rec]++
					classOf[in.rec] = in.class
					nExp++
				} else {
					nNot++
				}
			}
			got := map[string]int{}
			for _, l := range res.Stdout {
				rec, err := parseRecord(strings.TrimSpace(l))
				if err != nil {
					run.Violation("unparseable-record", fmt.Sprintf("stdout line is not a record: %.200q (%v)", l, err), desc)
					continue
				}
				got[rec]++
			}
			cmdKey := strings.Join(s.Cmd, "-") + "/" + s.Link
			ok := true
			var keys []string
			for r := range got {
				keys = append(keys, r)
			}
			sort.Strings(keys)
			for _, r := range keys {
				if got[r] > exp[r] {
					ok = false
					why := "no injected frame has that shape"
					if exp[r] > 0 {
						why = fmt.Sprintf("%d such frames were injected", exp[r])
					}
					run.Violation("spurious-record:"+cmdKey, fmt.Sprintf("record %q printed x%d; %s (%d reply-shaped and %d other frames injected): %s", r, got[r], why, nExp, nNot, strings.Join(args, " ")),
						map[string]interface{}{"case": desc, "injected_by_class": byClass, "stdout": tailStr(strings.Join(res.Stdout, ""), 3000)})
				}
			}
			for r, n := range exp {
				if got[r] < n {
					if res.Stall > 150*time.Millisecond {
						run.Inconclusive(fmt.Sprintf("missing record but the monitor stalled %v", res.Stall))
						ok = false
						break
					}
					ok = false
					if attempt < 2 {
						retry = true
						run.Count("missing_record_runs_retried", 1)
						break
					}
					run.Violation("reply-not-reported:"+cmdKey+":"+classOf[r], fmt.Sprintf("reply-shaped frame (class %s) %q injected x%d right after its probe, reported x%d: %s", classOf[r], r, n, got[r], strings.Join(args, " ")),
						map[string]interface{}{"case": desc, "injected_by_class": byClass, "stdout": tailStr(strings.Join(res.Stdout, ""), 2000)})
				}
			}
			if retry {
				continue
			}
			if ok {
				run.Count("c03_runs_matched", 1)
			}
			run.Count("c03_runs", 1)
			run.Count("c03_cmd:"+s.Scan, 1)
			run.Count("c03_link:"+s.Link, 1)
			run.Count("frames_injected_reply_shaped", int64(nExp))
			run.Count("frames_injected_not_reply_shaped", int64(nNot))
			run.Count("records_matched", int64(len(res.Stdout)))
			for c, n := range byClass {
				run.Count("class:"+c, int64(n))
			}
			run.Count("icmp_answers_longer_than_capture_length", int64(peer.jumbo))
			if s.NRanges >= 200 {
				run.Count("c03_chunked_runs", 1)
			}
			if s.Mode != "subnet" {
				run.Count("c03_file_mode_runs", 1)
			}
			if nExp+nNot > 0 {
				run.Distinct(strings.Join(args, " ") + fmt.Sprint(s.Seed))
			}
			if run.WantSample() && nExp > 3 && nNot > 3 {
				run.Sample(map[string]interface{}{"argv": tailStr(strings.Join(args, " "), 160), "injected_by_class": byClass, "records": len(res.Stdout)})
			}
			break
		}
	}
}

// backlog: thousands of replies while nobody reads stdout for a while (the pipe fills, results queue up in the
// engine's two 1000-slot buffers, the receiver is back-pressured): when the consumer comes back every reply
// must still be printed exactly once, with its own fields.
func init() { scenarios["c03backlog"] = scenC03Backlog }

func scenC03Backlog(run *vlab.Run, sx, tmp string) {
	rng := run.Rand("c03backlog")
	n := run.Pick(4, 24)
	for i := 0; i < n; i++ {
		if !run.Mine(i) {
			continue
		}
		kind := []string{"tcp", "icmp", "arp", "tcp"}[i%4]
		s := &wireSpec{Kind: kind, Link: "tap", Mode: "subnet", Subnet: fmt.Sprintf("10.9.%d.0/%d", 16*(1+rng.Intn(14)), 20)}
		switch kind {
		case "tcp":
			s.Cmd, s.Ports = [][]string{{"tcp", "syn"}, {"tcp", "fin"}}[i/4%2], fmt.Sprint(1+rng.Intn(65535))
		case "icmp":
			s.Cmd = []string{"icmp"}
		default:
			s.Cmd = []string{"arp"}
		}
		s.Extra = []string{"--srcip", foreignSrcIP, "--exit-delay", "3s"}
		args, stdin := wireArgs(tmp, s)
		run.Case(fmt.Sprintf("backlog%03d", i), args)
		var mu sync.Mutex
		exp := map[string]int{}
		prng := rand.New(rand.NewSource(int64(i)))
		res := RunCase(sx, &CaseSpec{Args: args, Stdin: stdin, Setup: commonWorld("tap"), Timeout: 120 * time.Second, StdoutHold: 1200 * time.Millisecond,
			OnTx: func(c *CaseRun, d *Dev, frame []byte) {
				dec, a, port, ok := decodeProbe(kind, frame, oracle.LinkEthernet)
				if !ok {
					return
				}
				fr, rec := replyFor(kind, oracle.LinkEthernet, dec, a, port, prng)
				if kind == "tcp" && s.Cmd[1] == "fin" {
					rec = recTCP(ipS(a), port, "sa")
				}
				mu.Lock()
				exp[rec]++
				mu.Unlock()
				c.Inject(d, fr)
			}})
		run.Eval(1)
		if !baseChecks(run, res, args, true) {
			continue
		}
		got := map[string]int{}
		for _, l := range res.Stdout {
			rec, err := parseRecord(strings.TrimSpace(l))
			if err != nil {
				run.Violation("unparseable-record", fmt.Sprintf("stdout line is not a record: %.200q", l), args)
				continue
			}
			got[rec]++
		}
		extra, missing := 0, 0
		example := ""
		for r, c := range got {
			if c > exp[r] {
				extra += c - exp[r]
				example = r
			}
		}
		for r, c := range exp {
			if got[r] < c {
				missing += c - got[r]
			}
		}
		if extra > 0 {
			run.Violation("backlog:record-repeated-or-foreign", fmt.Sprintf("%d records more than replies were injected (e.g. %q x%d for x%d) after the output consumer had stalled for 1.2 s with %d replies pending: %s", extra, example, got[example], exp[example], len(exp), strings.Join(args, " ")), args)
		}
		if missing > 0 {
			if res.Stall > 200*time.Millisecond {
				run.Inconclusive("records missing after a stalled consumer, monitor stalled too")
			} else {
				run.Violation("backlog:record-lost", fmt.Sprintf("%d of %d replies were never printed although the consumer came back 1.8 s before the exit delay ended: %s", missing, len(exp), strings.Join(args, " ")), args)
			}
		}
		if extra == 0 && missing == 0 {
			run.Count("backlog_runs_ok", 1)
		}
		run.Count("backlog_runs", 1)
		run.Count("backlog_replies", int64(len(res.Stdout)))
		run.Distinct(strings.Join(args, " "))
	}
}

// ---------------------------------------------------------------------------
// prefilter: traffic that is already flowing when the scan starts. Between the creation of the
// AF_PACKET socket and the attachment of the BPF program the socket queues every frame; those
// frames are later handed to the processor, which checks neither subnet nor ports. A record whose
// only matching frame was injected BEFORE the first probe was seen is keyed `pre-filter-window`
// (a known finding of the unchanged tree); any other spurious record is an ordinary violation.

func init() { scenarios["c03pre"] = scenC03Pre }

func scenC03Pre(run *vlab.Run, sx, tmp string) {
	rng := run.Rand("c03pre")
	n := run.Pick(12, 60)
	for i := 0; i < n; i++ {
		if !run.Mine(i) {
			continue
		}
		port := uint16(1 + rng.Intn(65535))
		subnet := fmt.Sprintf("10.9.%d.0/28", 1+rng.Intn(200))
		args := []string{"tcp", "syn", "--json", "-i", "tap0", "--gwmac", gwMAC, "-p", fmt.Sprint(port), "--srcip", foreignSrcIP, subnet}
		run.Case(fmt.Sprintf("pre%03d", i), args)
		var mu sync.Mutex
		firstProbe := false
		type bg struct {
			rec    string
			before bool
		}
		var sent []bg
		shapedRecs := map[string]bool{}
		stop := make(chan struct{})
		bgSrc := [4]byte{192, 168, 77, byte(1 + rng.Intn(250))}
		spec := &CaseSpec{Args: args, Stdin: []byte{}, Setup: commonWorld("tap"), Timeout: 60 * time.Second,
			OnStart: func(c *CaseRun) {
				d := c.World.Dev("tap0")
				seq := 0
				for {
					select {
					case <-stop:
						return
					default:
					}
					mu.Lock()
					fp := firstProbe
					mu.Unlock()
					if fp {
						return
					}
					seq++
					sp := uint16(1024 + seq%60000)
					src := bgSrc
					shaped := false
					if seq%5 == 0 {
						// now and then a frame that IS reply-shaped (a host of the subnet, the scanned port): whether it is
						// reported depends on when the socket came to be - either way it must not unlock the frames behind it
						sn, _ := oracle.RefTarget(subnet)
						src, sp, shaped = oracle.U32ToIP(sn.Base+uint32(seq/5%14)+1), port, true
					}
					ip := oracle.BuildIPv4(oracle.NewIPSpec(src, foreignSrc, oracle.ProtoTCP), oracle.BuildTCP(src, foreignSrc, oracle.TCPSpec{SrcPort: sp, DstPort: 40000, Flags: oracle.FlagSYN | oracle.FlagACK, DataOff: -1}))
					mu.Lock()
					if shaped {
						shapedRecs[recTCP(oracle.IPString(src), sp, "")] = true
					} else {
						sent = append(sent, bg{recTCP(oracle.IPString(bgSrc), sp, ""), !firstProbe})
					}
					mu.Unlock()
					c.Inject(d, oracle.BuildEth(tapMACb, [6]byte{2, 0, 0, 0, 0, 0x99}, oracle.EtherTypeIPv4, ip))
					time.Sleep(200 * time.Microsecond)
				}
			},
			OnTx: func(c *CaseRun, d *Dev, frame []byte) {
				mu.Lock()
				firstProbe = true
				mu.Unlock()
			}}
		res := RunCase(sx, spec)
		close(stop)
		run.Eval(1)
		if !baseChecks(run, res, args, true) {
			continue
		}
		before := map[string]bool{}
		mu.Lock()
		for _, b := range sent {
			if b.before {
				before[b.rec] = true
			}
		}
		nSent := len(sent)
		mu.Unlock()
		nPre := 0
		for _, l := range res.Stdout {
			rec, err := parseRecord(strings.TrimSpace(l))
			if err != nil {
				run.Violation("unparseable-record", fmt.Sprintf("stdout line is not a record: %.200q", l), args)
				continue
			}
			if before[rec] {
				nPre++
				continue
			}
			mu.Lock()
			sh := shapedRecs[rec]
			mu.Unlock()
			if sh {
				run.Count("prefilter_reply_shaped_background_records", 1)
				continue
			}
			run.Violation("spurious-record:background", fmt.Sprintf("record %q printed although no reply-shaped frame was injected and it matches no frame sent before the first probe: %s", rec, strings.Join(args, " ")), args)
		}
		if nPre > 0 {
			run.Violation("pre-filter-window", fmt.Sprintf("%d records for frames from %s (outside the target subnet %s) that were on the wire before the first probe: the socket queues unfiltered frames until its BPF program is attached (%d background frames sent): %s", nPre, oracle.IPString(bgSrc), subnet, nSent, strings.Join(args, " ")), map[string]interface{}{"argv": args, "stdout": tailStr(strings.Join(res.Stdout, ""), 1500)})
			run.Count("prefilter_runs_with_records", 1)
		}
		run.Count("prefilter_runs", 1)
		run.Count("background_frames", int64(nSent))
		run.Distinct(strings.Join(args, " "))
	}
}
