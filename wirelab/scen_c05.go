package main

// C05 at level 2 — probe frames of the real binary carry exactly what the command line asked
// for, on tap (Ethernet) and tun (raw IP) wires: source MAC/IP (--srcmac, --srcip, interface
// defaults), destination MAC (--gwmac / ARP cache / broadcast for ARP), TTL, IP flags,
// protocol and total-length overrides, ICMP type/code, payload bytes, TCP flags; lengths,
// offsets and checksums consistent (independent decoder); ARP requests are exactly 42 bytes
// with 6/4-byte addresses.

import (
	"bytes"
	"fmt"
	"math/rand"
	"strings"
	"time"

	"verif.local/v/oracle"
	"verif.local/v/vlab"
)

func init() { scenarios["c05"] = scenC05 }

type c05case struct {
	Cmd     string `json:"command"` // arp icmp udp tcp
	Link    string `json:"link"`
	Target  string `json:"target"`
	Ports   string `json:"ports,omitempty"`
	SrcIP   string `json:"srcip,omitempty"`
	SrcMAC  string `json:"srcmac,omitempty"`
	GwMAC   string `json:"gwmac,omitempty"`
	Cache   bool   `json:"arp_cache_for_half_of_the_targets,omitempty"`
	TTL     int    `json:"ttl"`      // -1 absent
	IPFlags string `json:"ipflags"`  // "" absent
	IPProto int    `json:"ipproto"`  // -1 absent
	IPLen   int    `json:"iplen"`    // -1 absent
	Type    int    `json:"icmp_type"` // -1 absent
	Code    int    `json:"icmp_code"`
	Payload []byte `json:"payload,omitempty"`
	HasPL   bool   `json:"payload_given"`
	Flags   string `json:"tcp_flags,omitempty"` // "" = subcommand decides
	Sub     string `json:"tcp_subcommand,omitempty"`
}

var c05flagBits = map[string]uint16{"syn": oracle.FlagSYN, "ack": oracle.FlagACK, "fin": oracle.FlagFIN, "rst": oracle.FlagRST, "psh": oracle.FlagPSH, "urg": oracle.FlagURG, "ece": oracle.FlagECE, "cwr": oracle.FlagCWR, "ns": oracle.FlagNS}

func scenC05(run *vlab.Run, sx, tmp string) {
	rng := run.Rand("c05wire")
	n := run.Pick(240, 2400)
	for i := 0; i < n; i++ {
		c := &c05case{Cmd: []string{"arp", "icmp", "udp", "tcp", "tcp", "icmp"}[i%6], Link: "tap", TTL: -1, IPProto: -1, IPLen: -1, Type: -1, Code: -1}
		if c.Cmd != "arp" && rng.Intn(4) == 0 {
			c.Link = "tun"
		}
		bits := 28 + rng.Intn(4)
		base := (0x0a090000 | rng.Uint32()&0xff00) &^ (1<<uint(32-bits) - 1)
		c.Target = fmt.Sprintf("%s/%d", ipS(base), bits)
		if rng.Intn(2) == 0 {
			c.SrcIP = []string{"192.0.2.7", "10.9.250.250", "1.2.3.4", "223.255.255.254"}[rng.Intn(4)]
		}
		if c.Link == "tap" && rng.Intn(2) == 0 {
			c.SrcMAC = fmt.Sprintf("02:aa:%02x:%02x:%02x:%02x", rng.Intn(256), rng.Intn(256), rng.Intn(256), rng.Intn(256))
		}
		if c.Cmd != "arp" && c.Link == "tap" {
			c.GwMAC = fmt.Sprintf("02:bb:%02x:%02x:%02x:%02x", rng.Intn(256), rng.Intn(256), rng.Intn(256), rng.Intn(256))
			c.Cache = rng.Intn(3) == 0
		}
		if c.Cmd == "icmp" || c.Cmd == "udp" {
			if rng.Intn(2) == 0 {
				c.TTL = []int{0, 1, 37, 64, 128, 255}[rng.Intn(6)]
			}
			if rng.Intn(2) == 0 {
				c.IPFlags = []string{"df", "mf", "evil", "df,mf", "evil,df", "DF,MF,EVIL", "mf,evil"}[rng.Intn(7)]
			}
			if rng.Intn(6) == 0 {
				c.IPProto = []int{0, 1, 17, 47, 157, 255}[rng.Intn(6)]
			}
			if rng.Intn(6) == 0 {
				c.IPLen = []int{1, 20, 28, 1500, 65535}[rng.Intn(5)] // 0 is the flag's "not set" value
			}
			if rng.Intn(2) == 0 {
				c.HasPL = true
				c.Payload = make([]byte, []int{1, 2, 3, 7, 48, 255, 1000, 1472}[rng.Intn(8)])
				rng.Read(c.Payload)
			}
		}
		if c.Cmd == "icmp" {
			if rng.Intn(2) == 0 {
				c.Type = []int{0, 8, 13, 15, 17, 255}[rng.Intn(6)]
			}
			if rng.Intn(2) == 0 {
				c.Code = []int{0, 1, 255}[rng.Intn(3)]
			}
		}
		if c.Cmd == "udp" || c.Cmd == "tcp" {
			c.Ports = []string{"53", "80,443", "1-3", "65535", "0-1"}[rng.Intn(5)]
		}
		if c.Cmd == "tcp" {
			switch rng.Intn(6) {
			case 0:
				c.Sub = "syn"
			case 1:
				c.Sub = "fin"
			case 2:
				c.Sub = "null"
			case 3:
				c.Sub = "xmas"
			case 4:
				names := []string{"syn", "ack", "fin", "rst", "psh", "urg", "ece", "cwr", "ns"}
				rng.Shuffle(len(names), func(a, b int) { names[a], names[b] = names[b], names[a] })
				c.Flags = strings.Join(names[:1+rng.Intn(9)], ",")
				if rng.Intn(2) == 0 {
					c.Flags = strings.ToUpper(c.Flags)
				}
			}
		}
		if !run.Mine(i) {
			continue
		}
		run.Case(fmt.Sprintf("c05w%04d", i), c)
		// ---- argv
		args := []string{c.Cmd}
		if c.Sub != "" {
			args = append(args, c.Sub)
		}
		dev := devName(c.Link)
		args = append(args, "--json", "-i", dev, "--exit-delay", "20ms")
		cidr, _ := oracle.RefTarget(c.Target)
		cache := map[uint32][6]byte{}
		if c.Cmd != "arp" && c.Link == "tap" {
			var sb strings.Builder
			if c.Cache {
				for a := cidr.Base; a < cidr.Base+uint32(cidr.Size()); a += 2 {
					mac := [6]byte{2, 0xcc, byte(a >> 24), byte(a >> 16), byte(a >> 8), byte(a)}
					cache[a] = mac
					fmt.Fprintf(&sb, "{\"ip\":\"%s\",\"mac\":\"%s\"}\n", ipS(a), oracle.MACString(mac[:]))
				}
			}
			args = append(args, "--gwmac", c.GwMAC, "-a", writeFile(tmp, "arp.cache", sb.String()))
		}
		add := func(a ...string) { args = append(args, a...) }
		if c.SrcIP != "" {
			add("--srcip", c.SrcIP)
		}
		if c.SrcMAC != "" {
			add("--srcmac", c.SrcMAC)
		}
		if c.TTL >= 0 {
			add("--ttl", fmt.Sprint(c.TTL))
		}
		if c.IPFlags != "" {
			add("--ipflags", c.IPFlags)
		}
		if c.IPProto >= 0 {
			add("--ipproto", fmt.Sprint(c.IPProto))
		}
		if c.IPLen >= 0 {
			add("--iplen", fmt.Sprint(c.IPLen))
		}
		if c.Type >= 0 {
			add("--type", fmt.Sprint(c.Type))
		}
		if c.Code >= 0 {
			add("--code", fmt.Sprint(c.Code))
		}
		if c.HasPL {
			var esc strings.Builder
			for _, b := range c.Payload {
				fmt.Fprintf(&esc, "\\x%02x", b)
			}
			add("--payload", esc.String())
		}
		if c.Ports != "" {
			add("-p", c.Ports)
		}
		if c.Flags != "" {
			add("--flags", c.Flags)
		}
		add(c.Target)
		res := RunCase(sx, &CaseSpec{Args: args, Setup: commonWorld(c.Link), Timeout: 60 * time.Second})
		run.Eval(1)
		desc := map[string]interface{}{"case": c, "argv": tailStr(strings.Join(args, " "), 400)}
		if !baseChecks(run, res, desc, true) {
			continue
		}
		// ---- expectations
		wantSrcIP, _ := oracle.RefIPv4("10.9.0.1")
		if c.SrcIP != "" {
			wantSrcIP, _ = oracle.RefIPv4(c.SrcIP)
		}
		wantSrcMAC := tapMACb
		if c.SrcMAC != "" {
			fmt.Sscanf(strings.ReplaceAll(c.SrcMAC, ":", " "), "%x %x %x %x %x %x", &wantSrcMAC[0], &wantSrcMAC[1], &wantSrcMAC[2], &wantSrcMAC[3], &wantSrcMAC[4], &wantSrcMAC[5])
		}
		var gw [6]byte
		if c.GwMAC != "" {
			fmt.Sscanf(strings.ReplaceAll(c.GwMAC, ":", " "), "%x %x %x %x %x %x", &gw[0], &gw[1], &gw[2], &gw[3], &gw[4], &gw[5])
		}
		wantTTL := uint8(64)
		if c.TTL >= 0 {
			wantTTL = uint8(c.TTL)
		}
		wantIPFlags := uint8(2) // DF
		if c.IPFlags != "" {
			wantIPFlags = 0
			for _, f := range strings.Split(strings.ToLower(c.IPFlags), ",") {
				wantIPFlags |= map[string]uint8{"df": 2, "mf": 1, "evil": 4}[f]
			}
		}
		var wantTCP uint16
		switch {
		case c.Flags != "":
			for _, f := range strings.Split(strings.ToLower(c.Flags), ",") {
				wantTCP |= c05flagBits[f]
			}
		case c.Sub == "fin":
			wantTCP = oracle.FlagFIN
		case c.Sub == "null":
			wantTCP = 0
		case c.Sub == "xmas":
			wantTCP = oracle.FlagFIN | oracle.FlagPSH | oracle.FlagURG
		default:
			wantTCP = oracle.FlagSYN
		}
		frames := res.Frames(dev)
		nOK := 0
		bad := func(key, format string, a ...interface{}) {
			run.Violation(c.Cmd+"/"+c.Link+":"+key, fmt.Sprintf("[%s] ", tailStr(strings.Join(args, " "), 200))+fmt.Sprintf(format, a...), desc)
		}
		for _, f := range frames {
			d := oracle.Decode(f, oLink(c.Link))
			hex := fmt.Sprintf("%x", truncB(f, 80))
			if c.Link == "tap" {
				if d.Eth == nil {
					bad("not-ethernet", "frame is not Ethernet: %s", hex)
					continue
				}
				if d.Eth.Src != wantSrcMAC {
					bad("source-mac", "Ethernet source %s, requested %s: %s", oracle.MACString(d.Eth.Src[:]), oracle.MACString(wantSrcMAC[:]), hex)
				}
			}
			if c.Cmd == "arp" {
				a := d.ARP
				// (the tap driver pads short frames to the 60-byte Ethernet minimum with zeros)
				padOK := len(f) == 42 || len(f) == 60 && bytes.Equal(f[42:], make([]byte, 18))
				if a == nil || !padOK || a.HLen != 6 || a.PLen != 4 || a.HType != 1 || a.PType != 0x0800 || a.Op != 1 {
					bad("arp-format", "not a 42-byte Ethernet/IPv4 ARP request (+ zero padding to 60) (len %d, decode %v): %s", len(f), d.Problems, hex)
					continue
				}
				if d.Eth.Dst != [6]byte{0xff, 0xff, 0xff, 0xff, 0xff, 0xff} {
					bad("arp-dst", "ARP request not broadcast: %s", hex)
				}
				spa := oracle.IPToU32([4]byte{a.SPA[0], a.SPA[1], a.SPA[2], a.SPA[3]})
				if !bytes.Equal(a.SHA, wantSrcMAC[:]) || spa != wantSrcIP {
					bad("arp-sender", "ARP sender %s / %s, requested %s / %s: %s", oracle.MACString(a.SHA), ipS(spa), oracle.MACString(wantSrcMAC[:]), ipS(wantSrcIP), hex)
				}
				tpa := oracle.IPToU32([4]byte{a.TPA[0], a.TPA[1], a.TPA[2], a.TPA[3]})
				if !cidr.Contains(tpa) {
					bad("arp-target", "ARP target %s outside %s", ipS(tpa), c.Target)
				}
				nOK++
				continue
			}
			ip := d.IP
			if ip == nil {
				bad("not-ipv4", "frame does not decode as IPv4 (%v): %s", d.Problems, hex)
				continue
			}
			dst := oracle.IPToU32(ip.Dst)
			if c.Link == "tap" {
				wantDst := gw
				if m, ok := cache[dst]; ok {
					wantDst = m
				}
				if d.Eth.Dst != wantDst {
					bad("dest-mac", "probe to %s addressed to %s, cache/gateway say %s", ipS(dst), oracle.MACString(d.Eth.Dst[:]), oracle.MACString(wantDst[:]))
				}
			}
			if oracle.IPToU32(ip.Src) != wantSrcIP {
				bad("source-ip", "IP source %s, requested %s: %s", oracle.IPString(ip.Src), ipS(wantSrcIP), hex)
			}
			if !cidr.Contains(dst) {
				bad("dest-ip", "destination %s outside %s", ipS(dst), c.Target)
			}
			if ip.IHL != 5 || !ip.ChecksumOK || ip.ID == 0 && false {
				bad("ip-header", "IHL %d, header checksum ok=%v: %s", ip.IHL, ip.ChecksumOK, hex)
			}
			override := c.IPLen >= 0 || c.IPProto >= 0
			if c.Cmd == "icmp" || c.Cmd == "udp" {
				if ip.TTL != wantTTL {
					bad("ttl", "TTL %d, requested %d", ip.TTL, wantTTL)
				}
				if ip.Flags != wantIPFlags || ip.FragOff != 0 {
					bad("ip-flags", "IP flags %03b offset %d, requested %03b", ip.Flags, ip.FragOff, wantIPFlags)
				}
			}
			if c.IPLen >= 0 {
				if int(ip.TotalLen) != c.IPLen {
					bad("iplen", "total length %d, requested %d", ip.TotalLen, c.IPLen)
				}
			} else if present := ip.HeaderLen + ip.PayloadAvail; int(ip.TotalLen) != present && !(c.Link == "tap" && len(f) == 60 && int(ip.TotalLen) < present) {
				bad("ip-length", "total length %d but %d bytes present", ip.TotalLen, ip.HeaderLen+ip.PayloadAvail)
			}
			wantProto := map[string]uint8{"icmp": 1, "udp": 17, "tcp": 6}[c.Cmd]
			if c.IPProto >= 0 {
				wantProto = uint8(c.IPProto)
			}
			if ip.Proto != wantProto {
				bad("ip-proto", "protocol %d, requested %d", ip.Proto, wantProto)
			}
			if override || wantIPFlags&1 != 0 {
				nOK++
				continue // with a length or protocol override only the verbatim fields are required; with MF set the
				// independent decoder does not look into the (first) fragment
			}
			switch c.Cmd {
			case "icmp":
				m := d.ICMP
				if m == nil || !m.ChecksumOK {
					bad("icmp", "ICMP missing or checksum wrong (%v): %s", d.Problems, hex)
					continue
				}
				wt, wc := uint8(8), uint8(0)
				if c.Type >= 0 {
					wt = uint8(c.Type)
				}
				if c.Code >= 0 {
					wc = uint8(c.Code)
				}
				if m.Type != wt || m.Code != wc {
					bad("icmp-typecode", "ICMP %d/%d, requested %d/%d", m.Type, m.Code, wt, wc)
				}
				if c.HasPL && !bytes.Equal(m.Payload, c.Payload) {
					bad("payload", "ICMP payload %x, requested %x", truncB(m.Payload, 32), truncB(c.Payload, 32))
				}
			case "udp":
				u := d.UDP
				if u == nil || !u.ChecksumOK || int(u.Length) != 8+len(u.Payload) {
					bad("udp", "UDP missing / checksum / length wrong (%v): %s", d.Problems, hex)
					continue
				}
				if c.HasPL && !bytes.Equal(u.Payload, c.Payload) {
					bad("payload", "UDP payload %x, requested %x", truncB(u.Payload, 32), truncB(c.Payload, 32))
				}
				if !c.HasPL && len(u.Payload) != 0 {
					bad("payload", "UDP payload of %d bytes although none was requested", len(u.Payload))
				}
				if u.SrcPort < 32768 || u.SrcPort > 60999 {
					bad("source-port", "source port %d outside 32768..60999", u.SrcPort)
				}
			case "tcp":
				t := d.TCP
				if t == nil || !t.ChecksumOK {
					bad("tcp", "TCP missing or checksum wrong (%v): %s", d.Problems, hex)
					continue
				}
				if t.Flags != wantTCP {
					bad("tcp-flags", "flags %s (%09b), requested %s (%09b)", oracle.FlagString(t.Flags), t.Flags, oracle.FlagString(wantTCP), wantTCP)
				}
				if t.SrcPort < 32768 || t.SrcPort > 60999 {
					bad("source-port", "source port %d outside 32768..60999", t.SrcPort)
				}
			}
			if len(d.Problems) > 0 {
				bad("malformed", "independent decoder: %v: %s", d.Problems, hex)
			}
			nOK++
		}
		if len(frames) == 0 {
			bad("no-frames", "no frame was transmitted (exit %d, stderr %s)", res.ExitCode, tailStr(res.Stderr, 300))
		}
		run.Count("wire_frames_checked", int64(nOK))
		run.Count("c05_wire_runs", 1)
		run.Count("c05_cmd:"+c.Cmd, 1)
		run.Count("c05_link:"+c.Link, 1)
		if c.SrcIP != "" {
			run.Count("c05_with_srcip", 1)
		}
		run.Distinct(strings.Join(args, " "))
		if run.WantSample() && len(args) > 14 {
			run.Sample(map[string]interface{}{"argv": tailStr(strings.Join(args, " "), 300), "frames_checked": nOK})
		}
	}
	_ = rand.Int
}
