package main

// Level-2 scenario for C06: the real receive path (AF_PACKET ring -> afpacket.Source -> receiver -> processor
// -> logger) fed with frames that are cut short, on a raw-IP (tun) cable where the kernel does not pad them,
// and with garbage on an Ethernet (tap) cable. Every answer to a probe is a pair: a complete, longer reply A from
// host a, immediately followed by a runt B "from" host b whose IP header promises a transport header that the
// frame does not contain (4..19 bytes of a TCP header, 1..7 bytes of an ICMP header). B contains no well-formed
// header chain of the scanned protocol: no record may carry b's address - whatever bytes an earlier frame left
// behind in a buffer. Crashes are judged by the base checks. Missing records of A are C03's business.

import (
	"fmt"
	"math/rand"
	"strings"
	"sync"
	"time"

	"verif.local/v/oracle"
	"verif.local/v/vlab"
)

func init() { scenarios["c06"] = scenC06 }

func scenC06(run *vlab.Run, sx, tmp string) {
	rng := run.Rand("c06wire")
	n := run.Pick(24, 160)
	for i := 0; i < n; i++ {
		kinds := []struct {
			cmd  []string
			kind string
		}{{[]string{"tcp", "--flags", "ack"}, "tcp"}, {[]string{"icmp"}, "icmp"}, {[]string{"tcp", "fin"}, "tcp"}, {[]string{"udp"}, "udp"}, {[]string{"tcp", "null"}, "tcp"}, {[]string{"arp"}, "arp"}}
		k := kinds[i%len(kinds)]
		link := "tun"
		if k.kind == "arp" || i%4 == 3 {
			link = "tap" // garbage only: the kernel pads short Ethernet frames
		}
		bits := 28 + rng.Intn(3)
		base := (0x0a090000 | rng.Uint32()&0xff00) &^ (1<<uint(32-bits) - 1)
		s := &wireSpec{Cmd: k.cmd, Kind: k.kind, Link: link, Mode: "subnet", Subnet: fmt.Sprintf("%s/%d", ipS(base), bits)}
		if k.kind == "tcp" || k.kind == "udp" {
			s.Ports = fmt.Sprint(1 + rng.Intn(65535))
		}
		s.Extra = []string{"--srcip", foreignSrcIP, "--exit-delay", "400ms"}
		seed := rng.Int63()
		if !run.Mine(i) {
			continue
		}
		args, stdin := wireArgs(tmp, s)
		run.Case(fmt.Sprintf("c06w%03d", i), args)
		olink := oLink(link)
		prng := rand.New(rand.NewSource(seed))
		var mu sync.Mutex
		valid := map[string]int{}   // records that complete replies call for
		runtHosts := map[string]int{} // addresses that only ever appear in runts
		runts, garbage := 0, 0
		size := uint32(1) << uint(32-bits)
		res := RunCase(sx, &CaseSpec{Args: args, Stdin: stdin, Setup: commonWorld(link), Timeout: 120 * time.Second,
			OnTx: func(c *CaseRun, d *Dev, frame []byte) {
				dec, a, port, ok := decodeProbe(k.kind, frame, olink)
				if !ok {
					return
				}
				mu.Lock()
				defer mu.Unlock()
				wrap := func(ipb []byte) []byte {
					if olink == oracle.LinkEthernet {
						return oracle.BuildEth(tapMACb, [6]byte{2, 0, 0, 0, 0, 0x99}, oracle.EtherTypeIPv4, ipb)
					}
					return ipb
				}
				src := oracle.U32ToIP(a)
				// b: an address of the subnet that is never used by a complete reply: outside the scanned block's answers
				// (the block's addresses answer as A; b = a with the top host bit region moved into 10.9.255.x inside no subnet? no:
				// b must pass the scan's source filter, so it is in the subnet; it is marked by never answering completely)
				b := base + (a-base+size/2)%size
				bsrc := oracle.U32ToIP(b)
				var fa, fb []byte
				rec := ""
				switch k.kind {
				case "tcp":
					sport := uint16(40000)
					if dec.TCP != nil {
						sport = dec.TCP.SrcPort
					}
					pl := make([]byte, 24+prng.Intn(40))
					prng.Read(pl)
					mk := func(s4 [4]byte) []byte {
						return oracle.BuildIPv4(oracle.NewIPSpec(s4, foreignSrc, oracle.ProtoTCP), oracle.BuildTCP(s4, foreignSrc, oracle.TCPSpec{SrcPort: port, DstPort: sport, Flags: oracle.FlagSYN | oracle.FlagACK, DataOff: -1, Seq: prng.Uint32(), Ack: prng.Uint32(), Window: 4096, Payload: pl}))
					}
					if a-base < size/2 {
						fa, rec = mk(src), recTCP(ipS(a), port, "sa")
						full := mk(bsrc)
						fb = full[:20+[]int{4, 8, 12, 13, 16, 19}[prng.Intn(6)]]
					}
				case "icmp", "udp":
					typ, code := uint8(0), uint8(0)
					if k.kind == "udp" {
						typ, code = 3, 3
					}
					pl := make([]byte, 40+prng.Intn(40))
					prng.Read(pl)
					mk := func(s4 [4]byte) ([]byte, uint8) {
						sp := oracle.NewIPSpec(s4, foreignSrc, oracle.ProtoICMP)
						return oracle.BuildIPv4(sp, oracle.BuildICMP(typ, code, 7, 1, pl)), sp.TTL
					}
					if a-base < size/2 {
						var ttl uint8
						fa, ttl = mk(src)
						rec = recICMP(ipS(a), typ, code, ttl)
						full, _ := mk(bsrc)
						fb = full[:20+[]int{1, 2, 4, 7}[prng.Intn(4)]]
					}
				}
				if fa != nil && olink == oracle.LinkRawIP {
					valid[rec]++
					runtHosts[ipS(b)]++
					runts++
					c.Inject(d, wrap(fa))
					c.Inject(d, wrap(fb))
				} else if fa != nil {
					valid[rec]++
					c.Inject(d, wrap(fa))
				}
				// garbage of every size, some of it starting like an IPv4 / ARP header
				for g := 0; g < 2; g++ {
					junk := make([]byte, 1+prng.Intn(120))
					prng.Read(junk)
					switch prng.Intn(4) {
					case 0:
						junk[0] = 0x45
					case 1:
						junk[0] = 0x4f // IHL 15
					}
					if olink == oracle.LinkEthernet {
						et := []uint16{oracle.EtherTypeIPv4, oracle.EtherTypeARP, 0x86dd, 0x8100}[prng.Intn(4)]
						junk = oracle.BuildEth(tapMACb, [6]byte{2, 0, 0, 0, 0, 0x98}, et, junk)
					}
					garbage++
					c.Inject(d, junk)
				}
			}})
		run.Eval(1)
		if !baseChecks(run, res, args, true) {
			continue
		}
		mu.Lock()
		phantom, matched := 0, 0
		example := ""
		got := map[string]int{}
		for _, l := range res.Stdout {
			rec, err := parseRecord(strings.TrimSpace(l))
			if err != nil {
				run.Violation("wire:unparseable-record", fmt.Sprintf("stdout line is not a record: %.200q", l), args)
				continue
			}
			got[rec]++
		}
		for rec, c := range got {
			if c <= valid[rec] {
				matched += c
				continue
			}
			matched += valid[rec]
			phantom += c - valid[rec]
			example = rec
		}
		fromRunt := ""
		for rec := range got {
			f := strings.Fields(rec)
			if len(f) > 1 && runtHosts[f[1]] > 0 && valid[rec] == 0 {
				fromRunt = rec
			}
		}
		mu.Unlock()
		switch {
		case fromRunt != "":
			run.Violation("wire:phantom-record-from-runt", fmt.Sprintf("record %q carries the address of a frame that was cut short before its transport header was complete (it followed a complete frame of another host): %s", fromRunt, strings.Join(args, " ")), args)
		case phantom > 0:
			run.Violation("wire:phantom-record", fmt.Sprintf("%d records correspond to no complete reply that was injected (e.g. %q): %s", phantom, example, strings.Join(args, " ")), args)
		}
		run.Count("c06_wire_runs", 1)
		run.Count("c06_wire_link:"+link, 1)
		run.Count("c06_wire_runts_after_complete_frames", int64(runts))
		run.Count("c06_wire_garbage_frames", int64(garbage))
		run.Count("c06_wire_records_matched", int64(matched))
		run.Distinct(strings.Join(args, " "))
	}
}
