package main

// Level-2 scenario for C10: the real `sx elastic` / `sx docker` commands (cobra wiring of --proto, -p, -t,
// --workers) against HTTP and HTTPS servers of the monitor on loopback addresses inside the namespace.
// The behaviour of a target is decided by the address that was dialled; a target must be printed iff its
// primary request (GET / for elastic, .../info for docker) was answered with a JSON object (2xx for docker),
// with host, port and scheme of the probed target, whatever the secondary requests did.
// A missing record is an upper bound for sx and for this monitor's own servers: judged on up to three runs.
// A spurious record, a wrong scheme/host and a record printed twice are judged at once.

import (
	"crypto/ecdsa"
	"crypto/elliptic"
	crand "crypto/rand"
	"crypto/tls"
	"crypto/x509"
	"crypto/x509/pkix"
	"encoding/json"
	"fmt"
	"math/big"
	"net"
	"net/http"
	"strings"
	"sync"
	"time"

	"verif.local/v/oracle"
	"verif.local/v/vlab"
)

func init() { scenarios["c10"] = scenC10 }

var c10wireCert = func() tls.Certificate {
	key, _ := ecdsa.GenerateKey(elliptic.P256(), crand.Reader)
	tmpl := &x509.Certificate{SerialNumber: big.NewInt(1), Subject: pkix.Name{CommonName: "c10wire"}, NotBefore: time.Now().Add(-time.Hour), NotAfter: time.Now().Add(24 * time.Hour),
		KeyUsage: x509.KeyUsageDigitalSignature, ExtKeyUsage: []x509.ExtKeyUsage{x509.ExtKeyUsageServerAuth}, IPAddresses: []net.IP{net.ParseIP("127.0.0.1")}}
	der, _ := x509.CreateCertificate(crand.Reader, tmpl, tmpl, &key.PublicKey, key)
	return tls.Certificate{Certificate: [][]byte{der}, PrivateKey: key}
}()

// primary behaviours: name, whether a record is due for (elastic, docker)
var c10wireBeh = []struct {
	name            string
	elastic, docker bool
}{
	{"object", true, true},
	{"array", false, false},
	{"text", false, false},
	{"500-object", true, false}, // elastic: any answer whose body is an object; docker: the API call failed
	{"stall-headers", false, false},
	{"object-secondary-fails", true, true},
	{"empty-body", false, false},
	{"object", true, true},
}

func scenC10(run *vlab.Run, sx, tmp string) {
	rng := run.Rand("c10wire")
	n := run.Pick(16, 120)
	for i := 0; i < n; i++ {
		if !run.Mine(i) {
			continue
		}
		kind := []string{"elastic", "docker"}[i%2]
		proto := []string{"http", "https"}[i/2%2]
		bits := 28 + rng.Intn(3)
		base := (uint32(0x7f000000) | uint32(1+rng.Intn(200))<<16 | uint32(rng.Intn(256))<<8) &^ (1<<uint(32-bits) - 1)
		size := uint32(1) << uint(32-bits)
		seed := rng.Int63()
		behOf := func(a uint32) int { return int((uint64(a)*2654435761 + uint64(seed)) >> 5 % uint64(len(c10wireBeh))) }
		port := 20000 + rng.Intn(20000)
		var mu sync.Mutex
		asked := map[string]int{} // primary requests per local address
		release := make(chan struct{})
		handler := http.HandlerFunc(func(w http.ResponseWriter, r *http.Request) {
			local := r.Context().Value(http.LocalAddrContextKey).(net.Addr).String()
			host, _, _ := net.SplitHostPort(local)
			a, _ := oracle.RefIPv4(host)
			b := c10wireBeh[behOf(a)]
			primary := kind == "elastic" && r.URL.Path == "/" || kind == "docker" && strings.HasSuffix(r.URL.Path, "/info")
			w.Header().Set("Api-Version", "1.41")
			if kind == "docker" && strings.HasSuffix(r.URL.Path, "/_ping") {
				w.Header().Set("Content-Type", "text/plain")
				fmt.Fprint(w, "OK")
				return
			}
			if !primary {
				if b.name == "object-secondary-fails" {
					http.Error(w, "boom", 500)
					return
				}
				w.Header().Set("Content-Type", "application/json")
				fmt.Fprint(w, `{"Version":"20.10.0","ApiVersion":"1.41","idx":{"aliases":{}}}`)
				return
			}
			mu.Lock()
			asked[local]++
			mu.Unlock()
			obj := fmt.Sprintf(`{"ID":"id-%s","Name":"n-%s","name":"n-%s","cluster_name":"c"}`, host, host, host)
			switch b.name {
			case "object", "object-secondary-fails":
				w.Header().Set("Content-Type", "application/json")
				fmt.Fprint(w, obj)
			case "array":
				w.Header().Set("Content-Type", "application/json")
				fmt.Fprint(w, `[`+obj+`]`)
			case "text":
				w.Header().Set("Content-Type", "text/plain")
				fmt.Fprint(w, "It works!")
			case "500-object":
				w.Header().Set("Content-Type", "application/json")
				w.WriteHeader(500)
				fmt.Fprint(w, obj)
			case "stall-headers":
				select {
				case <-release:
				case <-r.Context().Done():
				}
			case "empty-body":
				w.Header().Set("Content-Type", "application/json")
				w.WriteHeader(200)
			}
		})
		ln, err := net.Listen("tcp4", fmt.Sprintf("0.0.0.0:%d", port))
		if err != nil {
			continue
		}
		srv := &http.Server{Handler: handler}
		if proto == "https" {
			srv.TLSConfig = &tls.Config{Certificates: []tls.Certificate{c10wireCert}}
			go srv.ServeTLS(ln, "", "")
		} else {
			go srv.Serve(ln)
		}
		subnet := fmt.Sprintf("%s/%d", ipS(base), bits)
		tmoS := "1500ms"
		args := []string{kind, "--json", "-p", fmt.Sprint(port), "-w", fmt.Sprint([]int{1, 4, 32}[rng.Intn(3)]), "-t", tmoS}
		if proto == "https" || rng.Intn(2) == 0 {
			args = append(args, "--proto", proto)
		}
		args = append(args, subnet)
		run.Case(fmt.Sprintf("c10w%03d", i), args)
		stalled := 0
		for a := base; a < base+size; a++ {
			if c10wireBeh[behOf(a)].name == "stall-headers" {
				stalled++
			}
		}
		workers := 0
		fmt.Sscan(args[5], &workers)
		missRuns, slowRuns := 0, 0
		for attempt := 0; attempt < 6; attempt++ {
			final := missRuns == 2
			if missRuns > 0 {
				// re-judge an upper bound with a longer request timeout
				for k := range args {
					if args[k] == tmoS {
						tmoS = []string{"1500ms", "6s", "20s"}[missRuns]
						args[k] = tmoS
					}
				}
			}
			res := RunCase(sx, &CaseSpec{Args: args, Setup: loOnly, Timeout: 180 * time.Second})
			// time bound: only the primary request of a stalling target stalls, so a worker is held for one request
			// timeout per such target (twice that plus 4 s is allowed); an upper bound for sx: judged on three runs
			if tmo, err := time.ParseDuration(tmoS); err == nil && !res.TimedOut && res.SetupErr == "" {
				bound := time.Duration((stalled+workers-1)/workers)*2*tmo + 4*time.Second
				run.Max("c10_wire_max_run_ms", res.TExit.Milliseconds())
				if res.TExit > bound && res.Stall < 300*time.Millisecond {
					slowRuns++
					if slowRuns < 3 {
						continue
					}
					run.Violation("wire:time-bound:"+kind, fmt.Sprintf("three runs in a row took longer (%v) than %d stalled targets / %d workers x 2 x request timeout %v + 4 s = %v: %s", res.TExit, stalled, workers, tmo, bound, strings.Join(args, " ")), args)
				} else if stalled > 0 {
					run.Count("c10_wire_time_bounds_checked", 1)
				}
			}
			run.Eval(1)
			if !baseChecks(run, res, args, true) {
				break
			}
			seen := map[string]int{}
			bad := false
			for _, l := range res.Stdout {
				var m struct {
					Scan  string                 `json:"scan"`
					Proto string                 `json:"proto"`
					Host  string                 `json:"host"`
					Info  map[string]interface{} `json:"info"`
				}
				if !strings.HasSuffix(l, "\n") || json.Unmarshal([]byte(strings.TrimSuffix(l, "\n")), &m) != nil {
					run.Violation("wire:line-not-one-json-object", fmt.Sprintf("stdout line is not exactly one JSON object: %.300q", l), args)
					bad = true
					continue
				}
				// docker records spell the host as a docker endpoint (tcp://ip:port): the spelling is not part of the statement
				m.Host = strings.TrimPrefix(m.Host, "tcp://")
				seen[m.Host]++
				if m.Scan != kind || m.Proto != proto {
					run.Violation("wire:record-scheme", fmt.Sprintf("record %.200q says scan=%q proto=%q; the target was probed with %s over %s", l, m.Scan, m.Proto, kind, proto), args)
					bad = true
				}
				h, p, _ := net.SplitHostPort(m.Host)
				a, okIP := oracle.RefIPv4(h)
				if !okIP || p != fmt.Sprint(port) || a < base || a >= base+size {
					run.Violation("wire:record-host", fmt.Sprintf("record for host %q, which is not a probed target (%s port %d)", m.Host, subnet, port), args)
					bad = true
					continue
				}
				b := c10wireBeh[behOf(a)]
				due := b.elastic
				if kind == "docker" {
					due = b.docker
				}
				if !due {
					run.Violation("wire:false-record:"+kind+":"+b.name, fmt.Sprintf("%s printed although its primary request was answered with %q: %.200q", m.Host, b.name, l), args)
					bad = true
					continue
				}
				// the record's info is the one served to THIS target
				wantName := "n-" + h
				got := m.Info["name"]
				if kind == "docker" {
					got = m.Info["Name"]
				}
				if got != wantName {
					run.Violation("wire:record-info", fmt.Sprintf("record of %s carries info name %v, the target served %q", m.Host, got, wantName), args)
					bad = true
				}
				run.Count("c10_wire_records_verified", 1)
			}
			missing := 0
			example := ""
			for a := base; a < base+size; a++ {
				b := c10wireBeh[behOf(a)]
				due := b.elastic
				if kind == "docker" {
					due = b.docker
				}
				k := fmt.Sprintf("%s:%d", ipS(a), port)
				run.Count("c10_wire_targets:"+b.name, 1)
				switch {
				case due && seen[k] == 0:
					missing++
					example = k + " (" + b.name + ")"
				case seen[k] > 1:
					run.Violation("wire:record-repeated", fmt.Sprintf("%s printed %d times", k, seen[k]), args)
					bad = true
				}
			}
			if missing > 0 && !final {
				run.Count("c10_wire_runs_retried", 1)
				missRuns++
				continue
			}
			if missing > 0 {
				run.Violation("wire:record-missing:"+kind, fmt.Sprintf("%d targets that served a JSON object were not printed in three runs (request timeouts 1.5 s, 6 s, 20 s), e.g. %s: %s", missing, example, strings.Join(args, " ")), args)
				bad = true
			}
			if !bad {
				run.Count("c10_wire_runs_ok", 1)
			}
			run.Count("c10_wire_runs", 1)
			run.Count("c10_wire_runs:"+kind+"/"+proto, 1)
			run.Distinct(strings.Join(args, " "))
			if run.WantSample() && len(res.Stdout) > 0 {
				run.Sample(map[string]interface{}{"argv": strings.Join(args, " "), "lines": len(res.Stdout), "first_line": tailStr(res.Stdout[0], 200)})
			}
			break
		}
		close(release)
		srv.Close()
	}
}
