package main

// C17 — probes leave through the right interface with the right source.
//
// Seeded host network configurations are built inside the private namespace (2..4 tap/tun
// interfaces, 0..3 IPv4 addresses each, overlapping subnets, IPv6-only interfaces, 0..3 default
// routes with metrics, no route at all); the real binary is run for targets inside and outside
// the attached subnets with every subset of {--iface, --srcip, --srcmac}; the frames are
// observed on the descriptor of EVERY interface and compared with a reference model of the
// statement.

import (
	"fmt"
	"math/rand"
	"strings"
	"time"

	"verif.local/v/oracle"
	"verif.local/v/vlab"
)

func init() { scenarios["c17"] = scenC17 }

type c17iface struct {
	Name   string   `json:"name"`
	Tap    bool     `json:"tap"`
	MAC    string   `json:"mac,omitempty"`
	Addrs  []string `json:"ipv4,omitempty"` // CIDR, in the order they are added
	V6     string   `json:"ipv6,omitempty"`
	V6only bool     `json:"-"`
}

type c17route struct {
	Dev    string `json:"dev"`
	Via    string `json:"via,omitempty"`
	Metric int    `json:"metric"`
}

type c17case struct {
	Ifaces []c17iface `json:"interfaces"`
	Routes []c17route `json:"default_routes"`
	Target string     `json:"target"`
	Cmd    string     `json:"command"` // icmp | arp | tcp
	Iface  string     `json:"iface_flag,omitempty"`
	SrcIP  string     `json:"srcip_flag,omitempty"`
	SrcMAC string     `json:"srcmac_flag,omitempty"`
}

type c17expect struct {
	Err      bool              // the scan must fail and send nothing
	Devs     map[string]string // acceptable device -> source address expected on it
	DontCare string
}

func cidrOf(s string) (addr uint32, c oracle.CIDR) {
	i := strings.IndexByte(s, '/')
	a, _ := oracle.RefIPv4(s[:i])
	var bits int
	fmt.Sscanf(s[i+1:], "%d", &bits)
	c = oracle.CIDR{Bits: bits}
	c.Base = a & c.Mask()
	return a, c
}

// c17model is the reference reading of the statement.
func c17model(c *c17case) c17expect {
	_, tgt := cidrOf(c.Target)
	attached := func(ifc *c17iface) (string, bool) {
		for _, a := range ifc.Addrs {
			addr, net := cidrOf(a)
			if net.Contains(tgt.Base) {
				return ipS(addr), true
			}
		}
		return "", false
	}
	first := func(ifc *c17iface) (string, bool) {
		if len(ifc.Addrs) == 0 {
			return "", false
		}
		addr, _ := cidrOf(ifc.Addrs[0])
		return ipS(addr), true
	}
	byName := func(n string) *c17iface {
		for i := range c.Ifaces {
			if c.Ifaces[i].Name == n {
				return &c.Ifaces[i]
			}
		}
		return nil
	}
	exp := c17expect{Devs: map[string]string{}}
	pick := func(ifc *c17iface, src string, ok bool) {
		if c.SrcIP != "" {
			src, ok = c.SrcIP, true
		}
		if ok {
			exp.Devs[ifc.Name] = src
		}
	}
	if c.Iface != "" {
		ifc := byName(c.Iface)
		if src, ok := attached(ifc); ok {
			pick(ifc, src, true)
		} else {
			src, ok := first(ifc)
			pick(ifc, src, ok)
		}
	} else {
		any := false
		for i := range c.Ifaces {
			if src, ok := attached(&c.Ifaces[i]); ok {
				pick(&c.Ifaces[i], src, true)
				any = true
			}
		}
		if !any && len(c.Routes) > 0 {
			min := c.Routes[0].Metric
			for _, r := range c.Routes {
				if r.Metric < min {
					min = r.Metric
				}
			}
			for _, r := range c.Routes {
				if r.Metric == min {
					ifc := byName(r.Dev)
					src, ok := first(ifc)
					pick(ifc, src, ok)
				}
			}
		}
	}
	if len(exp.Devs) == 0 {
		exp.Err = true
		return exp
	}
	for d := range exp.Devs {
		ifc := byName(d)
		if !ifc.Tap && c.SrcMAC != "" {
			exp.DontCare = "--srcmac on an interface without hardware address"
		}
		if !ifc.Tap && c.Cmd == "arp" {
			exp.DontCare = "ARP scan on an interface without hardware address"
		}
	}
	return exp
}

func c17gen(rng *rand.Rand) *c17case {
	c := &c17case{}
	n := 2 + rng.Intn(3)
	used := map[int]bool{}
	for i := 0; i < n; i++ {
		ifc := c17iface{Name: fmt.Sprintf("t%d", i), Tap: rng.Intn(4) != 0}
		if ifc.Tap {
			ifc.MAC = fmt.Sprintf("02:00:00:00:01:%02x", i+1)
		}
		na := rng.Intn(4)
		if na == 3 {
			na = 1
		}
		for k := 0; k < na+rng.Intn(2); k++ {
			sn := 20 + rng.Intn(6)
			if used[sn] && rng.Intn(3) != 0 {
				sn = 20 + rng.Intn(10)
			}
			used[sn] = true
			switch rng.Intn(4) {
			case 0: // wide net: overlaps the /24s of the same second octet
				ifc.Addrs = append(ifc.Addrs, fmt.Sprintf("10.%d.%d.%d/16", sn, rng.Intn(200), 1+rng.Intn(200)))
			default:
				ifc.Addrs = append(ifc.Addrs, fmt.Sprintf("10.%d.%d.%d/24", sn, rng.Intn(4), 1+rng.Intn(200)))
			}
		}
		if rng.Intn(4) == 0 {
			ifc.V6 = fmt.Sprintf("fd00:%d::1/64", i+1)
		}
		c.Ifaces = append(c.Ifaces, ifc)
	}
	// default routes
	for _, i := range rng.Perm(n) {
		ifc := &c.Ifaces[i]
		if rng.Intn(2) == 0 {
			continue
		}
		r := c17route{Dev: ifc.Name, Metric: []int{0, 10, 10, 100, 200, 50}[rng.Intn(6)]}
		if len(ifc.Addrs) > 0 {
			addr, net := cidrOf(ifc.Addrs[0])
			gw := net.Base + 254
			if gw == addr {
				gw--
			}
			r.Via = ipS(gw)
		} else if ifc.Tap {
			continue // a gateway-less default route on an Ethernet device without address: not interesting
		}
		dup := false
		for _, o := range c.Routes {
			if o.Metric == r.Metric {
				dup = true // the kernel refuses two default routes with the same metric
			}
		}
		if !dup {
			c.Routes = append(c.Routes, r)
		}
	}
	// target
	var nets []string
	for _, ifc := range c.Ifaces {
		nets = append(nets, ifc.Addrs...)
	}
	if len(nets) > 0 && rng.Intn(3) != 0 {
		_, net := cidrOf(nets[rng.Intn(len(nets))])
		base := net.Base + uint32(rng.Intn(int(net.Size())))&^15
		c.Target = fmt.Sprintf("%s/28", ipS(base))
	} else {
		c.Target = fmt.Sprintf("172.30.%d.%d/28", rng.Intn(256), rng.Intn(16)*16)
	}
	c.Cmd = []string{"icmp", "icmp", "tcp", "arp"}[rng.Intn(4)]
	if rng.Intn(2) == 0 {
		c.Iface = c.Ifaces[rng.Intn(n)].Name
	}
	if rng.Intn(3) == 0 {
		c.SrcIP = fmt.Sprintf("192.0.2.%d", 1+rng.Intn(250))
	}
	if rng.Intn(3) == 0 {
		c.SrcMAC = fmt.Sprintf("02:aa:bb:cc:dd:%02x", rng.Intn(256))
	}
	return c
}

func scenC17(run *vlab.Run, sx, tmp string) {
	rng := run.Rand("c17")
	n := run.Pick(400, 4000)
	emptyCache := writeFile(tmp, "arp.cache", "")
	for i := 0; i < n; i++ {
		c := c17gen(rng)
		if !run.Mine(i) {
			continue
		}
		run.Case(fmt.Sprintf("c17w%04d", i), c)
		exp := c17model(c)
		args := []string{c.Cmd, "--json", "--exit-delay", "20ms"}
		if c.Cmd == "tcp" {
			args = append(args, "-p", "80")
		}
		if c.Cmd != "arp" {
			args = append(args, "--gwmac", gwMAC, "-a", emptyCache)
		}
		if c.Iface != "" {
			args = append(args, "-i", c.Iface)
		}
		if c.SrcIP != "" {
			args = append(args, "--srcip", c.SrcIP)
		}
		if c.SrcMAC != "" {
			args = append(args, "--srcmac", c.SrcMAC)
		}
		args = append(args, c.Target)
		spec := &CaseSpec{Args: args, Timeout: 60 * time.Second, Setup: func(w *World) {
			for _, ifc := range c.Ifaces {
				var addrs []string
				addrs = append(addrs, ifc.Addrs...)
				if ifc.V6 != "" {
					addrs = append(addrs, ifc.V6)
				}
				if ifc.Tap {
					w.AddTap(ifc.Name, ifc.MAC, addrs...)
				} else {
					w.AddTun(ifc.Name, addrs...)
				}
			}
			for _, r := range c.Routes {
				a := []string{"ip", "route", "add", "default"}
				if r.Via != "" {
					a = append(a, "via", r.Via)
				}
				a = append(a, "dev", r.Dev, "metric", fmt.Sprint(r.Metric))
				mustSh(a...)
			}
		}}
		res := RunCase(sx, spec)
		run.Eval(1)
		desc := map[string]interface{}{"case": c, "argv": strings.Join(args, " ")}
		if !baseChecks(run, res, desc, false) {
			continue
		}
		// frames per device that are probes of this scan
		kind := c.Cmd
		got := map[string]*c17seen{}
		bad := ""
		for _, e := range res.Events {
			if e.Kind != "tx" {
				continue
			}
			ifc := (*c17iface)(nil)
			for k := range c.Ifaces {
				if c.Ifaces[k].Name == e.Dev {
					ifc = &c.Ifaces[k]
				}
			}
			// an Ethernet device carries Ethernet frames; on a tun device try raw IP first
			var d *oracle.Decoded
			var ok bool
			raw := false
			if ifc.Tap {
				d, _, _, ok = decodeProbe(kind, e.Data, oracle.LinkEthernet)
			} else {
				d, _, _, ok = decodeProbe(kind, e.Data, oracle.LinkRawIP)
				raw = true
				if !ok {
					d, _, _, ok = decodeProbe(kind, e.Data, oracle.LinkEthernet)
					raw = false
				}
			}
			if !ok {
				// kernel chatter (IPv6 neighbour discovery, MLD) is not a probe; anything IPv4/ARP that does not decode is reported
				if len(e.Data) > 14 && ifc.Tap && (e.Data[12] == 0x86 && e.Data[13] == 0xdd) || (!ifc.Tap && len(e.Data) > 0 && e.Data[0]>>4 == 6) {
					continue
				}
				bad = fmt.Sprintf("%s: %x", e.Dev, truncB(e.Data, 60))
				continue
			}
			s := got[e.Dev]
			if s == nil {
				s = &c17seen{raw: raw}
				got[e.Dev] = s
			}
			s.n++
			src, mac := "", ""
			if d.ARP != nil {
				src = fmt.Sprintf("%d.%d.%d.%d", b0(d.ARP.SPA, 0), b0(d.ARP.SPA, 1), b0(d.ARP.SPA, 2), b0(d.ARP.SPA, 3))
				mac = oracle.MACString(d.ARP.SHA)
				if d.Eth != nil && oracle.MACString(d.Eth.Src[:]) != mac {
					mac = "eth:" + oracle.MACString(d.Eth.Src[:]) + "/arp:" + mac
				}
				if len(d.ARP.SPA) != 4 {
					src = fmt.Sprintf("<%d-byte sender address>", len(d.ARP.SPA))
				}
			} else if d.IP != nil {
				src = oracle.IPString(d.IP.Src)
				if d.Eth != nil {
					mac = oracle.MACString(d.Eth.Src[:])
				}
			}
			if s.srcIP == "" {
				s.srcIP, s.mac = src, mac
			} else if s.srcIP != src || s.mac != mac {
				s.srcIP, s.mac = s.srcIP+"|"+src, s.mac+"|"+mac
			}
		}
		total := 0
		for _, s := range got {
			total += s.n
		}
		key := "auto"
		if c.Iface != "" {
			key = "iface-flag"
		}
		switch {
		case exp.DontCare != "":
			run.Count("dontcare", 1)
		case exp.Err:
			if total > 0 {
				run.Violation("frame-despite-error:"+key, fmt.Sprintf("no usable interface / IPv4 source exists for this configuration, yet %d frames were sent (%v): %s", total, devSummary(got), strings.Join(args, " ")), desc)
			} else if res.ExitCode == 0 {
				run.Violation("no-error-exit:"+key, fmt.Sprintf("no usable interface / IPv4 source exists, nothing was sent, but sx exited with status 0: %s", strings.Join(args, " ")), desc)
			} else {
				run.Count("error_cases_ok", 1)
			}
		default:
			if total == 0 {
				run.Violation("no-probe:"+key, fmt.Sprintf("the model selects %v but nothing was sent (exit %d, stderr %s): %s", exp.Devs, res.ExitCode, tailStr(strings.TrimSpace(res.Stderr), 300), strings.Join(args, " ")), desc)
				break
			}
			if len(got) != 1 {
				run.Violation("several-interfaces:"+key, fmt.Sprintf("probes left through %d interfaces (%v); the model selects %v: %s", len(got), devSummary(got), exp.Devs, strings.Join(args, " ")), desc)
				break
			}
			for dev, s := range got {
				want, ok := exp.Devs[dev]
				if !ok {
					run.Violation("wrong-interface:"+key, fmt.Sprintf("probes left through %s; the model selects %v: %s", dev, exp.Devs, strings.Join(args, " ")), desc)
					break
				}
				if s.srcIP != want {
					run.Violation("wrong-source-ip:"+key, fmt.Sprintf("probes on %s carry source %s; expected %s: %s", dev, s.srcIP, want, strings.Join(args, " ")), desc)
				}
				var ifc *c17iface
				for k := range c.Ifaces {
					if c.Ifaces[k].Name == dev {
						ifc = &c.Ifaces[k]
					}
				}
				if ifc.Tap {
					wantMAC := ifc.MAC
					if c.SrcMAC != "" {
						wantMAC = c.SrcMAC
					}
					if s.mac != wantMAC {
						run.Violation("wrong-source-mac:"+key, fmt.Sprintf("probes on %s carry source MAC %s; expected %s: %s", dev, s.mac, wantMAC, strings.Join(args, " ")), desc)
					}
				} else if !s.raw {
					run.Violation("framing", fmt.Sprintf("%s has no hardware address but the probes carry an Ethernet header: %s", dev, strings.Join(args, " ")), desc)
				} else {
					run.Count("raw_ip_runs", 1)
				}
				run.Count("probes_attributed", int64(s.n))
			}
			if res.ExitCode != 0 {
				run.Violation("exit-status", fmt.Sprintf("probes were sent but sx exited with status %d: %s", res.ExitCode, tailStr(res.Stderr, 300)), desc)
			}
			run.Count("selected_cases_ok", 1)
			if len(exp.Devs) > 1 {
				run.Count("cases_with_several_acceptable_interfaces", 1)
			}
		}
		if bad != "" && exp.DontCare == "" {
			run.Violation("foreign-frame", fmt.Sprintf("a frame that is not a %s probe was transmitted: %s: %s", kind, bad, strings.Join(args, " ")), desc)
		}
		run.Count("c17_runs", 1)
		run.Count("flags:"+key, 1)
		if c.SrcIP != "" {
			run.Count("flags:srcip", 1)
		}
		if c.SrcMAC != "" {
			run.Count("flags:srcmac", 1)
		}
		if len(c.Routes) > 1 {
			run.Count("cases_with_several_default_routes", 1)
		}
		run.Distinct(fmt.Sprintf("%+v", *c))
		if run.WantSample() && len(c.Routes) > 1 && !exp.Err {
			run.Sample(map[string]interface{}{"case": c, "model": exp.Devs, "observed": devSummary(got)})
		}
	}
}

func b0(b []byte, i int) byte {
	if i < len(b) {
		return b[i]
	}
	return 0
}

func truncB(b []byte, n int) []byte {
	if len(b) > n {
		return b[:n]
	}
	return b
}

type c17seen struct {
	n          int
	srcIP, mac string
	raw        bool
}

func devSummary(m map[string]*c17seen) string {
	var parts []string
	for d, s := range m {
		parts = append(parts, fmt.Sprintf("%s: %d frames src %s mac %s raw-ip=%v", d, s.n, s.srcIP, s.mac, s.raw))
	}
	return strings.Join(parts, "; ")
}

// ---------------------------------------------------------------------------
// c17lo: targets attached to the loopback interface (127.0.0.0/8, or a service network configured on lo)
// next to an Ethernet interface that carries the default route. lo is an interface like any other: it is
// attached to the target, has no hardware address (raw-IP framing), and its address on that network is
// the source. Nothing may leave through the default-route interface.

func init() { scenarios["c17lo"] = scenC17Lo }

func scenC17Lo(run *vlab.Run, sx, tmp string) {
	rng := run.Rand("c17lo")
	emptyCache := writeFile(tmp, "arp.cache", "")
	n := run.Pick(16, 96)
	for i := 0; i < n; i++ {
		if !run.Mine(i) {
			continue
		}
		svc := fmt.Sprintf("10.55.%d.1/24", rng.Intn(200))
		svcOn := i%2 == 1
		target, wantSrc := fmt.Sprintf("127.%d.%d.%d/29", rng.Intn(3), rng.Intn(256), 8*rng.Intn(32)), "127.0.0.1"
		if svcOn && i%4 == 1 {
			a, c := cidrOf(svc)
			target, wantSrc = fmt.Sprintf("%s/29", ipS(c.Base+uint32(8*(1+rng.Intn(30))))), ipS(a)
		}
		cmd := []string{"icmp", "tcp"}[i/4%2]
		withIface := i%8 >= 6
		withRoute := i%3 != 0
		args := []string{cmd, "--json", "--exit-delay", "20ms", "--gwmac", gwMAC, "-a", emptyCache}
		if cmd == "tcp" {
			args = append(args, "-p", "80")
		}
		if withIface {
			args = append(args, "-i", "lo")
		}
		args = append(args, target)
		run.Case(fmt.Sprintf("c17lo%03d", i), map[string]interface{}{"argv": args, "service_net_on_lo": svcOn, "default_route_via_t0": withRoute})
		res := RunCase(sx, &CaseSpec{Args: args, Timeout: 60 * time.Second, Sniff: []string{"lo"}, Setup: func(w *World) {
			mustSh("ip", "link", "set", "dev", "lo", "up")
			if svcOn {
				mustSh("ip", "addr", "replace", svc, "dev", "lo")
			}
			w.AddTap("t0", "02:00:00:00:01:01", "10.20.0.5/24")
			if withRoute {
				mustSh("ip", "route", "add", "default", "via", "10.20.0.254", "dev", "t0", "metric", "10")
			}
		}})
		run.Eval(1)
		desc := map[string]interface{}{"argv": strings.Join(args, " "), "service_net_on_lo": svcOn, "default_route_via_t0": withRoute}
		if !baseChecks(run, res, desc, false) {
			continue
		}
		onTap, onLo := 0, 0
		srcs := map[string]int{}
		framed := 0
		for _, e := range res.Events {
			switch {
			case e.Kind == "tx" && e.Dev == "t0":
				if _, _, _, ok := decodeProbe(cmd, e.Data, oracle.LinkEthernet); ok {
					onTap++
				}
			case e.Kind == "sniff" && e.Dev == "lo":
				if d, _, _, ok := decodeProbe(cmd, e.Data, oracle.LinkRawIP); ok && d.IP != nil {
					onLo++
					srcs[oracle.IPString(d.IP.Src)]++
				} else if d, _, _, ok := decodeProbe(cmd, e.Data, oracle.LinkEthernet); ok && d.IP != nil {
					onLo++
					framed++
					srcs[oracle.IPString(d.IP.Src)]++
				}
			}
		}
		key := "auto"
		if withIface {
			key = "iface-flag"
		}
		switch {
		case onTap > 0:
			run.Violation("lo:wrong-interface:"+key, fmt.Sprintf("the target %s is attached to lo, yet %d probes left through t0 (the default-route interface), %d through lo: %s", target, onTap, onLo, strings.Join(args, " ")), desc)
		case onLo == 0:
			run.Violation("lo:no-probe:"+key, fmt.Sprintf("the target %s is attached to lo but no probe was seen on lo (exit %d, stderr %s): %s", target, res.ExitCode, tailStr(strings.TrimSpace(res.Stderr), 300), strings.Join(args, " ")), desc)
		default:
			if len(srcs) != 1 || srcs[wantSrc] == 0 {
				run.Violation("lo:wrong-source-ip:"+key, fmt.Sprintf("probes on lo carry source %v; lo's address on the target's network is %s: %s", srcs, wantSrc, strings.Join(args, " ")), desc)
			}
			if framed > 0 {
				run.Violation("lo:framing", fmt.Sprintf("lo has no hardware address but %d probes carry an Ethernet header: %s", framed, strings.Join(args, " ")), desc)
			}
			run.Count("lo_runs_ok", 1)
		}
		run.Count("lo_runs", 1)
		run.Count("lo_probes_seen", int64(onLo))
		run.Distinct(strings.Join(args, " ") + fmt.Sprint(svcOn, withRoute))
	}
}
