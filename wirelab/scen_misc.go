package main

// Further level-2 scenarios:
//
//	c02: target arguments that are not IPv4 / IPv4-CIDR are refused by every command: non-zero exit
//	     status, not a single frame on any interface (incl. lo for the application scans), no crash.
//	c18: option strings given to the real binary: strings without a denotation are refused and
//	     nothing is sent; canonical strings are accepted and the frames carry the denoted value.
//	c19: arp --live on the wire: complete passes, rescan interval on kernel timestamps,
//	     de-duplicated output, SIGINT ends it.
//	c11: the stdout of `sx arp --json` is the stdin of `sx tcp`: destination MAC of every probe.

import (
	"encoding/json"
	"fmt"
	"math/rand"
	"net"
	"net/http"
	"sort"
	"strings"
	"sync"
	"syscall"
	"time"

	"verif.local/v/oracle"
	"verif.local/v/vlab"
)

func init() {
	scenarios["c02"] = scenC02
	scenarios["c18"] = scenC18
	scenarios["c19"] = scenC19
	scenarios["c11"] = scenC11
}

// worldWithLo: tap0 + a sniffed loopback (application scans connect through lo)
func countIPv4Frames(res *CaseResult) (n int, sample string) {
	for _, e := range res.Events {
		if e.Kind != "tx" && e.Kind != "sniff" {
			continue
		}
		// anything but IPv6 chatter counts
		b := e.Data
		if e.Dev != "lo" && len(b) > 14 && b[12] == 0x86 && b[13] == 0xdd {
			continue
		}
		n++
		if sample == "" {
			sample = fmt.Sprintf("%s: %x", e.Dev, truncB(b, 48))
		}
	}
	return
}

func scenC02(run *vlab.Run, sx, tmp string) {
	rng := run.Rand("c02wire")
	bad := []string{"::1", "::", "::1/120", "::/0", "2001:db8::/126", "2001:db8::1", "fe80::1%tap0", "::ffff:10.9.0.5", "::ffff:10.9.0.0/120", "::ffff:0a09:0005", "0:0:0:0:0:ffff:10.9.0.5", "[::1]",
		"10.9.0.300", "10.9.0.1/33", "10.9.0.1/-1", "10.9.0", "10.9.0.1.2", "10.9.0.1/", "/24", "abc", "localhost", "10.9.0.1 ", " 10.9.0.1", "10.9.0.1/24/8", "0x0a.9.0.1", "10.9.0.1-10", "10.9.0.*", "1e1.9.0.1", "10。9。0。1", "١٠.9.0.1", "-1", ""}
	cmds := [][]string{{"arp"}, {"icmp"}, {"tcp", "-p", "80"}, {"tcp", "syn", "-p", "80"}, {"tcp", "fin", "-p", "80"}, {"tcp", "--flags", "ack", "-p", "80"}, {"udp", "-p", "53"}, {"socks", "-p", "1080"}, {"docker", "-p", "2375"}, {"elastic", "-p", "9200"}}
	n := 0
	emptyCache := writeFile(tmp, "arp.cache", "")
	pairs := writeFile(tmp, "pairs.jsonl", "{\"ip\":\"10.9.0.77\",\"port\":80}\n{\"ip\":\"127.0.0.9\",\"port\":81}\n")
	for ci, cmd := range cmds {
		for ti, target := range bad {
			n++
			if !run.Mine(n) || (!run.Thorough() && (ci*7+ti)%3 != int(rng.Int63()%3+3)%3 && strings.Count(target, ":") == 0) {
				continue
			}
			args := append([]string{}, cmd...)
			args = append(args, "--json")
			packet := cmd[0] != "socks" && cmd[0] != "docker" && cmd[0] != "elastic"
			if packet {
				args = append(args, "-i", "tap0")
				if cmd[0] != "arp" {
					args = append(args, "--gwmac", gwMAC, "-a", emptyCache)
				}
			} else {
				args = append(args, "-t", "200ms")
			}
			// the bad target next to a perfectly good target file: still refused, the file is not scanned instead
			withFile := cmd[0] != "arp" && (ci+ti)%4 == 1 && target != ""
			if withFile {
				args = append(args, "-f", pairs)
			}
			if target != "" {
				args = append(args, "--", target)
			}
			run.Case(fmt.Sprintf("c02w%04d", n), args)
			res := RunCase(sx, &CaseSpec{Args: args, Setup: commonWorld("tap"), Sniff: []string{"lo"}, Timeout: 60 * time.Second})
			run.Eval(1)
			if res.SetupErr != "" {
				run.Inconclusive(res.SetupErr)
				continue
			}
			key := cmd[0]
			if t := res.crashText(); t != "" {
				run.Violation("crash:"+key, fmt.Sprintf("sx %s crashed: %s", strings.Join(args, " "), strings.SplitN(t, "\n", 2)[0]), map[string]interface{}{"argv": args, "stderr": t})
				continue
			}
			if res.TimedOut {
				run.Inconclusive("watchdog")
				continue
			}
			frames, sample := countIPv4Frames(res)
			switch {
			case frames > 0:
				run.Violation("non-ipv4-target-probed:"+key, fmt.Sprintf("target %q is not an IPv4 address or CIDR, yet %d frames were sent (%s): sx %s", target, frames, sample, strings.Join(args, " ")), args)
			case res.ExitCode == 0:
				run.Violation("non-ipv4-target-accepted:"+key, fmt.Sprintf("target %q is not an IPv4 address or CIDR but sx exited with status 0: sx %s (stdout %q)", target, strings.Join(args, " "), tailStr(strings.Join(res.Stdout, ""), 200)), args)
			default:
				run.Count("refusals_ok", 1)
				if withFile {
					run.Count("refusals_with_target_file", 1)
				}
				if strings.Contains(target, ":") {
					run.Count("ipv6_forms_refused", 1)
				}
			}
			run.Count("c02_wire_runs", 1)
			run.Count("c02_cmd:"+key, 1)
			run.Distinct(strings.Join(args, " "))
		}
	}
}

// c02live: exclusion combined with live mode (arp --live X --exclude F): no pass may address an excluded host or
// anything outside the subnet; judged on every frame of at least two passes, then SIGINT.
func init() { scenarios["c02live"] = scenC02Live }

func scenC02Live(run *vlab.Run, sx, tmp string) {
	rng := run.Rand("c02live")
	n := run.Pick(8, 48)
	for i := 0; i < n; i++ {
		if !run.Mine(i) {
			continue
		}
		bits := 26 + rng.Intn(4)
		base := (0x0a090000 | rng.Uint32()&0xff00) &^ (1<<uint(32-bits) - 1)
		size := uint32(1) << uint(32-bits)
		subnet := fmt.Sprintf("%s/%d", ipS(base), bits)
		var exl []string
		for k := 0; k < 1+rng.Intn(3); k++ {
			switch rng.Intn(3) {
			case 0:
				exl = append(exl, ipS(base+uint32(rng.Intn(int(size)))))
			case 1:
				exl = append(exl, fmt.Sprintf("%s/%d", ipS(base+uint32(rng.Intn(int(size)))&^3), 30))
			default:
				exl = append(exl, fmt.Sprintf("%s/%d", ipS(base), bits-1-rng.Intn(3))) // wider than the target's lower half / the target itself
				exl[len(exl)-1] = fmt.Sprintf("%s/%d", ipS(base+size/2), bits+1)
			}
		}
		exclude := strings.Join(exl, "\n") + "\n"
		ex, _ := oracle.RefExcludeFile(exclude)
		perPass := 0
		for a := base; a < base+size; a++ {
			if !oracle.Excluded(a, ex) {
				perPass++
			}
		}
		if perPass == 0 {
			continue
		}
		interval := 100 + 100*rng.Intn(2)
		args := []string{"arp", "--json", "-i", "tap0", "--srcip", foreignSrcIP}
		// the two options in both orders
		if i%2 == 0 {
			args = append(args, "--live", fmt.Sprintf("%dms", interval), "--exclude", writeFile(tmp, "exclude.txt", exclude))
		} else {
			args = append(args, "--exclude", writeFile(tmp, "exclude.txt", exclude), "--live", fmt.Sprintf("%dms", interval))
		}
		args = append(args, subnet)
		run.Case(fmt.Sprintf("c02live%03d", i), map[string]interface{}{"argv": args, "exclude": exclude})
		var mu sync.Mutex
		nTx := 0
		res := RunCase(sx, &CaseSpec{Args: args, Setup: commonWorld("tap"), Timeout: 60 * time.Second,
			OnTx: func(cr *CaseRun, d *Dev, frame []byte) {
				if _, _, _, ok := decodeProbe("arp", frame, oracle.LinkEthernet); !ok {
					return
				}
				mu.Lock()
				nTx++
				fire := nTx == 2*perPass+1 || nTx == 40*int(size) // a scan that ignores the exclusion reaches this too
				mu.Unlock()
				if fire {
					cr.Signal(syscall.SIGINT)
				}
			}})
		run.Eval(1)
		if !baseChecks(run, res, args, false) {
			continue
		}
		frames, bad := 0, 0
		example := ""
		for _, e := range res.Events {
			if e.Kind != "tx" {
				continue
			}
			_, a, _, ok := decodeProbe("arp", e.Data, oracle.LinkEthernet)
			if !ok {
				continue
			}
			frames++
			switch {
			case a < base || a >= base+size:
				bad++
				example = ipS(a) + " (outside " + subnet + ")"
			case oracle.Excluded(a, ex):
				bad++
				example = ipS(a) + " (excluded)"
			}
		}
		if bad > 0 {
			run.Violation("excluded-address-probed:arp-live", fmt.Sprintf("%d of %d ARP requests of a live scan were addressed to hosts that are excluded or outside the target, e.g. %s; exclude file %q: sx %s", bad, frames, example, exclude, strings.Join(args, " ")), args)
		}
		if frames < 2*perPass {
			run.Inconclusive(fmt.Sprintf("only %d frames seen, two passes are %d", frames, 2*perPass))
			continue
		}
		run.Count("live_exclusion_runs", 1)
		run.Count("live_exclusion_frames_checked", int64(frames))
		run.Distinct(strings.Join(args, " ") + exclude)
	}
}

// ---------------------------------------------------------------------------

func scenC18(run *vlab.Run, sx, tmp string) {
	rng := run.Rand("c18wire")
	emptyCache := writeFile(tmp, "arp.cache", "")
	type tc struct {
		kind, arg string
	}
	var cases []tc
	ports := []string{"80", "1-3", "65535", "0", "443,80", "7-7", "65534-65535", "3-1", "80,", ",80", "1-2-3", "65536", "-1", "80 ", " 80", "+80", "0x50", "8o", "８０", "", "1,,2", "80;443", "99999999999999999999", "0080", "1-", "-"}
	rates := []string{"100/s", "5000", "50/100ms", "1/µs", "7/7s", "0", "-5/s", "10/", "/s", "10/s/s", "abc", "1e3/s", "10/-1s", "10/1.5s", "36000/h", "٣/s", "10 /s", "2147483648/s", ""}
	flags := []string{"syn", "SYN,ack", "fin,psh,urg", "ns", "cwr,ece,urg,ack,psh,rst,syn,fin,ns", "syn,syn", "synack", "syn,", ",", "s", "syn ack", "all", "0x12", "ＳＹＮ"}
	payloads := []string{"abc", `\x00\xff`, `\x41\x42`, `\n\t`, `\\`, `\101`, `é`, `\x`, `\q`, `\`, `a"b`, `\400`, `\ud800`, ""}
	for _, p := range ports {
		cases = append(cases, tc{"ports", p})
	}
	for _, p := range rates {
		cases = append(cases, tc{"rate", p})
	}
	for _, p := range flags {
		cases = append(cases, tc{"flags", p})
	}
	for _, p := range payloads {
		cases = append(cases, tc{"payload", p})
	}
	// seeded valid/mutated port lists
	for i := 0; i < run.Pick(40, 400); i++ {
		var items []string
		for k := 0; k < 1+rng.Intn(4); k++ {
			a := rng.Intn(65536)
			if rng.Intn(2) == 0 {
				items = append(items, fmt.Sprint(a))
			} else {
				items = append(items, fmt.Sprintf("%d-%d", a, a+rng.Intn(3)))
			}
		}
		s := strings.Join(items, ",")
		if rng.Intn(3) == 0 {
			b := []byte(s)
			b[rng.Intn(len(b))] = "-,+ x/9"[rng.Intn(7)]
			s = string(b)
		}
		cases = append(cases, tc{"ports", s})
	}
	for i, c := range cases {
		if !run.Mine(i) {
			continue
		}
		var args []string
		target := "10.9.3.4"
		switch c.kind {
		case "ports":
			args = []string{"tcp", "syn", "--json", "-i", "tap0", "--gwmac", gwMAC, "-a", emptyCache, "--exit-delay", "20ms", "-p", c.arg, target}
		case "rate":
			args = []string{"icmp", "--json", "-i", "tap0", "--gwmac", gwMAC, "-a", emptyCache, "--exit-delay", "20ms", "--rate", c.arg, target + "/30"}
		case "flags":
			args = []string{"tcp", "--json", "-i", "tap0", "--gwmac", gwMAC, "-a", emptyCache, "--exit-delay", "20ms", "-p", "80", "--flags", c.arg, target}
		case "payload":
			args = []string{"udp", "--json", "-i", "tap0", "--gwmac", gwMAC, "-a", emptyCache, "--exit-delay", "20ms", "-p", "53", "--payload", c.arg, target}
		}
		if c.arg == "" {
			// an empty value means "flag not given" for these string flags: don't-care
			continue
		}
		run.Case(fmt.Sprintf("c18w%04d", i), args)
		res := RunCase(sx, &CaseSpec{Args: args, Setup: commonWorld("tap"), Timeout: 60 * time.Second})
		run.Eval(1)
		if res.SetupErr != "" {
			run.Inconclusive(res.SetupErr)
			continue
		}
		if t := res.crashText(); t != "" {
			run.Violation("crash:"+c.kind, fmt.Sprintf("sx crashed on %s %q: %s", c.kind, c.arg, strings.SplitN(t, "\n", 2)[0]), map[string]interface{}{"argv": args, "stderr": t})
			continue
		}
		if res.TimedOut {
			run.Inconclusive("watchdog")
			continue
		}
		frames := res.Frames("tap0")
		accepted := res.ExitCode == 0 && len(frames) > 0
		// reference reading
		denoted, strict, inverted := false, false, false
		var wantPorts []oracle.PortRange
		var wantFlags uint16
		var wantPayload []byte
		switch c.kind {
		case "ports":
			wantPorts, denoted, strict = oracle.LibPortList(c.arg)
			for _, r := range wantPorts {
				if r.Start > r.End {
					inverted = true
				}
			}
		case "rate":
			_, _, denoted, strict, _ = oracle.LibRate(c.arg)
		case "flags":
			denoted, strict = true, true
			for _, f := range strings.Split(c.arg, ",") {
				b, ok := c05flagBits[strings.ToLower(f)]
				if !ok || f == "" {
					denoted, strict = false, false
					if strings.Trim(f, " ") != f || f == "" {
						if _, ok2 := c05flagBits[strings.ToLower(strings.Trim(f, " "))]; ok2 || f == "" {
							denoted = true // liberal
						}
					}
					continue
				}
				wantFlags |= b
			}
			for _, r := range c.arg {
				if r > 127 {
					denoted, strict = false, false
				}
			}
		case "payload":
			var rawInvalid bool
			wantPayload, denoted, rawInvalid = oracle.LibUnquote(c.arg)
			strict = denoted && !rawInvalid && !strings.Contains(c.arg, `\'`)
		}
		switch {
		case inverted:
			if len(frames) > 0 {
				run.Violation("inverted-range-scanned", fmt.Sprintf("-p %q has start > end but %d frames were sent", c.arg, len(frames)), args)
			} else if res.ExitCode == 0 {
				run.Count("inverted_range_silent_exit0", 1)
			}
		case !denoted && (len(frames) > 0 || res.ExitCode == 0):
			run.Violation("garbage-accepted:"+c.kind, fmt.Sprintf("%s %q denotes nothing but sx exited %d and sent %d frames", c.kind, c.arg, res.ExitCode, len(frames)), args)
		case strict && !accepted:
			run.Violation("canonical-rejected:"+c.kind, fmt.Sprintf("%s %q is a canonical rendering but sx exited %d with %d frames; stderr %s", c.kind, c.arg, res.ExitCode, len(frames), tailStr(res.Stderr, 300)), args)
		case accepted && denoted:
			// the frames carry the denoted value
			switch c.kind {
			case "ports":
				exp := map[uint16]int{}
				for _, r := range wantPorts {
					for p := uint32(r.Start); p <= uint32(r.End); p++ {
						exp[uint16(p)]++
					}
				}
				got := map[uint16]int{}
				for _, f := range frames {
					if d := oracle.Decode(f, oracle.LinkEthernet); d.TCP != nil {
						got[d.TCP.DstPort]++
					}
				}
				if fmt.Sprint(exp) != fmt.Sprint(got) {
					run.Violation("wrong-value:ports", fmt.Sprintf("-p %q: probed ports %v, the written list denotes %v", c.arg, got, exp), args)
				}
			case "flags":
				for _, f := range frames {
					if d := oracle.Decode(f, oracle.LinkEthernet); d.TCP != nil && d.TCP.Flags != wantFlags {
						run.Violation("wrong-value:flags", fmt.Sprintf("--flags %q: frames carry %s, the list names %s", c.arg, oracle.FlagString(d.TCP.Flags), oracle.FlagString(wantFlags)), args)
						break
					}
				}
			case "payload":
				for _, f := range frames {
					if d := oracle.Decode(f, oracle.LinkEthernet); d.UDP != nil && string(d.UDP.Payload) != string(wantPayload) {
						run.Violation("wrong-value:payload", fmt.Sprintf("--payload %q: frames carry %x, the unescaped bytes are %x", c.arg, d.UDP.Payload, wantPayload), args)
						break
					}
				}
			}
			run.Count("accepted_values_verified_on_the_wire", 1)
		default:
			run.Count("rejections_ok", 1)
		}
		run.Count("c18_wire_runs", 1)
		run.Count("c18_kind:"+c.kind, 1)
		run.Distinct(c.kind + "/" + c.arg)
	}
}

// ---------------------------------------------------------------------------

func scenC19(run *vlab.Run, sx, tmp string) {
	rng := run.Rand("c19wire")
	n := run.Pick(16, 120)
	for i := 0; i < n; i++ {
		if !run.Mine(i) {
			continue
		}
		bits := 27 + rng.Intn(4)
		base := (0x0a090000 | rng.Uint32()&0xff00) &^ (1<<uint(32-bits) - 1)
		subnet := fmt.Sprintf("%s/%d", ipS(base), bits)
		size := 1 << uint(32-bits)
		interval := []int{100, 200, 400}[rng.Intn(3)]
		passesWanted := 4 + rng.Intn(3)
		if i%8 == 5 {
			// intervals that are not whole seconds, above one second
			interval, passesWanted = []int{1400, 2300, 1499}[i/8%3], 2
		}
		var exclude string
		args := []string{"arp", "--json", "-i", "tap0", "--live", fmt.Sprintf("%dms", interval), "--srcip", foreignSrcIP}
		if rng.Intn(3) == 0 {
			exclude = fmt.Sprintf("%s/31\n", ipS(base+2))
			args = append(args, "--exclude", writeFile(tmp, "exclude.txt", exclude))
		}
		args = append(args, subnet)
		run.Case(fmt.Sprintf("c19w%03d", i), args)
		ex, _ := oracle.RefExcludeFile(exclude)
		perPass := 0
		for a := base; a < base+uint32(size); a++ {
			if !oracle.Excluded(a, ex) {
				perPass++
			}
		}
		// hosts: some always up, some come up at a later pass
		upFrom := map[uint32]int{}
		for a := base; a < base+uint32(size); a++ {
			switch rng.Intn(4) {
			case 0:
				upFrom[a] = 0
			case 1:
				upFrom[a] = 1 + rng.Intn(3)
			}
		}
		var mu sync.Mutex
		nTx := 0
		sigSent := false
		midPass := rng.Intn(2) == 0
		prng := rand.New(rand.NewSource(int64(i)))
		spec := &CaseSpec{Args: args, Setup: commonWorld("tap"), Sniff: []string{"tap0"}, Timeout: 60 * time.Second,
			OnTx: func(cr *CaseRun, d *Dev, frame []byte) {
				dec, a, _, ok := decodeProbe("arp", frame, oracle.LinkEthernet)
				if !ok {
					return
				}
				mu.Lock()
				nTx++
				k := nTx
				pass := (k - 1) / perPass
				fire := !sigSent && (midPass && k == passesWanted*perPass+perPass/2+1 || !midPass && k == passesWanted*perPass)
				if fire {
					sigSent = true
				}
				mu.Unlock()
				if from, up := upFrom[a]; up && pass >= from {
					fr, _ := replyFor("arp", oracle.LinkEthernet, dec, a, 0, prng)
					cr.Inject(d, fr)
				}
				if fire {
					if !midPass {
						time.AfterFunc(time.Duration(interval/2)*time.Millisecond, func() { cr.Signal(syscall.SIGINT) })
					} else {
						cr.Signal(syscall.SIGINT)
					}
				}
			}}
		res := RunCase(sx, spec)
		run.Eval(1)
		desc := map[string]interface{}{"argv": args, "per_pass": perPass, "sigint_mid_pass": midPass}
		if !baseChecks(run, res, desc, false) { // the exit status after an interrupt is not part of the statement
			continue
		}
		if res.Drops > 0 {
			run.Inconclusive("sniffer drops")
			continue
		}
		// probes in kernel-timestamp order
		type pr struct {
			t time.Time
			a uint32
		}
		var probes []pr
		for _, e := range res.Sniffed("tap0") {
			if _, a, _, ok := decodeProbe("arp", e.Data, oracle.LinkEthernet); ok && !e.KTS.IsZero() {
				probes = append(probes, pr{e.KTS, a})
			}
		}
		sort.SliceStable(probes, func(a, b int) bool { return probes[a].t.Before(probes[b].t) })
		complete := len(probes) / perPass
		if complete < passesWanted {
			run.Violation("passes-stopped", fmt.Sprintf("only %d complete passes of %d probes were observed before the scan was cancelled at pass %d: %s", complete, perPass, passesWanted, strings.Join(args, " ")), desc)
			continue
		}
		ok := true
		for p := 0; p < complete && ok; p++ {
			seen := map[uint32]int{}
			for _, x := range probes[p*perPass : (p+1)*perPass] {
				seen[x.a]++
			}
			for a := base; a < base+uint32(size); a++ {
				want := 1
				if oracle.Excluded(a, ex) {
					want = 0
				}
				if seen[a] != want {
					run.Violation("pass-incomplete", fmt.Sprintf("pass %d: %s probed %d times (expected %d): %s", p+1, ipS(a), seen[a], want, strings.Join(args, " ")), desc)
					ok = false
					break
				}
			}
			if p > 0 && ok {
				gap := probes[p*perPass].t.Sub(probes[p*perPass-1].t)
				// the interval is kept by the request generator (level 1 measures it there); on the wire the last
				// probes of a pass leave a little after the generator finished it, so the observed gap is the
				// interval minus that pipeline latency: a tolerance, not the 3 ms of the other kernel-timestamp bounds
				if gap < time.Duration(interval)*time.Millisecond-25*time.Millisecond-res.Stall {
					run.Violation("rescan-too-early", fmt.Sprintf("pass %d started %v after pass %d ended; the rescan interval is %d ms: %s", p+1, gap, p, interval, strings.Join(args, " ")), desc)
					ok = false
				} else {
					run.Count("pass_gaps_checked", 1)
				}
			}
		}
		// de-duplicated output: every host that answered is printed exactly once
		printed := map[string]int{}
		for _, l := range res.Stdout {
			rec, err := parseRecord(strings.TrimSpace(l))
			if err != nil {
				run.Violation("unparseable-record", fmt.Sprintf("%.200q", l), desc)
				continue
			}
			printed[strings.Fields(rec)[1]]++
		}
		lastPass := (len(probes) - 1) / perPass
		for a, from := range upFrom {
			if oracle.Excluded(a, ex) {
				continue
			}
			want := 0
			if from < lastPass { // answered in at least one pass that certainly completed
				want = 1
			}
			got := printed[ipS(a)]
			if got > 1 {
				run.Violation("host-printed-twice", fmt.Sprintf("%s answered in several passes and was printed %d times (live mode prints a host once): %s", ipS(a), got, strings.Join(args, " ")), desc)
				ok = false
			} else if got < want && res.Stall < 100*time.Millisecond {
				run.Violation("host-not-printed", fmt.Sprintf("%s answered from pass %d on but was never printed: %s", ipS(a), from+1, strings.Join(args, " ")), desc)
				ok = false
			}
			delete(printed, ipS(a))
		}
		for ip := range printed {
			run.Violation("phantom-host", fmt.Sprintf("%s was printed but never answered: %s", ip, strings.Join(args, " ")), desc)
			ok = false
		}
		if ok {
			run.Count("live_runs_ok", 1)
		}
		run.Count("c19_wire_runs", 1)
		run.Count("live_passes_observed", int64(complete))
		if midPass {
			run.Count("sigint_mid_pass", 1)
		} else {
			run.Count("sigint_between_passes", 1)
		}
		run.Distinct(strings.Join(args, " "))
		if run.WantSample() {
			run.Sample(map[string]interface{}{"argv": strings.Join(args, " "), "complete_passes": complete, "probes_per_pass": perPass, "hosts_printed": len(res.Stdout)})
		}
	}
}

// ---------------------------------------------------------------------------

func scenC11(run *vlab.Run, sx, tmp string) {
	rng := run.Rand("c11wire")
	n := run.Pick(24, 200)
	for i := 0; i < n; i++ {
		if !run.Mine(i) {
			continue
		}
		bits := 27 + rng.Intn(3)
		base := (0x0a090000 | rng.Uint32()&0xff00) &^ (1<<uint(32-bits) - 1)
		subnet := fmt.Sprintf("%s/%d", ipS(base), bits)
		size := uint32(1) << uint(32-bits)
		macOf := map[uint32][6]byte{}
		for a := base; a < base+size; a++ {
			if rng.Intn(2) == 0 {
				var m [6]byte
				rng.Read(m[:])
				m[0] &^= 1
				macOf[a] = m
			}
		}
		run.Case(fmt.Sprintf("c11w%03d/arp", i), subnet)
		// ---- run A: the ARP scan
		argsA := []string{"arp", "--json", "-i", "tap0", "--srcip", foreignSrcIP, subnet}
		liveA := i%4 == 2
		if liveA {
			// the README's other way to build a cache: a live scan that is interrupted after a while
			argsA = []string{"arp", "--json", "--live", "150ms", "-i", "tap0", "--srcip", foreignSrcIP, subnet}
		}
		var muA sync.Mutex
		probesA := 0
		resA := RunCase(sx, &CaseSpec{Args: argsA, Setup: commonWorld("tap"), Timeout: 60 * time.Second,
			OnTx: func(cr *CaseRun, d *Dev, frame []byte) {
				_, a, _, ok := decodeProbe("arp", frame, oracle.LinkEthernet)
				if ok && liveA {
					muA.Lock()
					probesA++
					fire := probesA == 2*int(size)+1
					muA.Unlock()
					if fire {
						cr.Signal(syscall.SIGINT)
					}
				}
				if m, up := macOf[a]; ok && up {
					cr.Inject(d, oracle.BuildEth(tapMACb, m, oracle.EtherTypeARP, oracle.BuildARP(2, m, oracle.U32ToIP(a), tapMACb, foreignSrc)))
					if rng.Intn(4) == 0 { // answered twice: two lines, the last wins (same MAC here)
						cr.Inject(d, oracle.BuildEth(tapMACb, m, oracle.EtherTypeARP, oracle.BuildARP(2, m, oracle.U32ToIP(a), tapMACb, foreignSrc)))
					}
					if i%2 == 1 {
						// an ARP frame that cannot be decoded (address sizes larger than the frame): the scan logs an error
						// for it - on its error stream, never among the lines a cache loader will read
						cr.Inject(d, oracle.BuildEth(tapMACb, m, oracle.EtherTypeARP, oracle.BuildARPRaw(1, oracle.EtherTypeIPv4, 200, 4, 2, m[:], ipBytesW(a), nil, nil)))
					}
				}
			}})
		run.Eval(1)
		if !baseChecks(run, resA, argsA, !liveA) {
			continue
		}
		if liveA {
			run.Count("arp_live_runs_as_cache_source", 1)
		}
		arpOut := strings.Join(resA.Stdout, "")
		if strings.Contains(resA.Stderr, "\"level\":\"error\"") || strings.Contains(resA.Stderr, "error") {
			run.Count("arp_runs_with_logged_errors", 1)
		}
		for _, l := range resA.Stdout {
			if _, err := parseRecord(strings.TrimSpace(l)); err != nil {
				run.Violation("arp-stdout-line-not-a-record", fmt.Sprintf("the ARP scan printed a line on stdout that is not an ARP record (a cache loader will read it): %.300q", l), argsA)
				break
			}
		}
		// what the ARP scan actually PRINTED is the cache (last line wins); whether it printed every reply is C03's business
		printedMAC := map[uint32][6]byte{}
		for _, l := range resA.Stdout {
			var m struct {
				IP  string `json:"ip"`
				MAC string `json:"mac"`
			}
			if json.Unmarshal([]byte(l), &m) != nil {
				continue
			}
			a, ok := oracle.RefIPv4(m.IP)
			var mac [6]byte
			if n, _ := fmt.Sscanf(strings.ReplaceAll(m.MAC, ":", " "), "%x %x %x %x %x %x", &mac[0], &mac[1], &mac[2], &mac[3], &mac[4], &mac[5]); ok && n == 6 {
				printedMAC[a] = mac
			}
		}
		for a, m := range printedMAC {
			if want, up := macOf[a]; !up || want != m {
				run.Violation("arp-line-wrong", fmt.Sprintf("the ARP scan printed %s for %s; the host answered with %v (up=%v)", oracle.MACString(m[:]), ipS(a), want, up), argsA)
			}
		}
		macOf = printedMAC
		// ---- run B: an IP-level scan fed with A's output
		kind := []string{"tcp", "icmp", "udp"}[i%3]
		withGw := i%4 != 3
		viaFile := i%2 == 0
		argsB := []string{kind, "--json", "-i", "tap0", "--exit-delay", "50ms"}
		switch kind {
		case "tcp":
			argsB = append(argsB, "-p", "80,443")
		case "udp":
			argsB = append(argsB, "-p", "53")
		}
		if withGw {
			argsB = append(argsB, "--gwmac", gwMAC)
		}
		var stdin []byte
		if viaFile {
			argsB = append(argsB, "-a", writeFile(tmp, "arp.cache", arpOut))
		} else {
			stdin = []byte(arpOut)
		}
		argsB = append(argsB, subnet)
		run.Case(fmt.Sprintf("c11w%03d/%s", i, kind), map[string]interface{}{"argv": argsB, "arp_output": tailStr(arpOut, 1500)})
		resB := RunCase(sx, &CaseSpec{Args: argsB, Stdin: stdin, Setup: commonWorld("tap"), Timeout: 60 * time.Second})
		run.Eval(1)
		desc := map[string]interface{}{"argv": argsB, "arp_output": tailStr(arpOut, 2000)}
		if resB.SetupErr != "" || resB.TimedOut {
			run.Inconclusive("run B: " + resB.SetupErr)
			continue
		}
		if t := resB.crashText(); t != "" {
			run.Violation("crash", "sx crashed when fed with the ARP scan's own output: "+strings.SplitN(t, "\n", 2)[0], map[string]interface{}{"case": desc, "stderr": t})
			continue
		}
		if resB.ExitCode != 0 {
			run.Violation("arp-output-rejected", fmt.Sprintf("sx %s exited %d when fed with the output of sx arp --json; stderr: %s", kind, resB.ExitCode, tailStr(resB.Stderr, 400)), desc)
			continue
		}
		perAddr := map[uint32]int{}
		okAll := true
		for _, f := range resB.Frames("tap0") {
			d, a, _, ok := decodeProbe(kind, f, oracle.LinkEthernet)
			if !ok {
				continue
			}
			perAddr[a]++
			want := gwMACb
			if m, up := macOf[a]; up {
				want = m
			} else if !withGw {
				run.Violation("frame-without-mac", fmt.Sprintf("%s has no ARP entry and no gateway MAC was given, yet a probe left for it (dst MAC %s)", ipS(a), oracle.MACString(d.Eth.Dst[:])), desc)
				okAll = false
				continue
			}
			if d.Eth.Dst != want {
				run.Violation("wrong-dest-mac", fmt.Sprintf("probe to %s is addressed to %s; the ARP scan printed %s for it (gateway %v)", ipS(a), oracle.MACString(d.Eth.Dst[:]), oracle.MACString(want[:]), withGw), desc)
				okAll = false
			} else {
				run.Count("wire_dest_macs_checked", 1)
			}
		}
		for a := base; a < base+size; a++ {
			_, up := macOf[a]
			if (up || withGw) && perAddr[a] == 0 {
				run.Violation("probe-missing", fmt.Sprintf("%s has a destination MAC (cache=%v gateway=%v) but was not probed", ipS(a), up, withGw), desc)
				okAll = false
			}
		}
		if okAll {
			run.Count("arp_to_ip_pipelines_ok", 1)
		}
		run.Count("c11_wire_runs", 1)
		if viaFile {
			run.Count("cache_via_file", 1)
		} else {
			run.Count("cache_via_stdin", 1)
		}
		run.Distinct(strings.Join(argsB, " ") + arpOut)
	}
}

// ---------------------------------------------------------------------------
// c13: bad target-list entries through the real binary: every bad entry leaves exactly one error
// record on stderr (zap JSON line, level error) that names its cause, no frame for it, and the
// valid entries around it are probed as if it were absent (processing may stop at a bad line).

func init() { scenarios["c13"] = scenC13 }

func scenC13(run *vlab.Run, sx, tmp string) {
	rng := run.Rand("c13wire")
	type badLine struct {
		text, cause string
		stops       bool
	}
	bads := []badLine{
		{`{"port":80}`, "invalid ip", false}, {`{"ip":"","port":80}`, "invalid ip", false}, {`{"ip":"10.9.0.256","port":80}`, "invalid ip", false},
		{`{"ip":"not-an-address","port":80}`, "invalid ip", false}, {`{"ip":"10.9.0.5"}`, "invalid port", false}, {`{"ip":"10.9.0.5","port":0}`, "invalid port", false},
		{`{"ip":"10.9.0.5","port":`, "", true}, {`not json at all`, "", true}, {`[1,2,3]`, "", true},
	}
	n := run.Pick(48, 480)
	emptyCache := writeFile(tmp, "arp.cache", "")
	for i := 0; i < n; i++ {
		if !run.Mine(i) {
			continue
		}
		kind := []string{"tcp", "udp", "tcp"}[i%3]
		nl := 3 + rng.Intn(12)
		manyBad := i%6 == 4
		if manyBad {
			// a long list with hundreds of defective entries (a column mix-up in the export): one record each,
			// however many there are and however fast they come
			nl = 150 + rng.Intn(300)
		}
		var sb strings.Builder
		type want struct {
			addr uint32
			port uint16
		}
		var wants []want
		nBad, stopped := 0, false
		var causes []string
		for k := 0; k < nl; k++ {
			if rng.Intn(3) == 0 || manyBad && rng.Intn(10) != 0 {
				b := bads[rng.Intn(len(bads))]
				if manyBad {
					b = bads[rng.Intn(6)] // the kinds after which processing goes on
				}
				if b.cause == "invalid port" && false {
					continue
				}
				sb.WriteString(b.text + "\n")
				if !stopped {
					nBad++
					causes = append(causes, b.cause)
				}
				if b.stops {
					stopped = true
				}
				continue
			}
			a := uint32(0x0a090100) + uint32(rng.Intn(200))
			p := uint16(1 + rng.Intn(65535))
			fmt.Fprintf(&sb, "{\"ip\":\"%s\",\"port\":%d}\n", ipS(a), p)
			if !stopped {
				wants = append(wants, want{a, p})
			}
		}
		file := sb.String()
		args := []string{kind, "--json", "-i", "tap0", "--gwmac", gwMAC, "-a", emptyCache, "--exit-delay", "300ms", "-f", writeFile(tmp, "targets.jsonl", file)}
		noGw := i%4 == 1 && !manyBad
		if noGw {
			// no --gwmac, a default route whose gateway is not in the ARP cache, and a cache that knows every other
			// address: an entry whose destination has no MAC becomes one error record and no frame
			var cache strings.Builder
			var keep []want
			seenAddr := map[uint32]bool{}
			for _, w := range wants {
				if w.addr%2 == 0 {
					keep = append(keep, w)
					if !seenAddr[w.addr] {
						fmt.Fprintf(&cache, "{\"ip\":\"%s\",\"mac\":\"02:aa:00:00:%02x:%02x\"}\n", ipS(w.addr), byte(w.addr>>8), byte(w.addr))
					}
					seenAddr[w.addr] = true
				} else {
					nBad++
					causes = append(causes, "no destination MAC")
				}
			}
			wants = keep
			args = []string{kind, "--json", "-i", "tap0", "-a", writeFile(tmp, "arp.cache", cache.String()), "--exit-delay", "300ms", "-f", writeFile(tmp, "targets.jsonl", file)}
		}
		if rng.Intn(2) == 0 {
			args = append(args, "--exclude", writeFile(tmp, "exclude.txt", "192.0.2.0/24\n"))
		}
		run.Case(fmt.Sprintf("c13w%03d", i), map[string]interface{}{"argv": args, "file": file})
		setup := commonWorld("tap")
		if noGw {
			setup = func(w *World) {
				commonWorld("tap")(w)
				mustSh("ip", "route", "replace", "default", "via", "10.9.0.254", "dev", "tap0")
			}
		}
		res := RunCase(sx, &CaseSpec{Args: args, Setup: setup, Timeout: 60 * time.Second})
		run.Eval(1)
		desc := map[string]interface{}{"argv": args, "file": file, "no_gateway_mac": noGw}
		if !baseChecks(run, res, desc, false) {
			continue
		}
		if noGw {
			run.Count("wire_runs_without_gateway_mac", 1)
			for _, f := range res.Frames("tap0") {
				if d, _, _, ok := decodeProbe(kind, f, oracle.LinkEthernet); ok && d.Eth != nil && d.Eth.Dst == [6]byte{} {
					run.Violation("frame-to-zero-mac", fmt.Sprintf("a probe was sent to the all-zero MAC address: no MAC is known for its destination (no gateway MAC, not in the cache): %s", strings.Join(args, " ")), desc)
					break
				}
			}
		}
		got := map[want]int{}
		for _, f := range res.Frames("tap0") {
			if _, a, p, ok := decodeProbe(kind, f, oracle.LinkEthernet); ok {
				got[want{a, p}]++
			}
		}
		exp := map[want]int{}
		for _, w := range wants {
			exp[w]++
		}
		// a parser may stop at any bad line: the probes must be a prefix-closed subset; with the current
		// non-stopping classes (ip/port) processing continues, which is what the reference assumes; fewer
		// probes are accepted only if everything missing lies after some bad line
		okAll := true
		for w, c := range got {
			if c > exp[w] {
				run.Violation("probe-for-bad-or-unknown-entry", fmt.Sprintf("%s:%d probed x%d, listed (valid, before a fatal line) x%d", ipS(w.addr), w.port, c, exp[w]), desc)
				okAll = false
			}
		}
		for w, c := range exp {
			if got[w] < c && nBad == 0 {
				run.Violation("valid-entry-lost", fmt.Sprintf("%s:%d listed x%d, probed x%d although the file has no bad line before it", ipS(w.addr), w.port, c, got[w]), desc)
				okAll = false
			}
		}
		var errLines []string
		for _, l := range strings.Split(res.Stderr, "\n") {
			if strings.Contains(l, `"level":"error"`) {
				errLines = append(errLines, l)
			}
		}
		if len(errLines) > nBad {
			run.Violation("error-records-extra", fmt.Sprintf("%d bad entries (up to the first fatal one) but %d error records", nBad, len(errLines)), map[string]interface{}{"case": desc, "stderr": tailStr(res.Stderr, 1500)})
			okAll = false
		}
		if len(errLines) < nBad && len(got) == len(exp) && res.Stall < 100*time.Millisecond {
			// everything was processed to the end, so every bad entry must have left its record
			run.Violation("error-record-missing", fmt.Sprintf("%d bad entries were passed over (all valid entries were probed) but only %d error records were written", nBad, len(errLines)), map[string]interface{}{"case": desc, "stderr": tailStr(res.Stderr, 1500)})
			okAll = false
		}
		// causes as a multiset (records of different entries may overtake each other between the workers)
		if len(errLines) == nBad {
			left := append([]string(nil), errLines...)
			for _, cause := range causes {
				if cause == "" {
					continue
				}
				found := -1
				for k, l := range left {
					if strings.Contains(l, cause) {
						found = k
						break
					}
				}
				if found < 0 {
					run.Violation("error-cause", fmt.Sprintf("no error record states the cause %q of one of the bad entries; records: %.600s", cause, strings.Join(errLines, " | ")), desc)
					okAll = false
					break
				}
				left = append(left[:found], left[found+1:]...)
			}
		}
		if okAll {
			run.Count("bad_line_files_ok", 1)
		}
		run.Count("c13_wire_runs", 1)
		if manyBad {
			run.Count("wire_files_with_more_than_100_bad_entries", 1)
		}
		run.Count("wire_bad_entries", int64(nBad))
		run.Count("wire_error_records", int64(len(errLines)))
		run.Distinct(file)
	}
}

// ---------------------------------------------------------------------------
// c20: the receiver of the real binary survives read faults of a real socket. The link goes down in
// the middle of a scan (reads fail with ENETDOWN / "packet poll failed", writes fail) and comes back:
// sx must not crash, the read errors are reported, and - the point - reading continues: replies to
// probes sent after the link came back are still reported. (How many frames the kernel dropped while
// the link was going down is not sx's business; coverage is not judged here.)

func init() { scenarios["c20"] = scenC20 }

func scenC20(run *vlab.Run, sx, tmp string) {
	rng := run.Rand("c20wire")
	n := run.Pick(12, 100)
	for i := 0; i < n; i++ {
		if !run.Mine(i) {
			continue
		}
		kind := []string{"icmp", "arp", "tcp"}[i%3]
		s := &wireSpec{Kind: kind, Link: "tap", Mode: "subnet", Subnet: fmt.Sprintf("10.9.%d.0/23", 2*(2+rng.Intn(100)))}
		switch kind {
		case "icmp":
			s.Cmd = []string{"icmp"}
		case "arp":
			s.Cmd = []string{"arp"}
		default:
			s.Cmd, s.Ports = []string{"tcp", "syn"}, "80"
		}
		s.Extra = []string{"--srcip", foreignSrcIP, "--rate", "1000/s"}
		downAt := 50 + rng.Intn(150)
		downMs := []int{30, 100, 200}[rng.Intn(3)]
		args, stdin := wireArgs(tmp, s)
		run.Case(fmt.Sprintf("c20w%03d", i), map[string]interface{}{"argv": args, "link_down_at_probe": downAt, "down_ms": downMs})
		for attempt := 0; attempt < 3; attempt++ {
			var mu sync.Mutex
			nTx := 0
			var upAt time.Time
			var want []string
			prng := rand.New(rand.NewSource(int64(i)))
			res := RunCase(sx, &CaseSpec{Args: args, Stdin: stdin, Setup: commonWorld("tap"), Timeout: 60 * time.Second,
				OnTx: func(cr *CaseRun, d *Dev, frame []byte) {
					dec, a, port, ok := decodeProbe(kind, frame, oracle.LinkEthernet)
					if !ok {
						return
					}
					mu.Lock()
					nTx++
					k := nTx
					up := upAt
					mu.Unlock()
					if k == downAt {
						go func() {
							sh("ip", "link", "set", "tap0", "down")
							time.Sleep(time.Duration(downMs) * time.Millisecond)
							sh("ip", "link", "set", "tap0", "up")
							mu.Lock()
							upAt = time.Now()
							mu.Unlock()
						}()
					}
					// answer every probe that leaves at least 50 ms after the link came back
					if !up.IsZero() && time.Since(up) > 50*time.Millisecond {
						fr, rec := replyFor(kind, oracle.LinkEthernet, dec, a, port, prng)
						mu.Lock()
						want = append(want, rec)
						mu.Unlock()
						cr.Inject(d, fr)
					}
				}})
			run.Eval(1)
			desc := map[string]interface{}{"argv": args, "link_down_at_probe": downAt, "down_ms": downMs}
			if res.SetupErr != "" {
				run.Inconclusive(res.SetupErr)
				break
			}
			if t := res.crashText(); t != "" {
				run.Violation("crash-on-link-flap", "sx crashed when the link went down and up: "+strings.SplitN(t, "\n", 2)[0], map[string]interface{}{"case": desc, "stderr": t})
				break
			}
			if res.TimedOut {
				if res.Parked {
					run.Violation("no-exit-after-link-flap", "sx did not exit after the link went down and up (parked)", map[string]interface{}{"case": desc, "goroutines": tailStr(res.Dump, 20000)})
				} else {
					run.Inconclusive("watchdog")
				}
				break
			}
			got := map[string]int{}
			for _, l := range res.Stdout {
				if rec, err := parseRecord(strings.TrimSpace(l)); err == nil {
					got[rec]++
				}
			}
			missing := 0
			for _, rec := range want {
				if got[rec] == 0 {
					missing++
				} else {
					got[rec]--
				}
			}
			nErr := strings.Count(res.Stderr, `"level":"error"`)
			if len(want) == 0 {
				run.Inconclusive("the scan ended before the link was back")
				break
			}
			if missing > 0 && attempt < 2 {
				run.Count("link_flap_runs_retried", 1)
				continue
			}
			if missing > 0 {
				run.Violation("receiver-dead-after-read-faults", fmt.Sprintf("%d of %d replies to probes sent after the link was back were not reported (%d error records on stderr): the receive loop did not survive the read faults: %s", missing, len(want), nErr, strings.Join(args, " ")), map[string]interface{}{"case": desc, "stderr_tail": tailStr(res.Stderr, 1500)})
			} else {
				run.Count("link_flaps_survived", 1)
				run.Count("replies_after_flap_reported", int64(len(want)))
			}
			run.Count("c20_wire_runs", 1)
			run.Count("error_records_during_flaps", int64(nErr))
			run.Distinct(fmt.Sprintf("%s/%d/%d", strings.Join(args, " "), downAt, downMs))
			break
		}
	}
}

// ---------------------------------------------------------------------------
// c02app: confinement of the application scans against what the scanned server (or the environment) says:
// a target that answers with an HTTP redirect to a host outside the target set, and proxy variables in the
// environment. Whatever the target answers, no TCP connection may be opened to an address that is not in the
// target set (or is excluded). Observed as SYNs on lo (kernel sniffer) and as accepts of the outsider.
func init() { scenarios["c02app"] = scenC02App }

func scenC02App(run *vlab.Run, sx, tmp string) {
	rng := run.Rand("c02app")
	n := run.Pick(20, 120)
	for i := 0; i < n; i++ {
		kind := []string{"elastic", "docker"}[i%2]
		mode := []string{"redirect", "redirect", "proxy-env", "redirect-excluded"}[i/2%4]
		status := []int{301, 302, 303, 307, 308}[rng.Intn(5)]
		tport := 20000 + rng.Intn(10000)
		oport := 31000 + rng.Intn(9000)
		tbase := uint32(0x0a420000) | uint32(rng.Intn(60))<<2 // 10.66.0.x/30
		outsider := fmt.Sprintf("10.77.0.%d", 1+rng.Intn(250))
		nw := 1 + rng.Intn(4)
		if !run.Mine(i) {
			continue
		}
		if mode == "redirect-excluded" {
			outsider = ipS(tbase&^0xff | 200) // inside 10.66.0.0/24 but excluded (and outside the /30 anyway)
		}
		var mu sync.Mutex
		outsiderHits, targetHits := 0, 0
		tln, err := net.Listen("tcp4", fmt.Sprintf("0.0.0.0:%d", tport))
		if err != nil {
			continue
		}
		oln, err := net.Listen("tcp4", fmt.Sprintf("0.0.0.0:%d", oport))
		if err != nil {
			tln.Close()
			continue
		}
		obj := `{"ID":"outsider","Name":"outsider","name":"outsider","cluster_name":"c","ApiVersion":"1.41","Version":"20.10.0"}`
		tsrv := &http.Server{Handler: http.HandlerFunc(func(w http.ResponseWriter, r *http.Request) {
			mu.Lock()
			targetHits++
			mu.Unlock()
			w.Header().Set("Api-Version", "1.41")
			if kind == "docker" && strings.HasSuffix(r.URL.Path, "/_ping") {
				fmt.Fprint(w, "OK")
				return
			}
			if mode == "proxy-env" {
				w.Header().Set("Content-Type", "application/json")
				fmt.Fprint(w, strings.ReplaceAll(obj, "outsider", "target"))
				return
			}
			w.Header().Set("Location", fmt.Sprintf("http://%s:%d%s", outsider, oport, r.URL.Path))
			w.WriteHeader(status)
		})}
		osrv := &http.Server{Handler: http.HandlerFunc(func(w http.ResponseWriter, r *http.Request) {
			mu.Lock()
			outsiderHits++
			mu.Unlock()
			w.Header().Set("Api-Version", "1.41")
			w.Header().Set("Content-Type", "application/json")
			fmt.Fprint(w, obj)
		})}
		go tsrv.Serve(tln)
		go osrv.Serve(oln)
		args := []string{kind, "--json", "-p", fmt.Sprint(tport), "-t", "2s", "-w", fmt.Sprint(nw)}
		if mode == "redirect-excluded" {
			args = append(args, "--exclude", writeFile(tmp, "exclude.txt", outsider+"\n"))
		}
		args = append(args, fmt.Sprintf("%s/30", ipS(tbase)))
		var env []string
		if mode == "proxy-env" {
			p := fmt.Sprintf("http://%s:%d", outsider, oport)
			env = []string{"HTTP_PROXY=" + p, "http_proxy=" + p, "HTTPS_PROXY=" + p, "https_proxy=" + p, "NO_PROXY=", "no_proxy="}
			// (ALL_PROXY with an http URL makes the docker client library refuse to build a client at all: every
			// probe fails with an error record and nothing is sent - visible, and no statement covers the environment)
			if i/8%2 == 1 && kind != "docker" {
				env = append(env, "ALL_PROXY="+p, "all_proxy="+p)
			}
			if kind == "docker" {
				// the variables of the docker CLI: they describe the user's own daemon, not the hosts to scan
				env = append(env, fmt.Sprintf("DOCKER_HOST=tcp://%s:%d", outsider, oport), "DOCKER_API_VERSION=1.40")
			}
		}
		run.Case(fmt.Sprintf("c02app%03d", i), map[string]interface{}{"argv": args, "mode": mode, "status": status, "outsider": outsider, "env": env})
		res := RunCase(sx, &CaseSpec{Args: args, Env: env, Sniff: []string{"lo"}, Timeout: 120 * time.Second, Setup: func(w *World) {
			mustSh("ip", "link", "set", "dev", "lo", "up")
			mustSh("ip", "route", "replace", "local", "10.66.0.0/24", "dev", "lo")
			mustSh("ip", "route", "replace", "local", "10.77.0.0/24", "dev", "lo")
		}})
		tsrv.Close()
		osrv.Close()
		run.Eval(1)
		desc := map[string]interface{}{"argv": strings.Join(args, " "), "mode": mode, "status": status, "outsider": fmt.Sprintf("%s:%d", outsider, oport), "env": env}
		if !baseChecks(run, res, desc, true) {
			continue
		}
		// SYNs per destination
		oa, _ := oracle.RefIPv4(outsider)
		synOut, synIn, synOther := 0, 0, 0
		other := ""
		for _, e := range res.Sniffed("lo") {
			d := oracle.Decode(e.Data, oracle.LinkEthernet)
			if d.IP == nil || d.TCP == nil || d.TCP.Flags&(oracle.FlagSYN|oracle.FlagACK) != oracle.FlagSYN {
				continue
			}
			dst := oracle.IPToU32(d.IP.Dst)
			switch {
			case dst >= tbase && dst < tbase+4 && int(d.TCP.DstPort) == tport:
				synIn++
			case dst == oa:
				synOut++
			default:
				synOther++
				other = fmt.Sprintf("%s:%d", oracle.IPString(d.IP.Dst), d.TCP.DstPort)
			}
		}
		mu.Lock()
		oh, th := outsiderHits, targetHits
		mu.Unlock()
		switch {
		case synOut > 0 || oh > 0:
			what := "an HTTP redirect sent by the target"
			if mode == "proxy-env" {
				what = "proxy variables in the environment"
			}
			run.Violation("app-connects-outside-target-set:"+kind+":"+mode, fmt.Sprintf("sx %s opened %d connection(s) to %s:%d, which is not in the target set %s (cause: %s, status %d); the outsider served %d requests: %s", kind, synOut, outsider, oport, args[len(args)-1], what, status, oh, strings.Join(args, " ")), desc)
		case synOther > 0:
			run.Violation("app-connects-outside-target-set:"+kind+":other", fmt.Sprintf("sx %s opened %d connection(s) to %s, which is not a target: %s", kind, synOther, other, strings.Join(args, " ")), desc)
		case synIn == 0:
			run.Inconclusive(fmt.Sprintf("no connection to a target was seen: %v", desc))
			continue
		}
		// a target that only redirects has not served JSON info itself
		if mode != "proxy-env" {
			for _, l := range res.Stdout {
				run.Violation("app-record-for-redirecting-target:"+kind, fmt.Sprintf("a target that answered %d with an empty body was printed (the JSON came from %s): %.200q", status, outsider, l), desc)
				break
			}
		}
		run.Count("app_confinement_runs", 1)
		run.Count("app_confinement:"+kind+":"+mode, 1)
		run.Count("app_target_connections_seen", int64(synIn))
		_ = th
		run.Distinct(strings.Join(args, " ") + mode + fmt.Sprint(status))
	}
}

func ipBytesW(a uint32) []byte {
	b := oracle.U32ToIP(a)
	return b[:]
}
