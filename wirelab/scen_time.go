package main

// Level-2 timing scenarios on kernel sender-side timestamps (SO_TIMESTAMPNS, PACKET_OUTGOING):
//
//	c16: the exit delay is honoured by the real binary, per chunk: process exit (observed after
//	     waitpid, i.e. never early) >= kernel timestamp of the last probe + delay - eps; first probe
//	     of chunk i+1 >= last probe of chunk i + delay - eps; a reply injected 0.4 x delay after the
//	     last probe of a chunk is still reported.
//	c15: --rate N/W: every window of k consecutive probes spans >= (k-1-b) * W/N - eps; the
//	     receive path is not slowed (a burst of replies is printed before the next probe leaves).
//	c12: SIGINT at the k-th probe / during the exit delay / right after start: the process ends
//	     (parked criterion), does not crash, and every stdout line is a complete record.

import (
	"encoding/json"
	"fmt"
	"math/rand"
	"sort"
	"strings"
	"sync"
	"sync/atomic"
	"syscall"
	"time"

	"verif.local/v/oracle"
	"verif.local/v/vlab"
)

func init() {
	scenarios["c16"] = scenC16
	scenarios["c15"] = scenC15
	scenarios["c12"] = scenC12
}

// replyFor builds the canonical reply-shaped frame for a probe of the given kind.
func replyFor(kind string, link oracle.Link, d *oracle.Decoded, dst uint32, dport uint16, rng *rand.Rand) (frame []byte, rec string) {
	src := oracle.U32ToIP(dst)
	wrap := func(ipb []byte) []byte {
		if link == oracle.LinkEthernet {
			return oracle.BuildEth(tapMACb, [6]byte{2, 0, 0, 0, 0, 0x99}, oracle.EtherTypeIPv4, ipb)
		}
		return ipb
	}
	switch kind {
	case "tcp":
		sport := uint16(40000)
		if d.TCP != nil {
			sport = d.TCP.SrcPort
		}
		f := uint16(oracle.FlagSYN | oracle.FlagACK)
		return wrap(oracle.BuildIPv4(oracle.NewIPSpec(src, foreignSrc, oracle.ProtoTCP), oracle.BuildTCP(src, foreignSrc, oracle.TCPSpec{SrcPort: dport, DstPort: sport, Flags: f, DataOff: -1, Seq: rng.Uint32()}))), recTCP(oracle.IPString(src), dport, "")
	case "icmp":
		s := oracle.NewIPSpec(src, foreignSrc, oracle.ProtoICMP)
		return wrap(oracle.BuildIPv4(s, oracle.BuildICMP(0, 0, 1, 1, make([]byte, 8)))), recICMP(oracle.IPString(src), 0, 0, s.TTL)
	case "arp":
		mac := [6]byte{2, 0x77, byte(dst >> 24), byte(dst >> 16), byte(dst >> 8), byte(dst)}
		return oracle.BuildEth(tapMACb, mac, oracle.EtherTypeARP, oracle.BuildARP(2, mac, src, tapMACb, foreignSrc)), recARP(oracle.IPString(src), oracle.MACString(mac[:]))
	}
	return nil, ""
}

// ---------------------------------------------------------------------------

type c16case struct {
	wireSpec
	DelayMs int  `json:"exit_delay_ms"` // 0 = flag absent (default 300 ms)
	Chunks  int  `json:"chunks"`
	Late    bool `json:"inject_late_reply_per_chunk"`
	// every probe is answered at once as well (with --rate: the limiter paces the probes, the answers to the
	// earlier ones arrive while the later ones are still waiting for their turn)
	AnswerAll bool `json:"answer_every_probe_at_once,omitempty"`
	// the late reply arrives 130 ms before the delay ends instead of at 40 % of it
	LateNearEnd bool `json:"late_reply_130ms_before_the_end,omitempty"`
	// every probe is also answered 1.5 x delay late, i.e. after its chunk's socket has been closed:
	// nothing is expected to be reported for those, but the scan must go on (no crash, all chunks probed)
	AfterClose bool `json:"answer_every_probe_after_its_chunk_ended"`
	// after the last probe, replies keep arriving every delay/4: the scan must still end when the delay is over
	KeepReplying bool `json:"replies_keep_arriving_after_the_last_probe"`
}

func scenC16(run *vlab.Run, sx, tmp string) {
	rng := run.Rand("c16wire")
	var cases []*c16case
	n := run.Pick(40, 300)
	for i := 0; i < n; i++ {
		c := &c16case{DelayMs: []int{0, 100, 500, 1000}[i%4], Late: i%2 == 0}
		if run.Thorough() && i%9 == 0 {
			c.DelayMs = 2000
		}
		kinds := []struct {
			cmd  []string
			kind string
		}{{[]string{"arp"}, "arp"}, {[]string{"icmp"}, "icmp"}, {[]string{"tcp", "syn"}, "tcp"}, {[]string{"tcp"}, "tcp"}, {[]string{"tcp", "syn"}, "tcp"},
			// every sibling command wires --exit-delay by itself
			{[]string{"tcp", "fin"}, "tcp"}, {[]string{"tcp", "null"}, "tcp"}, {[]string{"tcp", "xmas"}, "tcp"}, {[]string{"tcp", "--flags", "fin,ack"}, "tcp"}, {[]string{"tcp", "--flags", "syn"}, "tcp"}}
		k := kinds[rng.Intn(5)]
		if i%2 == 1 {
			k = kinds[5+(i/2)%5]
		}
		c.Cmd, c.Kind, c.Link, c.Mode = k.cmd, k.kind, "tap", "subnet"
		bits := 27 + rng.Intn(5)
		base := (0x0a090000 | rng.Uint32()&0xff00) &^ (1<<uint(32-bits) - 1)
		c.Subnet = fmt.Sprintf("%s/%d", ipS(base), bits)
		c.Chunks = 1
		if k.kind == "tcp" {
			c.NRanges = []int{1, 3, 201, 401}[rng.Intn(4)]
			if i%3 == 0 {
				c.NRanges = []int{201, 401, 450}[rng.Intn(3)]
			}
			if i%4 == 3 { // reserved for the single-chunk "replies keep arriving" variant
				c.NRanges = 1 + rng.Intn(3)
			}
			if i%5 == 1 { // reserved for the rate-limited variant: a single chunk
				c.NRanges = 1 + rng.Intn(2)
			}
			if c.NRanges > 200 {
				c.Subnet = fmt.Sprintf("%s/%d", ipS(base), 31+rng.Intn(2))
			}
			// ordered, disjoint single ports: port p belongs to chunk index(p)/200
			var items []string
			for j := 0; j < c.NRanges; j++ {
				items = append(items, fmt.Sprint(1000+j*50+rng.Intn(20)))
			}
			c.Ports = strings.Join(items, ",")
			c.Chunks = (c.NRanges + 199) / 200
		}
		c.Extra = []string{"--srcip", foreignSrcIP}
		if c.DelayMs > 0 {
			c.Extra = append(c.Extra, "--exit-delay", fmt.Sprintf("%dms", c.DelayMs))
		}
		if i%5 == 1 {
			// (a few probes only: with --rate 5/s a /29 takes 1.6 s)
			if bits < 29 {
				bits = 29 + i/5%3
				base = (0x0a090000 | base&0xff00) &^ (1<<uint(32-bits) - 1)
				c.Subnet = fmt.Sprintf("%s/%d", ipS(base), bits)
			}
			// a rate limit slows sending down, never receiving: late replies are reported all the same
			c.Extra = append(c.Extra, "--rate", "5/s")
			c.Late, c.AnswerAll = true, true
		}
		if c.Chunks > 1 && c.DelayMs <= 500 && i%2 == 1 {
			c.AfterClose = true
		}
		if c.Chunks == 1 && i%4 == 3 {
			c.KeepReplying, c.Late = true, false
		}
		if c.Late && c.DelayMs >= 500 && i/4%2 == 1 {
			c.LateNearEnd = true
		}
		if c.Late && i%10 == 4 { // make sure every quick run has some
			c.DelayMs, c.LateNearEnd = 600, true
			for k, x := range c.Extra {
				if x == "--exit-delay" {
					c.Extra[k+1] = "600ms"
				}
			}
			if c.DelayMs > 0 && !strings.Contains(strings.Join(c.Extra, " "), "--exit-delay") {
				c.Extra = append(c.Extra, "--exit-delay", "600ms")
			}
		}
		cases = append(cases, c)
	}
	for i, c := range cases {
		if !run.Mine(i) || tooManyHangs() {
			continue
		}
		run.Case(fmt.Sprintf("c16w%04d", i), c)
		// a reply that is not reported although it arrived in time is judged on three runs of the same
		// scenario: the bound is an upper one for sx (it must get to the frame before its own timer fires),
		// which a starved process can miss once; a defect misses it every time
		for attempt := 0; attempt < 3; attempt++ {
			final := attempt == 2
			softMiss := false
			exp, _ := wireExpected(&c.wireSpec)
			delay := time.Duration(c.DelayMs) * time.Millisecond
			if c.DelayMs == 0 {
				delay = 300 * time.Millisecond
			}
			// chunk of a probe = index of its port in the list / 200
			portIdx := map[uint16]int{}
			if c.Ports != "" {
				for j, it := range strings.Split(c.Ports, ",") {
					var p int
					fmt.Sscanf(it, "%d", &p)
					portIdx[uint16(p)] = j
				}
			}
			chunkOf := func(port uint16) int { return portIdx[port] / 200 }
			perChunk := make([]int, c.Chunks)
			for k, n := range exp {
				perChunk[chunkOf(uint16(k))] += int(n)
			}
			var mu sync.Mutex
			seen := make([]int, c.Chunks)
			var lateRecs []string
			var lastProbeSeen time.Time
			stopReplies := make(chan struct{})
			prng := rand.New(rand.NewSource(int64(i)))
			args, stdin := wireArgs(tmp, &c.wireSpec)
			wd := 120 * time.Second
			if c.KeepReplying {
				wd = delay + 15*time.Second
			}
			spec := &CaseSpec{Args: args, Stdin: stdin, Setup: commonWorld("tap"), Sniff: []string{"tap0"}, Timeout: wd,
				OnTx: func(cr *CaseRun, d *Dev, frame []byte) {
					dec, a, port, ok := decodeProbe(c.Kind, frame, oracle.LinkEthernet)
					if !ok {
						return
					}
					ch := chunkOf(port)
					mu.Lock()
					seen[ch]++
					last := seen[ch] == perChunk[ch]
					mu.Unlock()
					if c.AfterClose && ch+1 < c.Chunks {
						fr, _ := replyFor(c.Kind, oracle.LinkEthernet, dec, a, port, prng)
						time.AfterFunc(delay*3/2+20*time.Millisecond, func() { cr.Inject(d, fr) })
					}
					if last && c.KeepReplying && ch == c.Chunks-1 {
						mu.Lock()
						lastProbeSeen = time.Now()
						mu.Unlock()
						go func() {
							for k := 0; k < 400; k++ {
								select {
								case <-stopReplies:
									return
								case <-time.After(delay / 4):
								}
								fr, _ := replyFor(c.Kind, oracle.LinkEthernet, dec, a, port, prng)
								cr.Inject(d, fr)
							}
						}()
					}
					if c.AnswerAll && !(last && c.Late) {
						fr, rec := replyFor(c.Kind, oracle.LinkEthernet, dec, a, port, prng)
						if c.Kind == "tcp" && len(c.Cmd) > 1 && c.Cmd[1] != "syn" {
							rec = recTCP(ipS(a), port, "sa")
						}
						mu.Lock()
						lateRecs = append(lateRecs, rec)
						mu.Unlock()
						cr.Inject(d, fr)
					}
					if last && c.Late {
						fr, rec := replyFor(c.Kind, oracle.LinkEthernet, dec, a, port, prng)
						if c.Kind == "tcp" && len(c.Cmd) > 1 && c.Cmd[1] != "syn" {
							rec = recTCP(ipS(a), port, "sa") // every tcp scan but the SYN scan prints the flags of the reply
						}
						ats := []time.Duration{delay * 4 / 10}
						if c.AnswerAll {
							// a burst of late replies: reading them is not paced by --rate
							// (more of them than the limiter's own start-up allowance of 10)
							ats = nil
							for k := 0; k < 30; k++ {
								ats = append(ats, delay*4/10)
							}
						}
						if c.LateNearEnd {
							// well before the end, but spread over the last quarter second: a ring that hands frames to the
							// reader only every few hundred milliseconds loses the ones after its last tick
							ats = []time.Duration{delay - 240*time.Millisecond, delay - 200*time.Millisecond, delay - 160*time.Millisecond, delay - 120*time.Millisecond}
						}
						mu.Lock()
						for range ats {
							lateRecs = append(lateRecs, rec)
						}
						mu.Unlock()
						for _, at := range ats {
							time.AfterFunc(at, func() { cr.Inject(d, fr) })
						}
					}
				}}
			res := RunCase(sx, spec)
			close(stopReplies)
			run.Eval(1)
			desc := map[string]interface{}{"case": c, "argv": strings.Join(args, " ")}
			if c.KeepReplying && res.SetupErr == "" && res.crashText() == "" {
				mu.Lock()
				lp := lastProbeSeen
				mu.Unlock()
				if !lp.IsZero() {
					over := res.ExitWall.Sub(lp) - delay
					if res.TimedOut || over > 5*time.Second {
						if res.Stall > 500*time.Millisecond {
							run.Inconclusive(fmt.Sprintf("late exit but the monitor stalled %v", res.Stall))
						} else {
							run.Violation("no-exit-while-replies-arrive", fmt.Sprintf("replies kept arriving every %v after the last probe; sx was still running %v after the exit delay %v was over (watchdog fired: %v): %s", delay/4, over, delay, res.TimedOut, tailStr(strings.Join(args, " "), 200)), desc)
						}
						break
					}
					run.Count("exits_despite_continuing_replies", 1)
				}
			}
			if !baseChecks(run, res, desc, true) {
				break
			}
			if res.Drops > 0 {
				run.Inconclusive(fmt.Sprintf("the timestamp sniffer dropped %d frames", res.Drops))
				break
			}
			// kernel timestamps per chunk
			firstK := make([]time.Time, c.Chunks)
			lastK := make([]time.Time, c.Chunks)
			nSniff := 0
			for _, e := range res.Sniffed("tap0") {
				_, _, port, ok := decodeProbe(c.Kind, e.Data, oracle.LinkEthernet)
				if !ok || e.KTS.IsZero() {
					continue
				}
				nSniff++
				ch := chunkOf(port)
				if firstK[ch].IsZero() || e.KTS.Before(firstK[ch]) {
					firstK[ch] = e.KTS
				}
				if e.KTS.After(lastK[ch]) {
					lastK[ch] = e.KTS
				}
			}
			total := 0
			for _, n := range perChunk {
				total += n
			}
			if nSniff != total {
				run.Inconclusive(fmt.Sprintf("sniffer saw %d probes, %d expected (coverage is C01's business)", nSniff, total))
				break
			}
			const eps = 3 * time.Millisecond
			finalK := lastK[c.Chunks-1]
			if waited := res.ExitWall.Sub(finalK); waited < delay-eps {
				run.Violation("exit-before-delay", fmt.Sprintf("sx exited %v after its last probe left (kernel timestamp); the exit delay is %v: %s", waited, delay, strings.Join(args, " ")), desc)
			} else {
				run.Count("exit_delay_lower_bounds_checked", 1)
				run.Max("max_exit_overshoot_ms", (waited - delay).Milliseconds())
			}
			for ch := 0; ch+1 < c.Chunks; ch++ {
				if gap := firstK[ch+1].Sub(lastK[ch]); gap < delay-eps {
					run.Violation("chunk-delay-skipped", fmt.Sprintf("the first probe of chunk %d left %v after the last probe of chunk %d; each chunk must wait the exit delay %v for late replies: %s", ch+1, gap, ch, delay, tailStr(strings.Join(args, " "), 200)), desc)
				} else {
					run.Count("chunk_gaps_checked", 1)
				}
			}
			if c.Late {
				got := map[string]int{}
				for _, l := range res.Stdout {
					if rec, err := parseRecord(strings.TrimSpace(l)); err == nil {
						got[rec]++
					}
				}
				for _, rec := range lateRecs {
					if got[rec] == 0 {
						if res.Stall > 30*time.Millisecond {
							run.Inconclusive(fmt.Sprintf("late reply not reported but the monitor stalled %v", res.Stall))
							continue
						}
						if !final {
							softMiss = true
							run.Count("late_reply_misses_retried", 1)
							continue
						}
						run.Violation("late-reply-lost", fmt.Sprintf("a reply injected %v after the last probe of a chunk (exit delay %v) was not reported (%q): %s", delay*4/10, delay, rec, tailStr(strings.Join(args, " "), 200)), desc)
					} else {
						got[rec]--
						run.Count("late_replies_reported", 1)
					}
				}
			}
			if softMiss {
				continue // run the same scenario again
			}
			run.Count("c16_wire_runs", 1)
			run.Count("c16_cmd:"+strings.Join(c.Cmd, " "), 1)
			if c.AnswerAll {
				run.Count("c16_rate_limited_runs_with_every_probe_answered", 1)
			}
			if c.AfterClose {
				run.Count("runs_with_replies_after_chunk_end", 1)
			}
			if c.Chunks > 1 {
				run.Count("c16_chunked_runs", 1)
			}
			run.Distinct(strings.Join(args, " "))
			if run.WantSample() && c.Chunks > 1 {
				run.Sample(map[string]interface{}{"argv_tail": tailStr(strings.Join(args, " "), 100), "chunks": c.Chunks, "exit_after_last_probe_ms": res.ExitWall.Sub(finalK).Milliseconds(), "delay_ms": delay.Milliseconds()})
			}
			break
		}
	}
}

// ---------------------------------------------------------------------------

type c15case struct {
	wireSpec
	Rate   string `json:"rate"`
	Probes int    `json:"probes"`
	Burst  bool   `json:"reply_burst"`
	// the scanner is stopped (SIGSTOP) for this long after its n-th probe and then continued: whatever credit
	// the limiter accrues while idle may be spent on at most b probes
	PauseMs    int `json:"sigstop_ms,omitempty"`
	PauseAfter int `json:"sigstop_after_probe,omitempty"`
}

func scenC15(run *vlab.Run, sx, tmp string) {
	rng := run.Rand("c15wire")
	var cases []*c15case
	rates := []string{"200/s", "1000/s", "5000/s", "500", "100/100ms", "50/20ms", "3000/3s", "400/250ms", "20/10ms", "2/ms", "1000/1s", "20000/s", "8000/s", "300/1.5s", "100/.5s"}
	n := run.Pick(44, 330)
	for i := 0; i < n; i++ {
		c := &c15case{Rate: rates[i%len(rates)]}
		kinds := []struct {
			cmd  []string
			kind string
		}{{[]string{"arp"}, "arp"}, {[]string{"icmp"}, "icmp"}, {[]string{"tcp", "syn"}, "tcp"}, {[]string{"udp"}, "udp"}, {[]string{"tcp", "--flags", "fin"}, "tcp"},
			// every sibling command wires --rate by itself
			{[]string{"tcp"}, "tcp"}, {[]string{"tcp", "fin"}, "tcp"}, {[]string{"tcp", "null"}, "tcp"}, {[]string{"tcp", "xmas"}, "tcp"}}
		k := kinds[rng.Intn(5)]
		if i%3 == 2 {
			k = kinds[5+(i/3)%4]
		}
		c.Cmd, c.Kind, c.Link, c.Mode = k.cmd, k.kind, "tap", "subnet"
		if k.kind != "arp" && rng.Intn(4) == 0 {
			c.Link = "tun"
		}
		rn, rw, _ := oracle.RefRate(c.Rate)
		per := rw / time.Duration(rn)
		// run for roughly 0.4 .. 1.2 s
		want := int((400*time.Millisecond + time.Duration(rng.Intn(800))*time.Millisecond) / per)
		if want < 30 {
			want = 30
		}
		if want > 4000 {
			want = 4000
		}
		bits := 32
		for (1 << uint(32-bits)) < want {
			bits--
		}
		base := (0x0a090000 | rng.Uint32()&0xffff) &^ (1<<uint(32-bits) - 1)
		c.Subnet = fmt.Sprintf("%s/%d", ipS(base), bits)
		if k.kind == "tcp" || k.kind == "udp" {
			c.Ports = "80"
			if rng.Intn(3) == 0 && bits < 32 { // > 200 ranges: the limiter is rebuilt per chunk
				c.NRanges = 201 + rng.Intn(100)
				var items []string
				for j := 0; j < c.NRanges; j++ {
					items = append(items, fmt.Sprint(2000+j*3))
				}
				c.Ports = strings.Join(items, ",")
				c.Subnet = fmt.Sprintf("%s/%d", ipS(base), 31)
			}
		}
		c.Extra = []string{"--srcip", foreignSrcIP, "--rate", c.Rate, "--exit-delay", "50ms"}
		if rn >= 2000 || i%5 == 0 {
			c.PauseMs, c.PauseAfter = 40, 20+rng.Intn(want/2+1)
		}
		cases = append(cases, c)
	}
	for i, c := range cases {
		if !run.Mine(i) || tooManyHangs() {
			continue
		}
		run.Case(fmt.Sprintf("c15w%04d", i), c)
		for attempt := 0; attempt < 3; attempt++ {
			args, stdin := wireArgs(tmp, &c.wireSpec)
			dev := devName(c.Link)
			var nSeen int32
			spec := &CaseSpec{Args: args, Stdin: stdin, Setup: commonWorld(c.Link), Sniff: []string{dev}, Timeout: 180 * time.Second}
			if c.PauseMs > 0 {
				spec.OnTx = func(cr *CaseRun, d *Dev, frame []byte) {
					if int(atomic.AddInt32(&nSeen, 1)) == c.PauseAfter {
						cr.Signal(syscall.SIGSTOP)
						time.AfterFunc(time.Duration(c.PauseMs)*time.Millisecond, func() { cr.Signal(syscall.SIGCONT) })
					}
				}
			}
			res := RunCase(sx, spec)
			run.Eval(1)
			desc := map[string]interface{}{"case": c, "argv": tailStr(strings.Join(args, " "), 300)}
			if !baseChecks(run, res, desc, true) {
				break
			}
			if res.Drops > 0 {
				run.Inconclusive(fmt.Sprintf("the timestamp sniffer dropped %d frames", res.Drops))
				break
			}
			// probes by chunk (each chunk has its own limiter: windows never span two chunks)
			type stamp struct {
				t     time.Time
				chunk int
			}
			portIdx := map[uint16]int{}
			if c.NRanges > 0 {
				for j, it := range strings.Split(c.Ports, ",") {
					var p int
					fmt.Sscanf(it, "%d", &p)
					portIdx[uint16(p)] = j
				}
			}
			var st []stamp
			for _, e := range res.Sniffed(dev) {
				_, _, port, ok := decodeProbe(c.Kind, e.Data, oLink(c.Link))
				if !ok || e.KTS.IsZero() {
					continue
				}
				st = append(st, stamp{e.KTS, portIdx[port] / 200})
			}
			exp, _ := wireExpected(&c.wireSpec)
			var total int
			for _, n := range exp {
				total += int(n)
			}
			if len(st) != total {
				run.Inconclusive(fmt.Sprintf("sniffer saw %d probes, %d expected", len(st), total))
				break
			}
			rn, rw, _ := oracle.RefRate(c.Rate)
			per := rw / time.Duration(rn)
			const burst = 10
			// kernel timestamps are immune to the monitor's scheduling, not to sx's own: a probe that is
			// descheduled between the limiter and the syscall leaves d later, and a window that STARTS with it is
			// d shorter than the limiter made it. eps covers that with the monitor's own measured stall as the
			// yardstick (2 ms + 4 x stall, plus 2 % of the nominal span), and a window that is still too short is
			// re-judged on two more runs of the same scenario: descheduling does not repeat, a defect does.
			eps := 2*time.Millisecond + 4*res.Stall
			byChunk := map[int][]time.Time{}
			for _, s := range st {
				byChunk[s.chunk] = append(byChunk[s.chunk], s.t)
			}
			bad := false
			var windows int64
			for ch, ts := range byChunk {
				sort.Slice(ts, func(a, b int) bool { return ts[a].Before(ts[b]) })
				worst, wk, wspan, wneed := time.Duration(0), 0, time.Duration(0), time.Duration(0)
				for a := 0; a < len(ts); a++ {
					for b := a + burst + 2; b < len(ts); b++ {
						k := b - a + 1
						nominal := time.Duration(k-1-burst) * per
						need := nominal - nominal/50 - eps
						span := ts[b].Sub(ts[a])
						windows++
						if span < need && need-span > worst {
							worst, wk, wspan, wneed = need-span, k, span, need
						}
					}
				}
				if wk > 0 && attempt < 2 {
					bad = true
					continue
				}
				if wk > 0 {
					bad = true
					run.Violation("rate-exceeded:"+c.Kind+"/"+c.Link, fmt.Sprintf("--rate %s: %d consecutive probes (chunk %d) left within %v by kernel timestamps; 0.98*(k-1-%d)*W/N - eps = %v: %s", c.Rate, wk, ch, wspan, burst, wneed, tailStr(strings.Join(args, " "), 200)), desc)
				}
			}
			if bad && attempt < 2 {
				run.Count("short_window_runs_retried", 1)
				continue
			}
			if !bad {
				run.Count("rate_runs_ok", 1)
			}
			run.Count("c15_wire_runs", 1)
			run.Count("c15_cmd:"+strings.Join(c.Cmd, " "), 1)
			run.Count("rate_windows_checked", windows)
			run.Count("rate_probes_timestamped", int64(len(st)))
			run.Count("rate_link:"+c.Link, 1)
			if c.NRanges > 200 {
				run.Count("rate_chunked_runs", 1)
			}
			run.Distinct(strings.Join(args, " "))
			if run.WantSample() {
				all := byChunk[0]
				if len(all) > 1 {
					run.Sample(map[string]interface{}{"rate": c.Rate, "probes": len(st), "first_chunk_span_ms": all[len(all)-1].Sub(all[0]).Milliseconds(), "minimum_ms": (time.Duration(len(all)-1-burst) * per).Milliseconds()})
				}
			}
			break
		}
	}
	// ---- receiving is never slowed by the limiter
	nb := run.Pick(6, 30)
	for i := 0; i < nb; i++ {
		if !run.Mine(len(cases) + i) {
			continue
		}
		kind := []string{"icmp", "tcp", "arp"}[i%3]
		s := &wireSpec{Kind: kind, Link: "tap", Mode: "subnet", Subnet: fmt.Sprintf("10.9.%d.0/28", 10+i)}
		switch kind {
		case "icmp":
			s.Cmd = []string{"icmp"}
		case "tcp":
			s.Cmd, s.Ports = []string{"tcp", "syn"}, "80"
		default:
			s.Cmd = []string{"arp"}
		}
		s.Extra = []string{"--srcip", foreignSrcIP, "--rate", "2/s", "--exit-delay", "50ms"}
		args, stdin := wireArgs(tmp, s)
		run.Case(fmt.Sprintf("c15burst%03d", i), args)
		const replies = 150
		var mu sync.Mutex
		nTx := 0
		var secondTx time.Duration
		var want []string
		prng := rand.New(rand.NewSource(int64(i)))
		spec := &CaseSpec{Args: args, Stdin: stdin, Setup: commonWorld("tap"), Timeout: 60 * time.Second,
			OnTx: func(cr *CaseRun, d *Dev, frame []byte) {
				dec, _, port, ok := decodeProbe(kind, frame, oracle.LinkEthernet)
				if !ok {
					return
				}
				mu.Lock()
				nTx++
				k := nTx
				if k == 4 {
					secondTx = time.Since(cr.Log.t0)
				}
				mu.Unlock()
				if k == 3 {
					// answers "from" 150 hosts of the subnet... there are only 16: vary the source port / address in-subnet
					c, _ := oracle.RefTarget(s.Subnet)
					for r := 0; r < replies; r++ {
						a := c.Base + uint32(r%16)
						fr, rec := replyFor(kind, oracle.LinkEthernet, dec, a, port, prng)
						mu.Lock()
						want = append(want, rec)
						mu.Unlock()
						cr.Inject(d, fr)
					}
				}
			}}
		res := RunCase(sx, spec)
		run.Eval(1)
		if !baseChecks(run, res, args, true) {
			continue
		}
		// lines printed before the probe after the burst left (it leaves 500 ms later)
		early := 0
		for k := range res.Stdout {
			if secondTx == 0 || res.StdoutT[k] < secondTx {
				early++
			}
		}
		if early < replies {
			if res.Stall > 100*time.Millisecond {
				run.Inconclusive("monitor stalled during the reply burst")
			} else {
				run.Violation("receive-slowed-by-rate-limit", fmt.Sprintf("--rate 2/s: %d replies arrived at once; only %d were printed before the next probe left 500 ms later (%d in total): %s", replies, early, len(res.Stdout), strings.Join(args, " ")), args)
			}
		} else {
			run.Count("reply_bursts_ok", 1)
		}
		run.Count("reply_burst_runs", 1)
	}
}

// ---------------------------------------------------------------------------

type c12case struct {
	wireSpec
	When    string `json:"sigint_when"` // probe | exit-delay | start
	K       int    `json:"k,omitempty"`
	StartUs int    `json:"start_offset_us,omitempty"`
	Answer  bool   `json:"peer_answers"`
	// the address list comes from stdin (-f -) and the producer stalls after these lines
	StalledStdin bool `json:"address_list_on_a_stalled_stdin,omitempty"`
}

func scenC12(run *vlab.Run, sx, tmp string) {
	rng := run.Rand("c12wire")
	var cases []*c12case
	n := run.Pick(64, 640)
	for i := 0; i < n; i++ {
		c := &c12case{Answer: i%3 != 0}
		kinds := []struct {
			cmd  []string
			kind string
		}{{[]string{"arp"}, "arp"}, {[]string{"icmp"}, "icmp"}, {[]string{"tcp", "syn"}, "tcp"}, {[]string{"arp", "--live", "100ms"}, "arp"}}
		k := kinds[i%len(kinds)]
		c.Cmd, c.Kind, c.Link, c.Mode = k.cmd, k.kind, "tap", "subnet"
		bits := 24 + rng.Intn(5)
		base := (0x0a090000 | rng.Uint32()&0xff00) &^ (1<<uint(32-bits) - 1)
		c.Subnet = fmt.Sprintf("%s/%d", ipS(base), bits)
		if k.kind == "tcp" {
			c.Ports = []string{"80", "22,80,443"}[rng.Intn(2)]
			if i%8 == 2 { // cancellation between chunks
				var items []string
				for j := 0; j < 401; j++ {
					items = append(items, fmt.Sprint(1000+j))
				}
				c.Ports, c.NRanges = strings.Join(items, ","), 401
				c.Subnet = fmt.Sprintf("%s/31", ipS(base))
			}
		}
		exp, _ := wireExpected(&c.wireSpec)
		total := 0
		for _, m := range exp {
			total += int(m)
		}
		switch i % 5 {
		case 0:
			c.When, c.StartUs = "start", []int{0, 200, 1000, 3000, 8000, 20000}[rng.Intn(6)]
		case 1:
			c.When = "exit-delay"
		default:
			c.When, c.K = "probe", 1+rng.Intn(total)
			if rng.Intn(3) == 0 {
				c.K = []int{1, 2, total - 1, total}[rng.Intn(4)]
				if c.K < 1 {
					c.K = 1
				}
			}
		}
		if len(c.Cmd) > 1 && c.Cmd[1] == "--live" && c.When == "exit-delay" {
			c.When, c.K = "probe", total+1+rng.Intn(2*total) // somewhere in a later pass
		}
		c.Extra = []string{"--srcip", foreignSrcIP, "--rate", "4000/s"}
		if k.kind == "tcp" && i%8 == 6 {
			// -f - with a producer that stalls, and enough port ranges for several chunks
			var items []string
			for j := 0; j < 401; j++ {
				items = append(items, fmt.Sprint(1000+j))
			}
			c.Ports, c.NRanges, c.Subnet = strings.Join(items, ","), 401, ""
			c.Mode, c.StalledStdin = "addrfile-stdin", true
			c.File = fmt.Sprintf("{\"ip\":\"%s\"}\n{\"ip\":\"%s\"}\n", ipS(base), ipS(base+1))
			// only the first port's pass can make progress (2 addresses), then the scan waits for its producer:
			// SIGINT at the first / second probe, or a moment after the producer stalled
			c.When, c.K = "probe", 1+rng.Intn(2)
			if rng.Intn(2) == 0 {
				c.When, c.K = "stalled", 2
			}
		}
		cases = append(cases, c)
	}
	for i, c := range cases {
		if !run.Mine(i) || tooManyHangs() {
			continue
		}
		run.Case(fmt.Sprintf("c12w%04d", i), c)
		exp, _ := wireExpected(&c.wireSpec)
		total := 0
		for _, m := range exp {
			total += int(m)
		}
		args, stdin := wireArgs(tmp, &c.wireSpec)
		var mu sync.Mutex
		nTx := 0
		sent := false
		prng := rand.New(rand.NewSource(int64(i)))
		spec := &CaseSpec{Args: args, Stdin: stdin, StdinStalls: c.StalledStdin, Setup: commonWorld("tap"), Timeout: 40 * time.Second,
			OnStart: func(cr *CaseRun) {
				if c.When == "start" {
					time.Sleep(time.Duration(c.StartUs) * time.Microsecond)
					cr.Signal(syscall.SIGINT)
				}
			},
			OnTx: func(cr *CaseRun, d *Dev, frame []byte) {
				dec, a, port, ok := decodeProbe(c.Kind, frame, oracle.LinkEthernet)
				if !ok {
					return
				}
				mu.Lock()
				nTx++
				k := nTx
				fire := !sent && (c.When == "probe" && k == c.K)
				late := !sent && (c.When == "exit-delay" && k == total || c.When == "stalled" && k == c.K)
				if fire || late {
					sent = true
				}
				mu.Unlock()
				if c.Answer {
					if fr, _ := replyFor(c.Kind, oracle.LinkEthernet, dec, a, port, prng); fr != nil {
						cr.Inject(d, fr)
					}
				}
				if fire {
					cr.Signal(syscall.SIGINT)
					if c.Answer {
						// replies keep flowing while the process winds down (sockets are being closed under the receiver)
						if fr, _ := replyFor(c.Kind, oracle.LinkEthernet, dec, a, port, prng); fr != nil {
							go func() {
								for k := 0; k < 300; k++ {
									time.Sleep(time.Millisecond)
									func() {
										defer func() { recover() }()
										cr.Inject(d, fr)
									}()
								}
							}()
						}
					}
				}
				if late {
					time.AfterFunc(100*time.Millisecond, func() { cr.Signal(syscall.SIGINT) })
				}
			}}
		res := RunCase(sx, spec)
		run.Eval(1)
		desc := map[string]interface{}{"case": c, "argv": tailStr(strings.Join(args, " "), 300)}
		if res.SetupErr != "" {
			run.Inconclusive("setup: " + res.SetupErr)
			continue
		}
		if t := res.crashText(); t != "" {
			run.Violation("crash-on-sigint:"+c.When, "sx crashed after SIGINT: "+strings.SplitN(t, "\n", 2)[0], map[string]interface{}{"case": desc, "stderr": t})
			continue
		}
		if res.TimedOut {
			if res.Parked {
				run.Violation("no-exit-after-sigint:"+c.When, fmt.Sprintf("sx did not exit after SIGINT (%s, k=%d): no CPU time, no frame for a second", c.When, c.K), map[string]interface{}{"case": desc, "goroutines": tailStr(res.Dump, 60000)})
			} else {
				run.Inconclusive(fmt.Sprintf("still running 40 s after start: %+v", c))
			}
			continue
		}
		delivered := false
		for _, e := range res.Events {
			if e.Kind == "signal" {
				delivered = true
			}
		}
		// exit status: 0 (handled) - or killed by the signal when it arrived before the handler was installed
		// the exit status after an interrupt is not part of the statement (0 today): reported, not judged
		if res.ExitCode != 0 && !res.Signaled {
			run.Count("nonzero_exit_after_sigint", 1)
		}
		for k, l := range res.Stdout {
			var v map[string]interface{}
			if !strings.HasSuffix(l, "\n") || json.Unmarshal([]byte(l), &v) != nil {
				run.Violation("incomplete-record-after-sigint", fmt.Sprintf("stdout line %d of %d is not a complete JSON record: %.200q", k+1, len(res.Stdout), l), desc)
				break
			}
		}
		if delivered && c.StalledStdin {
			run.Count("sigint_with_stalled_stdin", 1)
		}
		if delivered {
			run.Count("sigints_delivered", 1)
			run.Count("sigint:"+c.When, 1)
		}
		if res.Signaled {
			run.Count("killed_before_handler_installed", 1)
		}
		run.Count("c12_wire_runs", 1)
		run.Count("stdout_lines_checked", int64(len(res.Stdout)))
		run.Max("max_exit_after_start_ms", res.TExit.Milliseconds())
		run.Distinct(fmt.Sprintf("%s/%s/%d/%d", strings.Join(args, " "), c.When, c.K, c.StartUs))
		if run.WantSample() && c.When == "probe" && len(res.Stdout) > 0 {
			run.Sample(map[string]interface{}{"argv": tailStr(strings.Join(args, " "), 120), "sigint_at_probe": c.K, "of": total, "lines": len(res.Stdout), "exit_ms": res.TExit.Milliseconds()})
		}
	}
}


// ---------------------------------------------------------------------------
// c16max: the largest exit delays the flag accepts (arithmetic on the delay must not wrap around): the scan is
// still listening three seconds after its last probe; it is then interrupted.
func init() { scenarios["c16max"] = scenC16Max }

func scenC16Max(run *vlab.Run, sx, tmp string) {
	delays := []string{"2562047h47m16.854775807s", "2562047h", "9223372036s", "2562047h47m16.8s"}
	cmds := [][]string{{"arp"}, {"icmp"}, {"tcp", "syn", "-p", "80"}, {"tcp", "--flags", "ack", "-p", "80"}}
	for i := 0; i < 8; i++ {
		if !run.Mine(i) {
			continue
		}
		cmd := cmds[i%len(cmds)]
		args := append([]string{}, cmd...)
		args = append(args, "--json", "-i", "tap0", "--srcip", foreignSrcIP, "--exit-delay", delays[i%len(delays)])
		if cmd[0] != "arp" {
			args = append(args, "--gwmac", gwMAC, "-a", writeFile(tmp, "arp.cache", ""))
		}
		args = append(args, fmt.Sprintf("10.9.%d.0/30", 30+i))
		run.Case(fmt.Sprintf("c16max%02d", i), args)
		var mu sync.Mutex
		var lastTx time.Time
		var sigAt time.Time
		armed := false
		res := RunCase(sx, &CaseSpec{Args: args, Setup: commonWorld("tap"), Timeout: 60 * time.Second,
			OnTx: func(cr *CaseRun, d *Dev, frame []byte) {
				mu.Lock()
				lastTx = time.Now()
				first := !armed
				armed = true
				mu.Unlock()
				if first {
					go func() {
						for {
							time.Sleep(100 * time.Millisecond)
							mu.Lock()
							quiet := time.Since(lastTx)
							mu.Unlock()
							if quiet > 3*time.Second {
								mu.Lock()
								sigAt = time.Now()
								mu.Unlock()
								cr.Signal(syscall.SIGINT)
								return
							}
						}
					}()
				}
			}})
		run.Eval(1)
		if res.SetupErr != "" {
			run.Inconclusive(res.SetupErr)
			continue
		}
		if t := res.crashText(); t != "" {
			run.Violation("crash", "sx crashed: "+strings.SplitN(t, "\n", 2)[0], args)
			continue
		}
		mu.Lock()
		sent, lt, sa := armed, lastTx, sigAt
		mu.Unlock()
		switch {
		case !sent && res.ExitCode != 0:
			run.Count("huge_delay_refused", 1) // refusing an enormous delay is not listening short
		case !sent:
			run.Inconclusive("no probe seen")
		case sa.IsZero():
			run.Violation("exit-before-delay", fmt.Sprintf("--exit-delay %s: sx exited %v after its last probe, on its own, long before the delay was over: %s", delays[i%len(delays)], res.ExitWall.Sub(lt), strings.Join(args, " ")), args)
		default:
			run.Count("huge_delay_runs_still_listening_after_3s", 1)
		}
		run.Count("huge_delay_runs", 1)
		run.Distinct(strings.Join(args, " "))
	}
}
