// Package main (wirelab) is the level-2 harness: the real sx binary runs in a private network
// namespace on tap/tun interfaces whose "cable" is a file descriptor held here, with a
// reactive peer, a kernel-timestamp sniffer and captured stdout/stderr/exit status.
// The process is started by cmd/vcheck inside `unshare -n`.
package main

import (
	"bytes"
	"encoding/binary"
	"encoding/json"
	"net"
	"fmt"
	"os"
	"os/exec"
	"strings"
	"sync"
	"sync/atomic"
	"syscall"
	"time"
	"unsafe"
)

const (
	iffTUN      = 0x0001
	iffTAP      = 0x0002
	iffNOPI     = 0x1000
	tunSetIff   = 0x400454ca
	solPacket   = 263
	packetStats = 6
	soTimestampNS  = 35
	soRcvBufForce  = 33
	ethPAll        = 0x0003
	pktOutgoing    = 4
)

func sh(args ...string) error {
	cmd := exec.Command(args[0], args[1:]...)
	out, err := cmd.CombinedOutput()
	if err != nil {
		return fmt.Errorf("%s: %v: %s", strings.Join(args, " "), err, bytes.TrimSpace(out))
	}
	return nil
}

func mustSh(args ...string) {
	if err := sh(args...); err != nil {
		panic(err)
	}
}

// Dev is a tap (Ethernet) or tun (raw IP) interface whose other end is f.
type Dev struct {
	Name  string
	Tap   bool
	MAC   [6]byte
	Index int
	f     *os.File
	fd    int
	nRead int64 // frames read from the descriptor
}

func openTunTap(name string, tap bool) (*Dev, error) {
	fd, err := syscall.Open("/dev/net/tun", syscall.O_RDWR|syscall.O_CLOEXEC, 0)
	if err != nil {
		return nil, err
	}
	var ifr [40]byte
	copy(ifr[:15], name)
	flags := uint16(iffTUN | iffNOPI)
	if tap {
		flags = iffTAP | iffNOPI
	}
	binary.LittleEndian.PutUint16(ifr[16:], flags)
	if _, _, e := syscall.Syscall(syscall.SYS_IOCTL, uintptr(fd), tunSetIff, uintptr(unsafe.Pointer(&ifr[0]))); e != 0 {
		syscall.Close(fd)
		return nil, fmt.Errorf("TUNSETIFF %s: %v", name, e)
	}
	return &Dev{Name: name, Tap: tap, fd: fd}, nil
}

// World is the set of interfaces of one case (all inside this process's network namespace).
type World struct {
	Devs []*Dev
}

func (w *World) Dev(name string) *Dev {
	for _, d := range w.Devs {
		if d.Name == name {
			return d
		}
	}
	return nil
}

// AddTap creates an Ethernet interface with the given MAC and addresses (CIDR strings) and brings it up.
func (w *World) AddTap(name, mac string, addrs ...string) *Dev {
	d, err := openTunTap(name, true)
	if err != nil {
		panic(err)
	}
	mustSh("ip", "link", "set", "dev", name, "address", mac)
	fmt.Sscanf(strings.ReplaceAll(mac, ":", " "), "%x %x %x %x %x %x", &d.MAC[0], &d.MAC[1], &d.MAC[2], &d.MAC[3], &d.MAC[4], &d.MAC[5])
	w.finish(d, addrs)
	return d
}

// AddTun creates a point-to-point interface without hardware address.
func (w *World) AddTun(name string, addrs ...string) *Dev {
	d, err := openTunTap(name, false)
	if err != nil {
		panic(err)
	}
	w.finish(d, addrs)
	return d
}

func (w *World) finish(d *Dev, addrs []string) {
	mustSh("ip", "link", "set", "dev", d.Name, "txqueuelen", "300000")
	mustSh("ip", "link", "set", "dev", d.Name, "mtu", "9000") // jumbo replies (longer than the scanner's capture length) can be injected
	os.WriteFile("/proc/sys/net/ipv6/conf/"+d.Name+"/disable_ipv6", []byte("1"), 0o644)
	for _, a := range addrs {
		if strings.Contains(a, ":") {
			os.WriteFile("/proc/sys/net/ipv6/conf/"+d.Name+"/disable_ipv6", []byte("0"), 0o644)
			os.WriteFile("/proc/sys/net/ipv6/conf/"+d.Name+"/accept_dad", []byte("0"), 0o644)
			os.WriteFile("/proc/sys/net/ipv6/conf/"+d.Name+"/router_solicitations", []byte("0"), 0o644)
			mustSh("ip", "-6", "addr", "add", a, "dev", d.Name, "nodad")
			continue
		}
		mustSh("ip", "addr", "add", a, "dev", d.Name)
	}
	os.WriteFile("/proc/sys/net/ipv4/conf/"+d.Name+"/arp_ignore", []byte("8"), 0o644)
	mustSh("ip", "link", "set", "dev", d.Name, "up")
	// (sysfs still shows the parent namespace: ask the kernel through netlink instead)
	if ifi, err := net.InterfaceByName(d.Name); err == nil {
		d.Index = ifi.Index
	} else {
		panic(err)
	}
	syscall.SetNonblock(d.fd, true) // before NewFile: the descriptor is then served by the runtime poller and Close unblocks readers
	d.f = os.NewFile(uintptr(d.fd), d.Name)
	w.Devs = append(w.Devs, d)
}

func (w *World) Close() {
	for _, d := range w.Devs {
		if d.f != nil {
			d.f.Close() // a non-persistent tun/tap disappears with its descriptor
		}
	}
	w.Devs = nil
	// leftover routes/addresses go with the devices
}

// txPackets: frames the kernel has queued on the device so far (each of them can be read from the descriptor).
func (d *Dev) txPackets() int64 {
	out, err := exec.Command("ip", "-s", "-j", "link", "show", "dev", d.Name).Output()
	if err != nil {
		return -1
	}
	var v []struct {
		Stats64 struct {
			Tx struct {
				Packets int64 `json:"packets"`
			} `json:"tx"`
		} `json:"stats64"`
	}
	if json.Unmarshal(out, &v) != nil || len(v) == 0 {
		return -1
	}
	return v[0].Stats64.Tx.Packets
}

// txDropped: frames the kernel could not queue on the device (the wire lost them).
func (d *Dev) txDropped() int64 {
	out, err := exec.Command("ip", "-s", "-j", "link", "show", "dev", d.Name).Output()
	if err != nil {
		return -1
	}
	var v []struct {
		Stats64 struct {
			Tx struct {
				Dropped int64 `json:"dropped"`
			} `json:"tx"`
		} `json:"stats64"`
	}
	if json.Unmarshal(out, &v) != nil || len(v) == 0 {
		return -1
	}
	return v[0].Stats64.Tx.Dropped
}

// ---------------------------------------------------------------------------
// Event log

type Event struct {
	T    time.Duration // since case start (monotonic)
	Kind string        // tx | sniff | inject | stdout | stderr | signal | exit | note
	Dev  string
	Data []byte
	Line string
	KTS  time.Time // kernel timestamp (sniff)
	Seq  int
}

type Log struct {
	mu    sync.Mutex
	t0    time.Time
	evs   []Event
	nTx   int32
}

func (l *Log) add(e Event) int {
	l.mu.Lock()
	e.T = time.Since(l.t0)
	e.Seq = len(l.evs)
	l.evs = append(l.evs, e)
	n := len(l.evs)
	l.mu.Unlock()
	return n
}

func (l *Log) snapshot() []Event {
	l.mu.Lock()
	defer l.mu.Unlock()
	return append([]Event(nil), l.evs...)
}

// ---------------------------------------------------------------------------
// Sniffer: AF_PACKET socket with SO_TIMESTAMPNS; outgoing frames carry the kernel's
// sender-side timestamp, independent of how promptly this process is scheduled.

type Sniffer struct {
	fd   int
	dev  *Dev
	stop int32
	done chan struct{}
}

func htons(v uint16) uint16 { return v<<8 | v>>8 }

func newSniffer(d *Dev, log *Log) (*Sniffer, error) {
	fd, err := syscall.Socket(syscall.AF_PACKET, syscall.SOCK_RAW|syscall.SOCK_CLOEXEC, int(htons(ethPAll)))
	if err != nil {
		return nil, err
	}
	if err := syscall.Bind(fd, &syscall.SockaddrLinklayer{Protocol: htons(ethPAll), Ifindex: d.Index}); err != nil {
		syscall.Close(fd)
		return nil, err
	}
	syscall.SetsockoptInt(fd, syscall.SOL_SOCKET, soRcvBufForce, 256<<20)
	if err := syscall.SetsockoptInt(fd, syscall.SOL_SOCKET, soTimestampNS, 1); err != nil {
		syscall.Close(fd)
		return nil, err
	}
	tv := syscall.Timeval{Usec: 50000}
	syscall.SetsockoptTimeval(fd, syscall.SOL_SOCKET, syscall.SO_RCVTIMEO, &tv)
	s := &Sniffer{fd: fd, dev: d, done: make(chan struct{})}
	go func() {
		defer close(s.done)
		buf := make([]byte, 70000)
		oob := make([]byte, 256)
		for atomic.LoadInt32(&s.stop) == 0 {
			n, oobn, _, from, err := syscall.Recvmsg(fd, buf, oob, 0)
			if err != nil {
				continue
			}
			ll, ok := from.(*syscall.SockaddrLinklayer)
			if !ok || ll.Pkttype != pktOutgoing {
				continue
			}
			var kts time.Time
			if msgs, err := syscall.ParseSocketControlMessage(oob[:oobn]); err == nil {
				for _, m := range msgs {
					if m.Header.Level == syscall.SOL_SOCKET && m.Header.Type == soTimestampNS && len(m.Data) >= 16 {
						sec := int64(binary.LittleEndian.Uint64(m.Data[0:8]))
						nsec := int64(binary.LittleEndian.Uint64(m.Data[8:16]))
						kts = time.Unix(sec, nsec)
					}
				}
			}
			log.add(Event{Kind: "sniff", Dev: d.Name, Data: append([]byte(nil), buf[:n]...), KTS: kts})
		}
	}()
	return s, nil
}

// Close stops the sniffer and returns the kernel's drop counter for its socket.
func (s *Sniffer) Close() (drops uint32) {
	atomic.StoreInt32(&s.stop, 1)
	<-s.done
	var st [2]uint32
	l := uint32(8)
	syscall.Syscall6(syscall.SYS_GETSOCKOPT, uintptr(s.fd), solPacket, packetStats, uintptr(unsafe.Pointer(&st[0])), uintptr(unsafe.Pointer(&l)), 0)
	syscall.Close(s.fd)
	return st[1]
}
